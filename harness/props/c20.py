"""C20 — value-returning operations never modify their arguments.

A case is a HISTORY: literal Python containers / Pauli terms are created, then a sequence of listed public
operations is applied to a shared pool of live objects (results join the pool).  Around EVERY call the whole
pool (not only the arguments) and the inline arguments are deep-snapshotted; the call is made twice.
  oracle        : nothing in the pool changed, inline arguments unchanged, both calls gave equal results,
                  no exception outside the documented rejection classes.
  correspondence: the same history is replayed on the Lean object-store model (OQ/Model/C20.lean); results
                  and the final pool must agree (exact rationals, 1e-9 on inexact floats).
Kind `containers` (c20_containers.py, oracle only): every argument of every family of value-returning operations in every
container type the library accepts (tuple / OrderedDict / MappingProxyType / float64, complex128, int64 arrays - contiguous,
strided, read-only - ...), deep snapshots of the arguments around every call.  The literal containers and inline arguments
of the histories come in those types as well (`ct`, `qt`, `mt`, `st` of a call; invisible to the model).
"""
import json
import os
import tempfile
import types as _types
from fractions import Fraction

from .. import common
from ..common import rat, unrat
from . import c20_containers
from . import c20_symbolic

PROP = "C20"
RULE = ("random call histories (8-22 calls) on a shared pool of circuits / Pauli terms and sums / measurement sets / "
        "distributions / wavefunctions plus the raw lists, dicts and arrays they were built from; every call is "
        "bracketed by deep snapshots of the WHOLE pool and made twice on the same inline arguments; every operation is "
        "written in all the forms a user has (a + b, `a += b` on an alias, reduce, sum(.., start), the dunder by name, "
        "pow(), reflected / subtracted / divided forms, comparisons, hash, len, iteration, indexing, truth value, copy / "
        "deepcopy / pickle followed by edits of the copy, `+=` on the circuit cached inside an operator); identical calls and "
        "one-component siblings recur later in the history; the whole history is run three ways (as given; object calls "
        "re-ordered with all reports afterwards, every 8th time on a freshly loaded copy of the library; every call "
        "followed by reading everything readable and by editing what it returned) and the final deep observations "
        "must agree; the literal containers and inline arguments of a history also come in the container types that ALIAS under a "
        "copy-avoiding conversion (tuples, OrderedDict / MappingProxyType / Counter, object arrays, read-only and strided arrays, "
        "qubit indices as int64 arrays / ranges, kernel widths as float64 / int64 arrays inside the parameter dictionary); kind "
        "`containers` (harness/props/c20_containers.py): 24 families of value-returning operations, EVERY argument slot in EVERY "
        "container type the unchanged library accepts for it (one case per family x slot x type on every run, plus random "
        "combinations), the family's calls made on the same argument objects, each twice, deep snapshots (value bits, dtype, strides, "
        "flags, container type, order, identity, the buffer behind a view, the dict behind a proxy) around every call; "
        "kind `symbolic` (harness/props/c20_symbolic.py): readers of objects holding sympy expressions that are NOT in simplified / "
        "expanded / evaluated form (hand-built symbolic wavefunctions over every constructor route, wavefunctions returned by the symbolic "
        "simulator, circuits / operations / plain, controlled and daggered gates with unsimplified parameters, custom gate definitions with "
        "unsimplified matrices): every reading / value-returning operation twice on the same objects, STRUCTURAL snapshots (srepr of every "
        "entry / parameter, free_symbols, container type and shape, read from the fields without running library code) of receiver and "
        "arguments around every call, equal answers required; "
        "non-trivial: a history with >= 2 listed calls that share at least one pool object, a containers case with at least one "
        "argument not in its default type; distinct = distinct canonical JSON of the history")
TRUSTED = [
    "numpy / sympy / scipy / json / rapidjson functions the operations call on the values they have READ do not "
    "write through to those values (np.abs, @, Matrix.subs, Counter, json.dumps ...)",
    "the snapshot function observes everything the public API can show (n_qubits, operations, free_symbols, repr of "
    "terms incl. dict order, coefficient value and type, identity of the term objects inside a sum/list, bitstrings, "
    "distribution_dict items in order with exact float bits, amplitude bytes, aliasing of the backing container); "
    "private caches (_circuit, _circuits, _is_ising) are not part of a snapshot - what they can influence is read by the "
    "deep observation (every argument-free reader and conversion of the object) at the end of each of the three runs",
    "np.random.seed makes get_measurements_representing_distribution repeatable (its draws are external to the model: "
    "the model receives the samples the implementation returned)",
    "iteration order of set(dict keys) in PauliTerm.__iter__ is a CPython detail: model and implementation are compared "
    "up to the key order inside a term",
    "Python's data model: with no in-place dunder defined (surveyed on the unchanged library: no class defines __iadd__, "
    "__imul__, __itruediv__, __ipow__ ...; `x2 = x; x2 op= y; x2 is x` is False or a TypeError for every class and operand), "
    "`x op= y`, functools.reduce(operator.op, [x, y]), sum([y], x), x.__op__(y) and pow(x, n) all evaluate x.__op__(y): the "
    "model answers every such form with the same call; the only documented mutators are Wavefunction.__setitem__, "
    "Measurements.add_counts and plain container operations on the public attributes (bitstrings, distribution_dict, terms), "
    "which the histories apply to COPIES only",
    "re-executing the library's modules (importlib, sys.modules swapped and restored) yields a copy whose behaviour differs "
    "from the first copy only by module-level state accumulated since import",
    "containers: the argument snapshot (c20_containers.csnap) sees every way an argument can change: ndarray bytes / dtype / shape / "
    "strides / flags and the buffer behind a strided view, numpy scalars by bytes, list / tuple / dict / OrderedDict / Counter / "
    "defaultdict / MappingProxyType (and the dict behind it) by type, order, content and identity of every nested container, "
    "sets, ranges, sympy expressions and matrices by srepr, library objects through their public attributes; numpy refuses a write "
    "to an array whose WRITEABLE flag is off with a ValueError naming 'read-only', Python refuses item assignment / deletion and "
    "the mutating methods on tuple / MappingProxyType / frozenset / range with a TypeError / AttributeError naming them - such an "
    "error text is taken as proof that the operation tried to write to its argument",
    "symbolic: sympy.srepr is injective on expression structure, sympy expressions are immutable (the srepr of a stored expression is "
    "cached by object identity within one case), vars() / dataclasses.fields / Matrix.flat() / iteration over an object array read an "
    "object's fields without running library code, so taking a snapshot cannot trigger the rewrite it looks for; two ANSWERS are compared "
    "by sympy's structural hash (srepr only to print a difference)",
]
ASSUMPTIONS = [
    "np.isclose(c, 0) in PauliSum.simplify coincides with the exact test on the dyadic coefficients generated here; "
    "math.isclose(norm, 1) / np.isclose(p, 1) are modelled with their tolerances, and the generated sums stay away from the "
    "tolerance boundary (|norm-1| < 1e-10 or > 1e-6; |p-1| < 5e-6 or > 1e-4), so float rounding cannot flip them",
    "gate parameters are Python floats (dyadic) or plain sympy Symbols; bind maps send symbols to dyadic numbers",
    "Python exceptions ValueError / RuntimeError / NotImplementedError / TypeError / IndexError / AssertionError (the library's "
    "`assert isinstance(other, number)` operand checks in __radd__/__rmul__) count as a rejection of the "
    "call (the frame condition is still checked on that path); any other exception is reported",
    "a constructor (Circuit, PauliSum, Measurements, MeasurementOutcomeDistribution, Wavefunction) and Wavefunction.bind "
    "are not among the listed operations: their result may alias the argument exactly as the model says; the results of "
    "the listed operations are edited through public attributes only at their top-level container",
    "histories with a symbolic wavefunction are outside the model (oracle only)",
    "symbolic (oracle only, outside the model): the structural snapshot reads private fields (_amplitude_vector, _operations, the "
    "dataclass fields of gates / operations / custom gate definitions); what it demands is only what the public API shows: wf[i], "
    "list(wf), wf.free_symbols, circuit.operations[i].params, definition.matrix are those very objects, and srepr / free_symbols of "
    "them are observable (a second identical call returns a structurally different or differently typed answer once free symbols "
    "cancel).  The identity of a private container is NOT demanded.  Any exception of a symbolic object's operation "
    "(save_wavefunction, sample_from_wavefunction, bind to values that break normalisation, power / exp of a parametric gate, hash of a gate "
    "with an unhashable factory) counts as an answer - the same one both times - and the frame condition is checked on that path too; "
    "the simulator object (its job counters are documented state) is not snapshotted; numeric entries of a generated symbolic "
    "wavefunction keep total probability <= 1 (the constructor rejects more)",
    "containers (oracle only, outside the model): the container types per argument are those the UNCHANGED library accepts "
    "(surveyed with `python -m harness.props.c20_containers survey`: every listed type answers every call of its family without a "
    "rejection).  Not accepted by the unchanged library and therefore not generated: marked qubits as numpy arrays "
    "(`if not marked_qubits` has no truth value for more than one entry), numpy arrays as the 'real' / 'imag' entries of "
    "convert_dict_to_array's dictionary (same reason), nested lists / tuples as Parities.values (to_dict calls .tolist()), a tuple of "
    "circuits for to_dict / save_circuitset (single dispatch on list), anything but an ndarray as the state of sparse_tools.expectation, "
    "0-d arrays as bandwidth (not iterable) or as the coefficient of a Pauli term (the annotation is `complex`; with a 0-d array "
    "hash(term) raises for complex entries and convert_op_to_dict hands out `coefficient.real`, a VIEW of the caller's array).  Rejections (the REJECT classes) count as answers; the frame condition is checked on "
    "that path too",
    "containers: normalize_measurement_outcome_distribution and expectation_values_to_real edit and return their argument by design "
    "(in-place helpers, not among the listed operations: the constructor applies the former to its own re-keyed copy) and are not "
    "called; a result may share SECOND-level objects with the arguments (the frame arrays inside the lists of "
    "concatenate_expectation_values' result are the arguments' arrays, the terms inside a simplified sum are the operands' terms): "
    "returned containers are edited at their top level only, results of constructors that keep the caller's container by design "
    "(PauliSum(terms), Measurements(bitstrings), MultiPhaseOperation(params), replace_params) are not edited at all",
]

SYMS = ["theta", "phi"]
# name -> (arity, n_params, hermitian)
GATES = {"X": (1, 0, True), "H": (1, 0, True), "Z": (1, 0, True), "T": (1, 0, False), "S": (1, 0, False),
         "CNOT": (2, 0, True), "SWAP": (2, 0, True), "ISWAP": (2, 0, False),
         "RX": (1, 1, False), "RZ": (1, 1, False), "PHASE": (1, 1, False), "GPi": (1, 1, True),
         "CPHASE": (2, 1, False), "XX": (2, 1, False)}

_LIB = None
_CASE_NO = 0
_PYC_DIR = None
FRESH_EVERY = 8


def _build_lib():
    common.use_repo()
    import numpy as np
    import sympy
    from orquestra.quantum import circuits
    from orquestra.quantum.circuits import _gates
    from orquestra.quantum import operators
    from orquestra.quantum.measurements import Measurements, get_parities_from_measurements
    from orquestra.quantum import distributions
    from orquestra.quantum import wavefunction

    class L:
        pass

    L.np, L.sympy, L.circuits, L.gates, L.ops = np, sympy, circuits, _gates, operators
    L.Measurements, L.parities = Measurements, get_parities_from_measurements
    L.dist, L.wfm = distributions, wavefunction
    return L


def _lib():
    global _LIB
    if _LIB is None:
        _LIB = _build_lib()
    return _LIB


def _fresh_lib():
    """a SECOND, freshly executed copy of the library's modules (every module-level table, lru_cache and class attribute in
    its initial state); the copy the rest of the process uses is put back into sys.modules afterwards"""
    import sys
    global _PYC_DIR
    _lib()
    mine = lambda k: k == "orquestra" or k.startswith("orquestra.")
    saved = {k: v for k, v in sys.modules.items() if mine(k)}
    for k in saved:
        del sys.modules[k]
    if _PYC_DIR is None:   # compiled modules are kept in a private temporary directory (removed at exit), not recompiled
        import atexit
        import shutil
        _PYC_DIR = tempfile.mkdtemp(prefix="c20_pyc_")
        atexit.register(shutil.rmtree, _PYC_DIR, True)
    flags = (sys.dont_write_bytecode, sys.pycache_prefix)
    sys.dont_write_bytecode, sys.pycache_prefix = False, _PYC_DIR
    try:
        return _build_lib()
    finally:
        sys.dont_write_bytecode, sys.pycache_prefix = flags
        for k in [k for k in sys.modules if mine(k)]:
            del sys.modules[k]
        sys.modules.update(saved)


# ------------------------------------------------------------------ JSON <-> python objects
def _num(j):
    return float(Fraction(j)) if not isinstance(j, (int, float)) else float(j)


def _param_from_json(L, p):
    if isinstance(p, dict):
        return L.sympy.Symbol(p["sym"])
    return _num(p)


def _gate_from_json(L, g):
    G = L.gates
    tag = g[0]
    if tag == "base":
        ref = L.circuits.builtin_gate_by_name(g[1])
        return ref(*[_param_from_json(L, p) for p in g[2]]) if g[2] else ref
    if tag == "ctrl":
        return G.ControlledGate(_gate_from_json(L, g[1]), g[2])
    if tag == "dag":
        return G.Dagger(_gate_from_json(L, g[1]))
    if tag == "pow":
        return G.Power(_gate_from_json(L, g[1]), _num(g[2]))
    if tag == "exp":
        return G.Exponential(_gate_from_json(L, g[1]))
    raise AssertionError(g)


def _gop_from_json(L, o):
    return L.gates.GateOperation(_gate_from_json(L, o["g"]), tuple(o["q"]))


def _param_json(L, p):
    if isinstance(p, L.sympy.Symbol):
        return {"sym": p.name}
    if isinstance(p, L.sympy.Expr) and p.free_symbols:
        return {"expr": str(p)}
    return rat(Fraction(float(p)))


def _gate_json(L, g):
    G = L.gates
    if isinstance(g, G.MatrixFactoryGate):
        return ["base", g.name, [_param_json(L, p) for p in g.params], bool(g.is_hermitian)]
    if isinstance(g, G.ControlledGate):
        return ["ctrl", _gate_json(L, g.wrapped_gate), int(g.num_control_qubits)]
    if isinstance(g, G.Dagger):
        return ["dag", _gate_json(L, g.wrapped_gate)]
    if isinstance(g, G.Power):
        return ["pow", _gate_json(L, g.wrapped_gate), rat(Fraction(float(g.exponent)))]
    if isinstance(g, G.Exponential):
        return ["exp", _gate_json(L, g.wrapped_gate)]
    return ["unknown", type(g).__name__]


def _gop_json(L, o):
    return {"g": _gate_json(L, o.gate), "q": [int(q) for q in o.qubit_indices]}


def _coef(j):
    re, im = Fraction(j[0]), Fraction(j[1])
    return complex(float(re), float(im)) if im != 0 else float(re)


def _coef_json(c):
    c = complex(c)
    return [rat(Fraction(c.real)), rat(Fraction(c.imag))]


# ------------------------------------------------------------------ kinds and snapshots
def _kind(L, o):
    if o is None:
        return "none"
    if isinstance(o, L.circuits.Circuit):
        return "circuit"
    if isinstance(o, L.ops.PauliTerm):
        return "term"
    if isinstance(o, L.ops.PauliSum):
        return "sum"
    if isinstance(o, L.Measurements):
        return "meas"
    if isinstance(o, L.dist.MeasurementOutcomeDistribution):
        return "dist"
    if isinstance(o, L.wfm.Wavefunction):
        return "wf"
    if isinstance(o, L.np.ndarray):
        if o.dtype == object and o.ndim == 1 and o.size and isinstance(o[0], L.gates.GateOperation):
            return "oplist"       # the operations of a circuit handed over as an object array
        return "arr"
    if isinstance(o, (dict, _types.MappingProxyType)):
        return "ddict"
    if isinstance(o, (list, tuple)):   # (the literal containers of a history come as lists or as tuples)
        if o and isinstance(o[0], L.ops.PauliTerm):
            return "termlist"
        if o and isinstance(o[0], tuple):
            return "bitlist"
        if o and isinstance(o[0], L.gates.GateOperation):
            return "oplist"
        if o and isinstance(o[0], L.sympy.Basic):
            return "symvec"
        if o and isinstance(o[0], (int, float, complex)) and not isinstance(o[0], bool):
            return "numlist"      # amplitudes as a plain Python sequence
        return "list" if (isinstance(o, list) or not o) else "tuple"
    return type(o).__name__


def _gate_strict(L, g):
    """exact structural form of a (frozen) gate: classes, names, repr of every parameter"""
    G = L.gates
    if isinstance(g, G.MatrixFactoryGate):
        return [type(g).__name__, g.name, [type(p).__name__ + ":" + repr(p) for p in g.params], g.num_qubits,
                g.is_hermitian]
    out = [type(g).__name__, _gate_strict(L, g.wrapped_gate)]
    if isinstance(g, G.ControlledGate):
        out.append(g.num_control_qubits)
    if isinstance(g, G.Power):
        out.append(repr(g.exponent))
    return out


def _num_strict(x):
    if isinstance(x, complex):
        return ["complex", x.real.hex(), x.imag.hex()]
    if isinstance(x, float):
        return ["float", x.hex()]
    return [type(x).__name__, repr(x)]


def _ident(ids, x):
    return ids.get(id(x), -1)


def _strict(L, o, ids):
    """deep snapshot of one object through its public API (plus the named mutable fields)"""
    k = _kind(L, o)
    if k == "none":
        return None
    if k == "circuit":
        return [k, repr(o.n_qubits), [[_gate_strict(L, x.gate), list(x.qubit_indices)] for x in o.operations],
                [str(s) for s in o.free_symbols], str(o)]
    if k == "oplist":
        return [k, type(o).__name__, [[_gate_strict(L, x.gate), list(x.qubit_indices)] for x in o]]
    if k == "term":
        return [k, repr(o), _num_strict(o.coefficient), sorted([q, p] for q, p in o.operations), [list(x) for x in o._ops.items()]]
    if k == "termlist":
        return [k, type(o).__name__, [_ident(ids, t) for t in o], [_strict(L, t, ids) for t in o]]
    if k == "numlist":
        return [k, type(o).__name__, [_num_strict(x) for x in o]]
    if k == "sum":
        return [k, type(o.terms).__name__, _ident(ids, o.terms), [_ident(ids, t) for t in o.terms],
                [_strict(L, t, ids) for t in o.terms], repr(o)]
    if k in ("bitlist", "list", "symvec"):
        return [k, repr(o)]
    if k == "meas":
        return [k, repr(o.bitstrings), _ident(ids, o.bitstrings)]
    if k == "ddict":
        return [k, type(o).__name__, [[repr(kk), _num_strict(v)] for kk, v in o.items()]]
    if k == "dist":
        return [k, [[repr(kk), _num_strict(v)] for kk, v in o.distribution_dict.items()], _ident(ids, o.distribution_dict),
                repr(o)]
    if k == "arr":
        return [k, str(o.dtype), list(o.shape), o.tobytes().hex() if o.dtype != object else [repr(x) for x in o.ravel()],
                list(o.strides), bool(o.flags.writeable),
                o.base.tobytes().hex() if isinstance(o.base, L.np.ndarray) and o.base.dtype != object else None]
    if k == "wf":
        if not isinstance(o._amplitude_vector, L.np.ndarray):   # symbolic: the entries as iteration shows them
            return [k, "symbolic", [repr(x) for x in o], _ident(ids, o._amplitude_vector), len(o),
                    type(o._amplitude_vector).__name__]
        a = o.amplitudes
        return [k, str(a.dtype), list(a.shape), a.tobytes().hex() if a.dtype != object else [repr(x) for x in a.ravel()],
                _ident(ids, o._amplitude_vector), len(o), type(o._amplitude_vector).__name__]
    return [k, repr(o)]


def _snap_pool(L, pool):
    ids = {id(x): i for i, x in enumerate(pool) if x is not None}
    return [_strict(L, o, ids) for o in pool]


def _result_strict(L, r, pool):
    """strict snapshot of a result (object or report) for the call-twice comparison"""
    ids = {id(x): i for i, x in enumerate(pool) if x is not None}
    return _rs(L, r, ids)


def _rs(L, r, ids):
    np = L.np
    if isinstance(r, str) or r is None or isinstance(r, (bool, int)):
        return r
    if isinstance(r, (float, complex, np.floating, np.complexfloating)):
        return _num_strict(complex(r) if isinstance(r, (complex, np.complexfloating)) else float(r))
    k = _kind(L, r)
    if k in ("circuit", "term", "sum", "meas", "dist", "wf", "arr", "termlist", "oplist", "bitlist"):
        return _strict(L, r, ids)
    if isinstance(r, dict):
        return ["dict", [[repr(a), _rs(L, b, ids)] for a, b in r.items()]]
    if isinstance(r, (list, tuple)):
        return [type(r).__name__, [_rs(L, x, ids) for x in r]]
    if hasattr(r, "toarray"):  # scipy sparse
        return ["sparse", _rs(L, np.asarray(r.toarray()), ids)]
    if hasattr(r, "values") and hasattr(r, "correlations"):  # ExpectationValues / Parities
        return [type(r).__name__, _rs(L, np.asarray(r.values), ids), _rs(L, r.correlations, ids),
                _rs(L, getattr(r, "estimator_covariances", None), ids)]
    if isinstance(r, L.sympy.MatrixBase):
        return ["sympy", str(r)]
    return [type(r).__name__, repr(r)]


# ---- canonical (model-comparable) observation, same shape as obsToJson of the driver
def _term_model(t):
    return {"ops": sorted([int(q), p] for q, p in t._ops.items()), "coef": _coef_json(t.coefficient)}


def _key_bits(k):
    """the outcome a dict key denotes: a tuple, a digit string, or a comma-separated string of integers"""
    if isinstance(k, str):
        return [int(b) for b in (k.split(",") if "," in k else k)]
    return [int(b) for b in k]


def _ddict_model(d):
    return [[_key_bits(k), rat(Fraction(float(v)))] for k, v in d.items()]


def _model_obs(L, o):
    try:
        return _model_obs_(L, o)
    except (TypeError, ValueError):   # symbolic amplitudes: such histories are outside the model (oracle only)
        return {"k": _kind(L, o), "symbolic": True}


def _model_obs_(L, o):
    k = _kind(L, o)
    if k == "none":
        return None
    if k == "circuit":
        return {"k": k, "ops": [_gop_json(L, x) for x in o.operations], "nq": int(o.n_qubits)}
    if k == "oplist":
        return {"k": k, "ops": [_gop_json(L, x) for x in o]}
    if k == "term":
        return {"k": k, "t": _term_model(o)}
    if k == "termlist":
        return {"k": k, "ts": [_term_model(t) for t in o]}
    if k == "sum":
        return {"k": k, "ts": [_term_model(t) for t in o.terms]}
    if k == "bitlist":
        return {"k": k, "bs": [[int(b) for b in t] for t in o]}
    if k == "list":  # an empty python list: which kind it models is decided by its creator
        return {"k": "list"}
    if k == "meas":
        return {"k": k, "bs": [[int(b) for b in t] for t in o.bitstrings]}
    if k == "ddict":
        return {"k": k, "d": _ddict_model(o)}
    if k == "dist":
        return {"k": k, "d": _ddict_model(o.distribution_dict)}
    if k == "arr":
        return {"k": k, "a": [_coef_json(x) for x in o.tolist()]}
    if k == "numlist":
        return {"k": "arr", "a": [_coef_json(x) for x in o]}
    if k == "wf":
        return {"k": k, "a": [_coef_json(x) for x in o.amplitudes.tolist()]}
    return {"k": k}


def _canon_model_json(j):
    """driver output -> same normal form (term ops sorted by qubit)"""
    if isinstance(j, dict):
        if "ops" in j and "coef" in j:
            return {"ops": sorted(j["ops"]), "coef": j["coef"]}
        return {k: _canon_model_json(v) for k, v in j.items()}
    if isinstance(j, list):
        return [_canon_model_json(x) for x in j]
    return j


def _close(a, b, tol=Fraction(1, 10 ** 9)):
    if isinstance(a, dict) and isinstance(b, dict):
        return a.keys() == b.keys() and all(_close(a[k], b[k], tol) for k in a)
    if isinstance(a, list) and isinstance(b, list):
        return len(a) == len(b) and all(_close(x, y, tol) for x, y in zip(a, b))
    if isinstance(a, bool) or isinstance(b, bool):
        return a == b
    if isinstance(a, (int, str)) and isinstance(b, (int, str)):
        try:
            fa, fb = Fraction(a), Fraction(b)
            return abs(fa - fb) <= tol * max(1, abs(fa), abs(fb))
        except (ValueError, ZeroDivisionError):
            return a == b
    return a == b


# ------------------------------------------------------------------ executing one call on the real library
OBJECT_OPS = {"lit_symvec", "lit_ops", "lit_terms", "lit_bits", "lit_dict", "lit_arr", "circ_new", "circ_add", "circ_add_op",
              "circ_bind", "circ_inverse", "circ_controlled", "term_new", "term_copy", "term_mul", "term_scale",
              "term_add", "term_pow", "sum_new", "sum_add", "sum_mul", "sum_rmul", "sum_pow", "sum_simplify", "op_conj",
              "meas_new", "meas_from_counts", "meas_distribution", "meas_representing", "dist_new", "dist_sub",
              "wf_new", "wf_bind"}
LITERALS = {"lit_symvec", "lit_ops", "lit_terms", "lit_bits", "lit_dict", "lit_arr", "term_new"}
# argument kinds each call needs (checked before calling, so that a missing object is a modelled "err:badref")
ARGK = {"lit_terms": None, "circ_new": ["oplist|list"], "circ_add": ["circuit", "circuit"], "circ_add_op": ["circuit"],
        "circ_bind": ["circuit"], "circ_inverse": ["circuit"], "circ_controlled": ["circuit"],
        "term_copy": ["term"], "term_mul": ["term", "term"], "term_scale": ["term"], "term_add": ["term", "term"],
        "term_pow": ["term"], "sum_new": ["termlist|list"], "sum_add": ["sum", "sum|term"], "sum_mul": ["sum", "sum|term"],
        "sum_rmul": ["sum"], "sum_pow": ["sum"], "sum_simplify": ["sum"], "op_conj": ["sum|term"],
        "meas_new": ["bitlist|list"], "meas_distribution": ["meas"], "meas_representing": ["dist"],
        "dist_new": ["ddict"], "dist_sub": ["dist"], "wf_new": ["arr|symvec|numlist"], "wf_bind": ["wf"],
        "meas_counts": ["meas"], "wf_probs": ["wf"]}
REJECT = {NotImplementedError: "err:notimpl", ValueError: "err:value", RuntimeError: "err:runtime",
          TypeError: "err:type", IndexError: "err:index",
          AssertionError: "err:assert"}  # order matters: NotImplementedError is a RuntimeError
# (AssertionError: PauliSum.__radd__/__rmul__ and PauliTerm.__rmul__ check their operand with `assert isinstance(other, number)`,
#  so `<Measurements> * <PauliSum>` is refused with an AssertionError instead of a TypeError on the unchanged library)


class _BadRef(Exception):
    pass


# ---- the syntactic forms a user has for one operation.  On the unchanged library NO class defines an in-place dunder
# (__iadd__, __imul__, ... - surveyed with `x2 = x; x2 op= y; x2 is x`: always False or TypeError), so every augmented
# assignment on a circuit / term / sum is Python's fallback `x = x op y`: value-returning, the object the name was bound to
# before (here: the pool object, which stays in the pool as the alias taken BEFORE) must keep its old value.
import functools
import operator as _op

_BIN = {"+": _op.add, "-": _op.sub, "*": _op.mul, "/": _op.truediv, "**": _op.pow, "@": _op.matmul}
_AUG = {"+": _op.iadd, "-": _op.isub, "*": _op.imul, "/": _op.itruediv, "**": _op.ipow, "@": _op.imatmul}
_DUNDER = {"+": "__add__", "-": "__sub__", "*": "__mul__", "/": "__truediv__", "**": "__pow__", "@": "__matmul__"}
_RDUNDER = {"+": "__radd__", "-": "__rsub__", "*": "__rmul__"}
FORMS = ("plain", "aug", "reduce", "sum", "dunder", "builtin", "right", "rdunder", "div", "idiv")


def _binop(form, sym, x, y):
    """x <sym> y written in the given form; x is the receiver (a live pool object = the alias taken before)"""
    if form in (None, "plain"):
        return _BIN[sym](x, y)
    if form == "aug":        # x2 = x; x2 <sym>= y; the new binding of x2 is the result
        x2 = x
        x2 = _AUG[sym](x2, y)
        return x2
    if form == "reduce":     # functools.reduce(operator.<sym>, [x, y])
        return functools.reduce(_BIN[sym], [x, y])
    if form == "sum":        # sum([y], x)  (start value x)
        assert sym == "+"
        return sum([y], x)
    if form == "builtin":    # pow(x, n)
        assert sym == "**"
        return pow(x, y)
    if form in ("dunder", "rdunder"):   # the method called by name; NotImplemented is what the operator turns into a TypeError
        r = getattr(x, (_DUNDER if form == "dunder" else _RDUNDER)[sym])(y)
        if r is NotImplemented:
            raise TypeError("NotImplemented")
        return r
    raise AssertionError(form)


def _scale(form, x, c):
    """x scaled by the number c, in the given form (c * x is the historical default of sum_rmul, x * c of term_scale)"""
    if form == "left":
        return c * x
    if form == "right":
        return x * c
    if form == "div":        # x / (1/c): c is +-2^k, so 1/c and 1.0/(1/c) are exact
        return x / (1.0 / c)
    if form == "idiv":
        x2 = x
        x2 /= (1.0 / c)
        return x2
    return _binop(form, "*", x, c)


def _inline(L, call):
    """the inline (non-pool) arguments of a call as fresh Python objects, in the container type the call names (`qt`: the qubit
    collection, `mt`: the mapping, `st`: the bandwidths; default: list / dict / python float).  `_aux` holds what stands behind
    them (the buffer of a strided view, the dict behind a MappingProxyType) and is snapshotted with them."""
    op = call["op"]
    C = c20_containers
    aux = {}
    mt = call.get("mt", "dict")
    if op == "circ_add_op":
        return {"gop": _gop_from_json(L, call["gop"])}
    if op == "circ_bind":
        return {"map": C.mk_map([(L.sympy.Symbol(s), _num(v)) for s, v in call["map"]], mt, aux, "map"), "_aux": aux}
    if op == "dist_sub":
        qs, qt = list(call["qubits"]), call.get("qt", "list")
        if qt == "range" and (not qs or qs != list(range(qs[0], qs[-1] + 1))):
            qt = "tuple"
        return {"qubits": C.mk_ints(L.np, qs, qt, aux, "qubits"), "_aux": aux}
    if op == "wf_bind":
        return {"map": C.mk_map([(L.sympy.Symbol(s), _num(v)) for s, v in call.get("map", [])], mt, aux, "map"), "_aux": aux}
    if op == "meas_from_counts":
        return {"counts": C.mk_map([("".join(str(b) for b in k), n) for k, n in call["counts"]], mt, aux, "counts"), "_aux": aux}
    if op == "report" and call["kind"] == "distance":
        sg, st = call.get("sigma", 1), call.get("st", "float")
        if isinstance(sg, list):
            sigma = C.mk_vec(L.np, [_num(x) for x in sg], st if st not in ("float", "npfloat") else "list", aux, "sigma")
        else:
            sigma = L.np.float64(_num(sg)) if st == "npfloat" else _num(sg)
        return {"params": C.mk_map([("epsilon", 1e-9), ("sigma", sigma)], mt, aux, "params"), "_aux": aux}
    if op == "report" and call["kind"] in ("gate_apply", "cached_aug"):
        return {"gop": _gop_from_json(L, call["gop"])}
    return {}


def _inline_snap(L, inl, keep):
    """deep snapshot of the inline arguments: value with exact float bits, dtype, layout, container type, order, identity"""
    return {k: (c20_containers.csnap(L, v, keep) if k != "gop" else repr(v)) for k, v in inl.items()}


def _apply(L, pool, call, inl, tmpdir, limit=None):
    """one call on the live pool.  `limit`: how many pool slots exist for this call (the re-ordered runs keep a
    pre-sized pool; a reference beyond the objects that existed when the call was made stays a bad reference)"""
    op = call["op"]
    idx = call.get("args", [])
    limit = len(pool) if limit is None else limit
    if any(i >= limit or pool[i] is None for i in idx):
        raise _BadRef()
    a = [pool[i] for i in idx]
    need = ARGK.get(op)
    if need is not None:
        for x, k in zip(a, need):
            if _kind(L, x) not in k.split("|"):
                raise _BadRef()
    np = L.np
    C, O = L.circuits, L.ops
    ct = call.get("ct")   # the container type of a literal (default: list / dict / complex128 array); empty ones stay lists
    if op == "lit_ops":
        ops = [_gop_from_json(L, o) for o in call["ops"]]
        return c20_containers.mk_seq(np, ops, ct) if (ct and ops) else ops
    if op == "lit_terms":
        if any(_kind(L, x) != "term" for x in a):
            raise _BadRef()
        return tuple(a) if (ct == "tuple" and a) else list(a)
    if op == "lit_bits":
        bits = [tuple(b) for b in call["bits"]]
        return tuple(bits) if (ct == "tuple" and bits) else bits
    if op == "lit_symvec":   # amplitudes that are sympy expressions in theta / phi
        loc = {n: L.sympy.Symbol(n) for n in SYMS}
        return [L.sympy.sympify(e, locals=loc) for e in call["exprs"]]
    if op == "lit_dict":  # keys: tuples, bit strings ("011") or comma-separated strings ("10,3")
        return c20_containers.mk_map([((tuple(k) if isinstance(k, list) else k), _num(v)) for k, v in call["d"]], ct or "dict")
    if op == "lit_arr":
        dt = call.get("dtype", "complex128")
        vals = [_num(x[0]) for x in call["a"]] if dt == "float64" else [complex(_num(x[0]), _num(x[1])) for x in call["a"]]
        if ct in ("list", "tuple"):     # amplitudes as a plain Python sequence
            return list(vals) if ct == "list" else tuple(vals)
        arr = np.array(vals, dtype=dt)
        if ct and "st" in ct.split(":"):   # a strided view of a buffer twice as long
            base = np.zeros(2 * len(arr), dtype=dt)
            base[::2] = arr
            arr = base[::2]
        if ct and "ro" in ct.split(":"):
            arr.setflags(write=False)
        return arr
    if op == "circ_new":
        return C.Circuit(a[0], call.get("nq")) if call.get("nq") is not None else C.Circuit(a[0])
    form = call.get("form")
    if op == "circ_add":
        return _binop(form, "+", a[0], a[1])
    if op == "circ_add_op":
        return _binop(form, "+", a[0], inl["gop"])
    if op == "circ_bind":
        return a[0].bind(inl["map"])
    if op == "circ_inverse":
        return a[0].inverse()
    if op == "circ_controlled":
        return a[0].controlled(call["k"])
    if op == "term_new":
        cf = _coef(call["coef"])
        if call.get("ctype") == "int":
            cf = int(cf)
        elif call.get("ctype") == "complex":
            cf = complex(cf)
        form = call.get("form", "dict")
        if form == "str":  # the string constructor: "<coefficient>*X0*Y1"
            return O.PauliTerm("*".join([repr(cf) if not isinstance(cf, complex) else "(" + repr(cf).strip("()") + ")"]
                                        + [f"{p}{int(q)}" for q, p in call["ops"]]))
        if form == "iter":
            return O.PauliTerm.from_iterable([(p, int(q)) for q, p in call["ops"]], cf)
        return O.PauliTerm({int(q): p for q, p in call["ops"]}, cf)
    if op == "term_copy":
        return a[0].copy(_coef(call["coef"])) if call.get("coef") is not None else a[0].copy()
    if op == "term_mul":
        return _binop(form, "*", a[0], a[1])
    if op == "term_scale":
        return _scale(form or ("right" if call.get("left") is None else "left"), a[0], _coef(call["coef"]))
    if op == "term_add":
        return _binop(form, "+", a[0], a[1])
    if op == "term_pow":
        return _binop(form, "**", a[0], call["n"])
    if op == "sum_new":
        return O.PauliSum(a[0])
    if op == "sum_add":
        return _binop(form, "+", a[0], a[1])
    if op == "sum_mul":
        return _binop(form, "*", a[0], a[1])
    if op == "sum_rmul":
        return _scale(form or "left", a[0], _coef(call["coef"]))
    if op == "sum_pow":
        return _binop(form, "**", a[0], call["n"])
    if op == "sum_simplify":
        return a[0].simplify()
    if op == "op_conj":
        return O.hermitian_conjugated(a[0])
    if op == "meas_new":
        return L.Measurements(a[0])
    if op == "meas_from_counts":
        return L.Measurements.from_counts(inl["counts"])
    if op == "meas_distribution":
        return a[0].get_distribution()
    if op == "meas_representing":
        np.random.seed(call["seed"])
        return L.Measurements.get_measurements_representing_distribution(a[0], call["n"])
    if op == "dist_new":
        import warnings
        with warnings.catch_warnings():
            warnings.simplefilter("ignore")
            return L.dist.MeasurementOutcomeDistribution(a[0], call["normalize"])
    if op == "dist_sub":
        import warnings
        with warnings.catch_warnings():
            warnings.simplefilter("ignore")
            return a[0].subdistribution(inl["qubits"])
    if op == "wf_new":
        return L.wfm.Wavefunction(a[0])
    if op == "wf_bind":
        return a[0].bind(inl["map"])
    if op == "meas_counts":
        return a[0].get_counts()
    if op == "wf_probs":
        return a[0].get_probabilities()
    if op == "report":
        return _report(L, call["kind"], a, call, inl, tmpdir)
    raise AssertionError(op)


def _report(L, kind, a, call, inl, tmpdir):
    C, O, np = L.circuits, L.ops, L.np
    f = os.path.join(tmpdir, "out.json")
    k0 = _kind(L, a[0]) if a else "none"
    if kind == "to_dict":
        return C.to_dict(a[0]) if k0 == "circuit" else O.convert_op_to_dict(a[0])
    if kind == "to_unitary":
        return np.asarray(a[0].to_unitary(), dtype=complex)
    if kind == "str":  # (a Wavefunction has no __repr__ of its own: the default one prints the address)
        return [str(a[0]), repr(a[0]) if k0 != "wf" else ""]
    if kind == "eq":
        return bool(a[0] == a[1])
    if kind == "free_symbols":
        return [str(s) for s in a[0].free_symbols]
    if kind == "save":
        if k0 == "circuit":
            C.save_circuit(a[0], f)
        elif k0 in ("term", "sum"):
            O.save_operator(a[0], f)
        elif k0 == "meas":
            a[0].save(f)
        elif k0 == "dist":
            L.dist.save_measurement_outcome_distribution(a[0], f)
        elif k0 == "wf":
            L.wfm.save_wavefunction(a[0], f)
        else:
            raise _BadRef()
        return open(f).read()
    if kind == "roundtrip":  # serialise and read back
        if k0 == "circuit":
            return C.circuit_from_dict(C.to_dict(a[0]))
        return O.convert_dict_to_op(O.convert_op_to_dict(a[0]))
    if kind == "pauli_strings":
        return O.get_pauli_strings(a[0])
    if kind == "sparse":
        return O.get_sparse_operator(a[0], call.get("n"))
    if kind == "reverse":
        return O.reverse_qubit_order(a[0], call.get("n"))
    if kind == "props":
        return [a[0].n_qubits, sorted(a[0].qubits), bool(a[0].is_ising), bool(a[0].is_constant), len(a[0]),
                bool(O.is_hermitian(a[0]))]
    if kind == "op_circuits":
        return a[0].circuit if k0 == "term" else a[0].circuits
    if kind == "expectation_values":
        return a[0].get_expectation_values(a[1], call.get("bessel", False))
    if kind == "parities":
        return L.parities(a[0].bitstrings, a[1])
    if kind == "distance":
        fn = {"cnll": L.dist.compute_clipped_negative_log_likelihood, "mmd": L.dist.compute_mmd,
              "jsd": L.dist.compute_jensen_shannon_divergence}[call["measure"]]
        if call.get("via") == "direct":
            return fn(a[0], a[1], inl["params"])
        return L.dist.evaluate_distribution_distance(a[0], a[1], fn, distance_measure_parameters=inl["params"])
    if kind == "n_subsystems":
        return a[0].get_number_of_subsystems()
    if kind == "outcome_probs":
        return a[0].get_outcome_probs()
    if kind == "wf_expectation":
        return O.get_expectation_value(a[0], a[1])
    if kind == "flip":
        return L.wfm.flip_wavefunction(a[0])
    if kind == "sample":
        return L.wfm.sample_from_wavefunction(a[0], call["n"], call["seed"])
    if kind == "gate_apply":
        return inl["gop"].apply(a[0])
    if kind == "amplitudes":
        return [complex(x) for x in a[0]]
    if kind == "expr":
        return _expr_report(L, a, call)
    if kind == "proto":
        return _proto_report(L, a, call)
    if kind == "copy":
        return _copy_report(L, a, call)
    if kind == "cached_aug":
        return _cached_aug_report(L, a, call, inl)
    if kind == "gate_ops":  # gates and gate operations (frozen dataclasses) under their own value-returning methods
        out = []
        for o in (a[0] if k0 != "circuit" else a[0].operations):
            g = o.gate
            row = [_gate_strict(L, g.dagger), _gate_strict(L, g.controlled(1)), str(o), [str(x) for x in o.free_symbols],
                   _gate_strict(L, o.replace_params(o.params).gate), [repr(p) for p in o.params], g.num_qubits, g.name]
            try:
                row.append(_gate_strict(L, o.bind({L.sympy.Symbol("theta"): 0.25}).gate))
            except NotImplementedError:
                row.append("err:notimpl")
            if call.get("matrix"):
                row.append(str(g.matrix))
                row.append(_rs(L, np.asarray(o.lifted_matrix(call["matrix"])), {}))
            out.append(row)
        return out
    raise AssertionError(kind)


def _expr_report(L, a, call):
    """arithmetic / augmented forms outside the model (subtraction, reflected operators with numbers, builtin sum, @, every
    augmented assignment on every kind of object).  The receiver a[0] is the alias taken before; the new object does not
    join the pool.  Returned as plain data (a strict snapshot), so that nothing the library owns is handed to the editor."""
    what = call["what"]
    x = a[0]
    y = a[1] if len(a) > 1 else (_coef(call["c"]) if "c" in call else call.get("n"))
    if call.get("ctype") == "int":
        y = int(y)
    if what in ("+=", "-=", "*=", "/=", "**=", "@="):
        r = _binop("aug", what[:-1], x, y)
        return ["result-is-receiver" if r is x else "new", _rs(L, r, {})]
    if what in ("-", "@", "+", "*", "/", "**"):
        r = _BIN[what](x, y)
    elif what in ("r+", "r-", "r*", "r/", "r@"):      # number <op> x
        r = _BIN[what[1:]](y, x)
    elif what == "sum":                                  # sum([x, y]) = ((0 + x) + y)
        r = sum([x, y] if len(a) > 1 else [x, x])
    elif what == "neg":
        r = -x
    elif what == "pos":
        r = +x
    elif what == "abs":
        r = abs(x)
    else:
        raise AssertionError(what)
    return ["result-is-receiver" if r is x else "new", _rs(L, r, {})]


def _proto_report(L, a, call):
    """the read-only protocol forms: comparison operators, hash, len, iteration, membership, indexing, truth value"""
    what = call["what"]
    x = a[0]
    if what == "hash":
        if type(x).__hash__ is object.__hash__:
            hash(x)
            return "identity-hash"
        return [hash(x), hash(x) == hash(x)]
    if what == "len":
        return len(x)
    if what == "iter":
        return _rs(L, [y for y in x], {})
    if what == "iter2":   # two interleaved iterators over the same object
        i1, i2 = iter(x), iter(x)
        out = []
        for y in i1:
            out.append(_rs(L, y, {}))
            out.append(_rs(L, next(i2, None), {}))
        return out
    if what == "bool":
        return bool(x)
    if what == "contains":
        return bool(a[1] in x)
    if what == "getitem":
        i = call["i"]
        return _rs(L, x[slice(*i)] if isinstance(i, list) else x[i], {})
    if what == "ne":
        return bool(x != a[1])
    if what == "eq":
        return [bool(x == a[1]), bool(a[1] == x)]
    if what == "eq_num":
        c = _coef(call["c"])
        return [bool(x == c), bool(c == x), bool(x != c)]
    if what in ("lt", "le", "gt", "ge"):
        return bool(getattr(_op, what)(x, a[1]))
    raise AssertionError(what)


def _copy_report(L, a, call):
    """copy.copy / copy.deepcopy / a pickle round trip of a pool object, followed by edits of the COPY: a shallow copy is only
    re-bound at its public attributes (its containers are shared with the original by definition), a deep copy / unpickled
    object is edited through its public containers as well.  The original is watched by the whole-pool snapshot."""
    import copy
    import pickle
    how = call["how"]
    x = a[0]
    if how == "copy":
        cp = copy.copy(x)
    elif how == "deepcopy":
        cp = copy.deepcopy(x)
    else:
        try:
            cp = pickle.loads(pickle.dumps(x))
        except (pickle.PicklingError, AttributeError, TypeError):
            # (on the freshly re-executed copy of the library the classes are not the ones importable by name: pickle
            #  refuses them; the deep copy takes the same __reduce_ex__ route)
            cp = copy.deepcopy(x)
    first = [cp is x, _rs(L, cp, {})]
    k = _kind(L, cp)
    if cp is x:
        return first
    if how == "copy":   # re-binding only
        if k == "term":
            cp.coefficient = 12345.0
        elif k == "sum":
            cp.terms = []
        elif k == "meas":
            cp.bitstrings = [(7,)]
        elif k == "dist":
            cp.distribution_dict = {(7,): 1.0}
    else:
        _poison_object(L, cp)
        if k == "sum":
            for t in cp.terms:
                t.coefficient = -777.0
        elif k == "wf" and isinstance(cp._amplitude_vector, L.np.ndarray):
            cp.amplitudes[...] = 0
        elif k in ("arr",):
            cp[...] = 0
        elif k in ("ddict",):
            cp.clear()
        elif isinstance(cp, list):
            cp.append("<edited>")
    return first


def _cached_aug_report(L, a, call, inl):
    """an object cached INSIDE another object as the receiver of an augmented assignment: m = term.circuit (or
    sum.circuits[i]); alias = m; m += Circuit([gate]) (or += gate).  The alias - the object the operator holds - must still
    show the old circuit, and the operator must convert to the same circuit as before."""
    x = a[0]
    k0 = _kind(L, x)
    m = x.circuit if k0 == "term" else x.circuits[call.get("i", 0)]
    alias = m
    before = _strict(L, alias, {})
    other = L.circuits.Circuit([inl["gop"]]) if call.get("operand", "circuit") == "circuit" else inl["gop"]
    m = _binop(call.get("form", "aug"), "+", m, other)
    after = _strict(L, alias, {})
    again = x.circuit if k0 == "term" else x.circuits[call.get("i", 0)]
    return {"alias_before": before, "alias_after": after, "result": _strict(L, m, {}), "converted_again": _strict(L, again, {})}


def _diff(before, after):
    return [i for i, (x, y) in enumerate(zip(before, after)) if x != y]


def _run_evalframe(case):
    """evaluating a circuit (operation-by-operation apply, and the bundled simulator with an explicit initial state)
    must not modify the state vector it is given; the same evaluation twice gives the same result"""
    import numpy as np
    from .. import circ
    common.use_repo()
    import orquestra.quantum.circuits as oqc
    from orquestra.quantum.runners.symbolic_simulator import SymbolicSimulator
    ops = []
    for o in case["ops"]:
        if "mphase" in o:
            ops.append(oqc.MultiPhaseOperation(tuple(circ.theta_of(a) for a in o["mphase"])))
        else:
            ops.append(circ.build_gate(o["g"])(*o["qs"]))
    c = oqc.Circuit(ops, n_qubits=case["n"])
    v0 = np.array([complex(float(unrat(a)), float(unrat(b))) for a, b in case["v"]], dtype=case.get("dtype", "complex128"))
    out = {"evalframe": True}

    def fresh_v():
        if case.get("strided"):   # a non-contiguous view of a larger buffer: an out= / in-place write would land in the buffer
            base = np.zeros(2 * len(v0), dtype=v0.dtype)
            base[::2] = v0
            return base[::2]
        return v0.copy()

    v = fresh_v()
    sim = SymbolicSimulator()   # one long-lived simulator for the repeated evaluations, a new one for the last
    w1 = sim.get_wavefunction(c, initial_state=v)
    r1 = w1.amplitudes.copy()
    out["sim_arg_intact"] = bool(np.array_equal(v, v0))
    # the caller edits the state it got back: the vector it passed in must not change with it
    if isinstance(w1.amplitudes, np.ndarray) and w1.amplitudes.flags.writeable:
        w1.amplitudes[...] = 7
    out["sim_result_own"] = bool(np.array_equal(v, v0))
    r2 = sim.get_wavefunction(c, initial_state=v).amplitudes.copy()
    r3 = SymbolicSimulator().get_wavefunction(c, initial_state=v).amplitudes
    out["sim_repeatable"] = bool(np.array_equal(r1, r2) and np.array_equal(r1, r3))
    out["sim_arg_intact"] = out["sim_arg_intact"] and bool(np.array_equal(v, v0))
    v = fresh_v()
    for i, op in enumerate(ops):
        w = op.apply(v)
        if not np.array_equal(v, v0):
            out["apply_mutates"] = i
            break
        w2 = op.apply(v)
        if not np.array_equal(np.asarray(w), np.asarray(w2)):
            out["apply_unrepeatable"] = i
            break
    return out


# ------------------------------------------------------------------ deep observation, poisoning, re-ordered runs
def _guard(f):
    try:
        return f()
    except tuple(REJECT) as e:
        return next(v for k, v in REJECT.items() if isinstance(e, k))
    except Exception as e:
        return f"exc:{type(e).__name__}: {e}"[:120]


def _protocol_obs(L, o):
    """the read-only protocol of an object: hash (when it is value based), truth value, len, iteration, == with itself"""
    G = _guard
    return [G(lambda: hash(o) if type(o).__hash__ is not object.__hash__ else "identity-hash"), G(lambda: bool(o)),
            G(lambda: len(o)), G(lambda: _rs(L, [y for y in o], {})), G(lambda: [bool(o == o), bool(o != o)]),
            G(lambda: _rs(L, o[0], {}))]


def _deep(L, o, ids):
    d = _deep_(L, o, ids)
    if d is not None and _kind(L, o) in ("circuit", "term", "sum", "meas", "dist", "wf"):
        d.append(_protocol_obs(L, o))
    return d


def _deep_(L, o, ids):
    """everything the argument-free public readers of an object return (conversions included).  Reading it is itself a
    sequence of value-returning calls, so it may be taken at any time without changing any later observation."""
    k = _kind(L, o)
    if k == "none":
        return None
    base = _strict(L, o, ids)
    G, O, C = _guard, L.ops, L.circuits
    if k == "circuit":
        return [base, G(lambda: common.canon(C.to_dict(o))), G(lambda: _strict(L, o.inverse(), ids)),
                G(lambda: [str(x) for x in o.collect_custom_gate_definitions()])]
    if k == "term":
        return [base, G(lambda: _strict(L, o.circuit, ids)), G(lambda: [[p, int(q)] for p, q in o]), sorted(o.qubits),
                bool(o.is_ising), bool(o.is_constant), int(o.n_qubits), len(o), G(lambda: common.canon(O.convert_op_to_dict(o))),
                G(lambda: _strict(L, o.copy(), ids))]
    if k == "sum":
        return [base, G(lambda: [_strict(L, c, ids) for c in o.circuits]), bool(o.is_ising), bool(o.is_constant),
                G(lambda: int(o.n_qubits)), len(o), G(lambda: common.canon(O.convert_op_to_dict(o))),
                G(lambda: _strict(L, o.simplify(), ids)), G(lambda: _num_strict(o.constant_term))]
    if k == "meas":
        return [base, G(lambda: [[a, int(b)] for a, b in o.get_counts().items()]),
                G(lambda: _strict(L, o.get_distribution(), ids))]
    if k == "dist":
        return [base, G(lambda: int(o.get_number_of_subsystems()))]
    if k == "wf":
        return [base, G(lambda: _rs(L, o.get_probabilities(), ids)), G(lambda: _rs(L, o.get_outcome_probs(), ids)),
                G(lambda: str(o)), G(lambda: int(o.n_qubits)), G(lambda: [str(x) for x in o.free_symbols])]
    return [base]


def _deep_pool(L, pool):
    ids = {id(x): i for i, x in enumerate(pool) if x is not None}
    return [_deep(L, o, ids) for o in pool]


def _first_diff(a, b, path=""):
    """where two observations differ (for the message)"""
    if type(a) is type(b) and isinstance(a, list) and len(a) == len(b):
        for i, (x, y) in enumerate(zip(a, b)):
            if x != y:
                return _first_diff(x, y, f"{path}[{i}]")
    return f"at {path or 'top'}: {common.canon(a)[:200]} vs {common.canon(b)[:200]}"


def _poison(L, r, seen=None):
    """the caller edits what a report handed to it (containers and arrays only; library objects are left alone).
    Returns True if anything was edited."""
    np = L.np
    seen = set() if seen is None else seen
    if id(r) in seen:
        return False
    seen.add(id(r))
    if isinstance(r, dict):
        done = False
        for v in list(r.values()):
            done = _poison(L, v, seen) or done
        if r:
            r.pop(next(iter(r)))
        r["<edited>"] = -1
        return True
    if isinstance(r, list):
        for v in list(r):
            _poison(L, v, seen)
        r.reverse()
        r.append("<edited>")
        return True
    if isinstance(r, tuple):
        return any([_poison(L, v, seen) for v in r])
    if isinstance(r, np.ndarray):
        if r.flags.writeable and r.size:
            try:
                r[...] = 7 if r.dtype != object else 7
            except (TypeError, ValueError):
                return False
            return True
        return False
    if hasattr(r, "toarray") and hasattr(r, "data") and isinstance(getattr(r, "data", None), np.ndarray):  # scipy sparse
        return _poison(L, r.data, seen)
    if hasattr(r, "values") and hasattr(r, "correlations"):  # ExpectationValues / Parities
        done = _poison(L, r.values, seen)
        done = _poison(L, r.correlations, seen) or done
        done = _poison(L, getattr(r, "estimator_covariances", None), seen) or done
        return done
    if isinstance(r, L.sympy.MutableDenseMatrix) and r.rows and r.cols:
        r[0, 0] = 12345
        return True
    return False


# the listed operations that return a NEW object (constructors and Wavefunction.bind, which returns its receiver, are not among them)
NEW_OBJECT_OPS = {"circ_add", "circ_add_op", "circ_bind", "circ_inverse", "circ_controlled", "term_copy", "term_mul",
                  "term_scale", "term_add", "term_pow", "sum_add", "sum_mul", "sum_rmul", "sum_pow", "sum_simplify", "op_conj",
                  "meas_distribution", "dist_sub"}


def _poison_object(L, r):
    """the caller edits, through PUBLIC attributes only, the top-level containers of an object a listed operation returned
    (never the objects inside them, which a result may legitimately share with the arguments)"""
    k = _kind(L, r)
    if k == "circuit":
        ops = r.operations
        if isinstance(ops, list):
            ops.extend(ops[:1] or [L.circuits.X(0)])
            ops.reverse()
            return True
        return False
    if k == "term":
        r.coefficient = 12345.0
        return True
    if k == "sum":
        if isinstance(r.terms, list):
            r.terms.reverse()
            r.terms.append(L.ops.PauliTerm("Z7", 0.125))
            return True
        return False
    if k == "dist":
        d = r.distribution_dict
        if d:
            d.pop(next(iter(d)))
        d[(7,)] = 0.125
        return True
    if k == "meas":
        if isinstance(r.bitstrings, list):
            r.bitstrings.append((7,))
            return True
    return False


def _exec(L, pool, call, inl, tmpdir, limit=None):
    try:
        return ("ok", _apply(L, pool, call, inl, tmpdir, limit)), None
    except _BadRef:
        return ("err", "err:badref"), None
    except tuple(REJECT) as e:
        return ("err", next(v for k, v in REJECT.items() if isinstance(e, k))), str(e)[:120]
    except Exception as e:  # not a rejection: reported by the oracle
        return ("exc", f"exc:{type(e).__name__}: {e}"[:160]), None


def _ids_upto(pool, limit):
    return {id(x): i for i, x in enumerate(pool[:limit]) if x is not None}


def _outcome_strict(L, res, ids):
    return _rs(L, res[1], ids) if res[0] == "ok" else [res[0], res[1]]


def _obj_calls(calls):
    return [i for i, c in enumerate(calls) if c["op"] in OBJECT_OPS]


def _run_lazy(L, calls, tmpdir, edit=False):
    """the same history with the object-producing calls in ANOTHER dependency-respecting order (the last object and what
    it needs first), every call made once, nothing read in between; then every report, last one first.
    If each call leaves its arguments as they were and equal calls give equal results, nothing can tell the difference."""
    objc = _obj_calls(calls)
    slot = {ci: k for k, ci in enumerate(objc)}
    nbefore, n = [], 0
    for c in calls:
        nbefore.append(n)
        n += c["op"] in OBJECT_OPS
    pool = [None] * len(objc)
    done, order = set(), []

    def visit(ci):
        if ci in done:
            return
        done.add(ci)
        for a in calls[ci].get("args", []):
            if a < slot[ci]:
                visit(objc[a])
        order.append(ci)

    for ci in reversed(objc):
        visit(ci)
    for ci in order:
        res, _ = _exec(L, pool, calls[ci], _inline(L, calls[ci]), tmpdir, limit=slot[ci])
        pool[slot[ci]] = res[1] if res[0] == "ok" else None
    reports = {}
    for ci in reversed(range(len(calls))):
        if calls[ci]["op"] in OBJECT_OPS:
            continue
        res, _ = _exec(L, pool, calls[ci], _inline(L, calls[ci]), tmpdir, limit=nbefore[ci])
        reports[ci] = _outcome_strict(L, res, _ids_upto(pool, nbefore[ci]))
    return pool, reports, None


def _run_eager(L, calls, tmpdir, edit=True):
    """the same history in the given order, every call made once, and after every call EVERYTHING readable of its
    arguments and of its result is read (all conversions, counts, probabilities ...).
    Result poisoning is tried here too: the caller edits the containers / arrays a report returned IN PLACE and makes
    the same call again - no pool object may change with the edit and the call must answer as before.
    Returns (pool, reports, poison); after a successful poisoning the run stops (its state is no longer comparable)."""
    pool, reports = [], {}
    for ci, call in enumerate(calls):
        n0 = len(pool)
        inl = _inline(L, call)
        res, _ = _exec(L, pool, call, inl, tmpdir)
        if call["op"] in OBJECT_OPS:
            if edit and call["op"] in NEW_OBJECT_OPS and res[0] == "ok":
                # the caller edits the new object; the arguments must not change with it and the same call must still
                # give what it gave before (it is the SECOND, untouched result that stays in the pool)
                ids0 = _ids_upto(pool, n0)
                s1 = _outcome_strict(L, res, ids0)
                before = _snap_pool(L, pool)
                if _poison_object(L, res[1]):
                    after = _snap_pool(L, pool)
                    ch = _diff(before, after)
                    if ch:
                        return None, reports, {"call": ci, "reaches": ch[0], "diff": _first_diff(before[ch[0]], after[ch[0]])}
                    res, _ = _exec(L, pool, call, inl, tmpdir)
                    s3 = _outcome_strict(L, res, ids0)
                    if s3 != s1:
                        return None, reports, {"call": ci, "first": common.canon(s1)[:300], "again": common.canon(s3)[:300]}
            pool.append(res[1] if res[0] == "ok" else None)
        else:
            ids0 = _ids_upto(pool, n0)
            reports[ci] = s1 = _outcome_strict(L, res, ids0)
            if edit and res[0] == "ok":
                before = _snap_pool(L, pool)
                if _poison(L, res[1]):
                    after = _snap_pool(L, pool)
                    ch = _diff(before, after)
                    if ch:
                        return None, reports, {"call": ci, "reaches": ch[0], "diff": _first_diff(before[ch[0]], after[ch[0]])}
                    res3, _ = _exec(L, pool, call, inl, tmpdir)
                    s3 = _outcome_strict(L, res3, ids0)
                    if s3 != s1:
                        return None, reports, {"call": ci, "first": common.canon(s1)[:300], "again": common.canon(s3)[:300]}
        ids = {id(x): i for i, x in enumerate(pool) if x is not None}
        for i in set(call.get("args", [])) | ({len(pool) - 1} if call["op"] in OBJECT_OPS else set()):
            if 0 <= i < len(pool):
                _deep(L, pool[i], ids)
    return pool, reports, None


def _edit_raw_containers(L, pool):
    """epilogue: the caller edits the raw list / dict it once handed to a COPYING constructor (Circuit: list(operations),
    MeasurementOutcomeDistribution: re-keyed dict).  No circuit and no distribution may change."""
    watch = [i for i, o in enumerate(pool) if _kind(L, o) in ("circuit", "dist")]
    if not watch:
        return None
    ids = {id(x): i for i, x in enumerate(pool) if x is not None}
    before = {i: _strict(L, pool[i], ids) for i in watch}
    edited = []
    for i, o in enumerate(pool):
        k = _kind(L, o)
        if k == "oplist" and isinstance(o, list):
            o.append(o[0])
            o.reverse()
            edited.append(i)
        elif k == "oplist" and isinstance(o, L.np.ndarray) and o[0] != o[-1]:
            o[0] = o[-1]
            edited.append(i)
        elif k == "ddict" and o and isinstance(o, dict):
            first = next(iter(o))
            o[first] = o[first] + 1.0
            if len(o) > 1:
                o.pop(list(o)[-1])
            edited.append(i)
    if not edited:
        return None
    for i in watch:
        after = _strict(L, pool[i], ids)
        if after != before[i]:
            return {"pool": i, "kind": before[i][0], "edited": edited, "diff": _first_diff(before[i], after)}
    return None


def run_impl(case):
    import warnings
    with warnings.catch_warnings():
        warnings.simplefilter("ignore")   # (numpy's "invalid value in equal" on symbolic arrays, "not normalized" ...)
        return _run_impl(case)


def _run_impl(case):
    if case.get("kind") == "evalframe":
        return _run_evalframe(case)
    if case.get("kind") == "containers":
        return c20_containers.run_case(_lib(), case)
    if case.get("kind") == "symbolic":
        return c20_symbolic.run_case(_lib(), case)
    L = _lib()
    calls = case["calls"]
    pool, steps = [], []
    a_reports, memo, producer, last = {}, {}, [], [None]
    with tempfile.TemporaryDirectory(prefix="c20_") as tmpdir:
        for ci, call in enumerate(calls):
            op = call["op"]
            rec = {"op": op if op != "report" else "report:" + call["kind"]}
            results = []
            n0 = len(pool)
            inl = _inline(L, call)  # ONE set of inline arguments for all repetitions of the call: "the same arguments"
            inl_keep = []
            inl_before = _inline_snap(L, inl, inl_keep)

            def attempt(tag):
                # (nothing but snapshots happens between two calls: while the pool's membership is the same, the snapshot
                #  taken after one call serves as the one before the next)
                before = last[0] if last[0] is not None else _snap_pool(L, pool)
                res, msg = _exec(L, pool, call, inl, tmpdir, limit=n0)
                if msg is not None:
                    rec.setdefault("msg", msg)
                after = last[0] = _snap_pool(L, pool)
                ch = _diff(before, after)
                if ch and "changed" not in rec:
                    rec["changed"] = [{"pool": i, "before": before[i], "after": after[i]} for i in ch[:3]]
                    rec["on_call"] = tag
                inl_after = _inline_snap(L, inl, inl_keep)
                if inl_after != inl_before and "inline_changed" not in rec:
                    rec["inline_changed"] = {"where": c20_containers._where(inl_before, inl_after), "given_as": repr(inl)[:200],
                                             "on_call": tag}
                return res

            results.append(attempt(1))
            if op in OBJECT_OPS:
                # the first result is live while the call is repeated: it must not be touched either
                pool.append(results[0][1] if results[0][0] == "ok" else None)
                producer.append(ci)
                last[0] = None
            results.append(results[0] if op in LITERALS else attempt(2))
            (t1, r1), (t2, r2) = results
            ids0 = _ids_upto(pool, n0) if op not in OBJECT_OPS else {id(x): i for i, x in enumerate(pool) if x is not None}
            s1, s2 = _outcome_strict(L, results[0], ids0), _outcome_strict(L, results[1], ids0)
            if s1 != s2:
                rec["twice"] = {"first": common.canon(s1)[:300], "second": common.canon(s2)[:300]}
            if t1 == "ok":
                if op in OBJECT_OPS:
                    rec["res"] = {"obj": _model_obs(L, r1)}
                elif op == "meas_counts":
                    rec["res"] = {"counts": [[[int(c) for c in k], int(v)] for k, v in r1.items()]}
                elif op == "wf_probs":
                    if r1.dtype == object or r1.ndim != 1:   # symbolic or bound-symbolic wavefunction (oracle only)
                        rec["res"] = {"report": common.canon(s1)[:400]}
                    else:
                        rec["res"] = {"probs": [rat(Fraction(float(x))) for x in r1.tolist()]}
                else:
                    rec["res"] = {"report": common.canon(s1)[:400]}
            else:
                rec["res"] = r1
            if t1 == "ok" and isinstance(r1, dict) and "alias_before" in r1:
                if r1["alias_before"] != r1["alias_after"] or r1["alias_before"] != r1["converted_again"]:
                    rec["alias"] = _first_diff(r1["alias_before"], r1["alias_after"] if r1["alias_before"] != r1["alias_after"]
                                               else r1["converted_again"])
            if op not in OBJECT_OPS:
                a_reports[ci] = s1
            # an identical call made earlier in the history (same pool arguments, same inline values)
            if op not in LITERALS:
                key = common.canon(call)
                if key in memo:
                    cj, sj = memo[key]
                    now = s1 if op not in OBJECT_OPS else _outcome_strict(L, results[0], _ids_upto(pool, n0))
                    if sj != now:
                        rec["replay"] = {"earlier_call": cj, "diff": _first_diff(sj, now)}
                else:
                    memo[key] = (ci, s1 if op not in OBJECT_OPS else _outcome_strict(L, results[0], _ids_upto(pool, n0)))
            steps.append(rec)
        final = [_model_obs(L, o) for o in pool]
        out = {"steps": steps, "pool": final}
        # ---- history independence: the final deep observation of every pool object, three ways
        if not any(k in st for st in steps for k in ("changed", "inline_changed", "twice")):
            deep_a = _deep_pool(L, pool)
            # equal calls at different points of the history: their results must be indistinguishable to the end
            seen = {}
            for k, ci in enumerate(producer):
                if calls[ci]["op"] in LITERALS:
                    continue
                key = common.canon(calls[ci])
                if key in seen and deep_a[seen[key]] != deep_a[k] and "history" not in out:
                    out["history"] = {"how": "replay", "pool": k, "op": calls[ci]["op"], "call": ci,
                                      "diff": f"pool objects {seen[key]} and {k} are results of the same call "
                                              + _first_diff(deep_a[seen[key]], deep_a[k])}
                seen.setdefault(key, k)
            # every FRESH_EVERY-th history (and every replayed one) the re-ordered run is made on a freshly executed copy
            # of the library: module-level memo tables / lru_caches filled by anything earlier in this process are empty there
            global _CASE_NO
            fresh = _CASE_NO % FRESH_EVERY == 0
            _CASE_NO += 1
            for how, runner in (("lazy", _run_lazy), ("eager", _run_eager)):
                if "history" in out:
                    break
                Lx = _fresh_lib() if (fresh and how == "lazy") else L
                pool_x, reports_x, poison = runner(Lx, calls, tmpdir)
                if poison:
                    o = calls[poison["call"]]["op"]
                    poison["op"] = o if o != "report" else "report:" + calls[poison["call"]]["kind"]
                    out["poison"] = poison
                    # the edit went through: that run's state is spoilt; read-everything once more without editing
                    pool_x, reports_x, _ = runner(Lx, calls, tmpdir, edit=False)
                for ci in sorted(reports_x):
                    if reports_x.get(ci) != a_reports[ci]:
                        o = calls[ci]["op"]
                        out["history"] = {"how": how, "fresh": Lx is not L, "call": ci, "op": o if o != "report" else "report:" + calls[ci]["kind"],
                                          "diff": _first_diff(a_reports[ci], reports_x.get(ci))}
                        break
                if "history" in out or pool_x is None:
                    break
                deep_x = _deep_pool(Lx, pool_x)
                for k, (x, y) in enumerate(zip(deep_a, deep_x)):
                    if x != y:
                        out["history"] = {"how": how, "fresh": Lx is not L, "pool": k, "op": calls[producer[k]]["op"],
                                          "call": producer[k], "diff": _first_diff(x, y)}
                        break
            if "history" not in out:
                sh = _edit_raw_containers(L, pool)
                if sh:
                    out["shares"] = sh
    return out


# ------------------------------------------------------------------ model side
def requests(case, out):
    if "steps" not in out:
        return []  # evalframe cases are judged by the snapshot oracle only
    if any(c["op"] == "lit_symvec" for c in case["calls"]):
        return []  # symbolic wavefunctions are outside the model: oracle only
    calls = []
    for call, st in zip(case["calls"], out["steps"]):
        # (outside the model; "form": every syntactic form of an operation is the same model call - Python evaluates
        #  `x op= y`, reduce, sum(.., start), the dunder by name and pow() through the same __add__/__mul__/__pow__/__rmul__)
        c = {k: v for k, v in call.items() if k not in ("seed", "left", "measure", "bessel", "form", "qt", "mt", "st", "via", "ct")}
        if call["op"] == "meas_representing":
            res = st.get("res")
            c["samples"] = res["obj"]["bs"] if isinstance(res, dict) and res.get("obj") else []
            if res == "err:value":
                # the sampling correction refused (its leftover distribution was all zero): like the draws themselves this is
                # external to the model, which is told that no object was created (a dangling reference does that)
                c["args"] = [10 ** 6]
        if call["op"] == "report":
            c = {"op": "report", "kind": call["kind"], "args": call.get("args", [])}
        if call["op"] == "lit_dict":   # the model's dicts are keyed by outcomes, however the caller wrote them
            c = {"op": "lit_dict", "d": [[_key_bits(k), v] for k, v in call["d"]]}
        if call["op"] == "lit_arr":
            c = {"op": "lit_arr", "a": call["a"]}
        if call["op"] == "term_new":
            c = {"op": "term_new", "ops": call["ops"], "coef": call["coef"]}
        calls.append(c)
    return [("history", {"calls": calls})]


def compare(case, out, resp):
    r = resp[0]
    if isinstance(r, dict) and "driver_error" in r:
        return "driver error: " + r["driver_error"]
    if "steps" not in out:
        return None
    if not r.get("frame_ok"):
        return "model run-time self check failed (frame / result_denotes)"
    for i, (call, st, ms) in enumerate(zip(case["calls"], out["steps"], r["steps"])):
        got, want = st["res"], _canon_model_json(ms["out"])
        if call["op"] == "report":
            if isinstance(want, str) and want == "err:badref" and got != "err:badref":
                return f"step {i} {st['op']}: model could not observe an argument the implementation used"
            continue
        if isinstance(got, str) and got.startswith("exc:"):
            return f"step {i} {st['op']}: implementation raised {got}, model {common.canon(want)[:200]}"
        if call["op"] == "meas_representing" and got == "err:value" and want == "err:badref":
            continue
        if isinstance(got, dict) and "obj" in got and isinstance(got["obj"], dict) and got["obj"].get("k") == "list":
            # an empty python list: compare as the kind the model chose
            if isinstance(want, dict) and "obj" in want and not any(want["obj"].get(f) for f in ("ops", "ts", "bs")):
                continue
        if not _close(got, want):
            return f"step {i} {st['op']}: implementation {common.canon(got)[:300]} model {common.canon(want)[:300]}"
    for i, (a, b) in enumerate(zip(out["pool"], r["pool"])):
        b = _canon_model_json(b)
        if isinstance(a, dict) and a.get("k") == "list":
            continue
        if not _close(a, b):
            return f"final pool object {i}: implementation {common.canon(a)[:300]} model {common.canon(b)[:300]}"
    if len(out["pool"]) != len(r["pool"]):
        return f"pool sizes differ: implementation {len(out['pool'])} model {len(r['pool'])}"
    return None


# ------------------------------------------------------------------ oracle (implementation only)
def oracle(case, out):
    if isinstance(out, dict) and out.get("containers"):
        return c20_containers.oracle(case, out)
    if isinstance(out, dict) and out.get("symbolic"):
        return c20_symbolic.oracle(case, out)
    if isinstance(out, dict) and out.get("evalframe"):
        if not out["sim_arg_intact"]:
            return ("mutates:evaluate_circuit", "SymbolicSimulator.get_wavefunction(circuit, initial_state=v) modified v")
        if not out.get("sim_result_own", True):
            return ("shares:evaluate_circuit", "editing the amplitudes of the wavefunction SymbolicSimulator.get_wavefunction(circuit, "
                    "initial_state=v) returned changed the caller's vector v (circuit with at least one operation)")
        if "apply_unrepeatable" in out:
            return ("unrepeatable:operation_apply", f"operation #{out['apply_unrepeatable']}.apply(v) twice on the same v gave different vectors")
        if not out["sim_repeatable"]:
            return ("unrepeatable:evaluate_circuit", "evaluating the same circuit twice on the same initial state gave different states")
        if "apply_mutates" in out:
            return ("mutates:operation_apply", f"operation #{out['apply_mutates']}.apply(v) modified the vector v it was given")
        return None
    if "steps" not in out:
        return ("harness-raise", f"the history could not be run: {out}")
    for i, st in enumerate(out["steps"]):
        op = st["op"]
        if "changed" in st:
            ch = st["changed"][0]
            return ("mutates:" + op, f"call {i} ({op}, args {case['calls'][i].get('args', [])}) modified pool object "
                    f"{ch['pool']} on call #{st['on_call']}: before {common.canon(ch['before'])[:240]} "
                    f"after {common.canon(ch['after'])[:240]}")
        if "inline_changed" in st:
            return ("mutates-inline:" + op, f"call {i} ({op}) modified its inline argument: {st['inline_changed']}")
        if "alias" in st:
            return ("alias-changed:" + op, f"call {i} ({op}, args {case['calls'][i].get('args', [])}, {case['calls'][i]}): the object held "
                    f"under another name BEFORE the augmented assignment (the circuit cached inside the operator) no longer "
                    f"shows its old value {st['alias']}")
        if "twice" in st:
            return ("unrepeatable:" + op, f"call {i} ({op}) made twice on the same arguments gave different results: "
                    f"{st['twice']}")
        if isinstance(st["res"], str) and st["res"].startswith("err:") and c20_containers._WRITE_ATTEMPT.search(st.get("msg", "")):
            return ("writes:" + op, f"call {i} ({op}, args {case['calls'][i].get('args', [])}, {case['calls'][i]}) was refused with an error "
                    f"that only an attempted WRITE to a read-only / immutable argument produces: {st['msg']}")
        if "replay" in st:
            return ("unrepeatable:" + op, f"call {i} ({op}) repeats call {st['replay']['earlier_call']} on the same arguments "
                    f"(only value-returning calls in between) but gave a different result {st['replay']['diff']}")
        if isinstance(st["res"], str) and st["res"].startswith("exc:"):
            return ("raise:" + op, f"call {i} ({op}) raised {st['res']}")
    if "history" in out:
        h = out["history"]
        what = {"lazy": "when the object-producing calls are made once, in another dependency-respecting order, with nothing read "
                        "in between and all reports made afterwards (last first)",
                "eager": "when every call is made once and everything readable of its arguments and result is read right after it",
                "replay": "although both come from the same call on the same arguments"}[h["how"]]
        if h.get("fresh"):
            what += " (there: on a freshly loaded copy of the library, i.e. with every module-level cache empty)"
        where = f"the result of call {h['call']} ({h['op']})" + (f" = pool object {h['pool']}" if "pool" in h else "")
        return ("history:" + h["op"], f"{where} is observably different {what}: {h['diff']}  -- so a value-returning call of this "
                "history left something behind that a later call can see (a cache on an argument, a shared container, a hidden "
                "field or module-level state)")
    if "shares" in out:
        sh = out["shares"]
        op = "circ_new" if sh["kind"] == "circuit" else "dist_new"
        return ("shares:" + op, f"after the history the caller edited its own raw containers (pool objects {sh['edited']}) in place; "
                f"pool object {sh['pool']} ({sh['kind']}) changed with them {sh['diff']}: it is not a value of its own")
    if "poison" in out:
        po = out["poison"]
        i, op = po["call"], po["op"]
        if "reaches" in po:
            return ("shares:" + op, f"call {i} ({op}, args {case['calls'][i].get('args', [])}) returned data that is shared with "
                    f"pool object {po['reaches']}: editing the RESULT in place changed that object {po['diff']}")
        return ("unrepeatable-after-edit:" + op, f"call {i} ({op}, args {case['calls'][i].get('args', [])}): after the caller edited "
                f"the returned data in place, the same call on the same arguments gave a different result: "
                f"first {po['first']} again {po['again']}")
    return None


def nontrivial(case):
    if case.get("kind") == "evalframe":
        return len(case["ops"]) >= 2
    if case.get("kind") == "containers":
        return c20_containers.nontrivial(case)
    if case.get("kind") == "symbolic":
        return c20_symbolic.nontrivial(case)
    uses = {}
    n = 0
    for c in case["calls"]:
        if c["op"] in LITERALS:
            continue
        n += 1
        for a in set(c.get("args", [])):
            uses[a] = uses.get(a, 0) + 1
    return n >= 2 and any(v >= 2 for v in uses.values())


def distribution(cases, outs):
    ops, errs, lens, shared = {}, {}, {}, 0
    feat = {"repeated_identical_calls": 0, "dist_sub_negative_index": 0, "dict_string_keys": 0, "dict_nonbinary_outcomes": 0,
            "dict_inexact_sum": 0, "amplitudes_inexact_norm": 0, "amplitudes_real_or_single_dtype": 0,
            "term_int_or_complex_coef": 0, "term_from_string_or_iterable": 0, "oplist_width_ge_9": 0,
            "symbolic_wavefunctions": 0, "model_ops_in_another_form": 0, "augmented_assignments": 0,
            "arithmetic_forms_outside_model": 0, "protocol_reads": 0, "copy_roundtrips_edited": 0, "augmented_on_cached_circuit": 0,
            "inline_mapping_not_a_plain_dict": 0, "inline_qubits_not_a_list": 0, "distance_bandwidths_float64_array": 0,
            "distance_bandwidths_other_container": 0, "literal_container_not_list_dict_or_plain_array": 0}
    for c, o in zip(cases, outs):
        if "calls" not in c:
            continue
        seen = set()
        for call in c["calls"]:
            k = common.canon(call)
            op = call["op"]
            if op not in LITERALS:
                feat["repeated_identical_calls"] += k in seen
                seen.add(k)
            feat["literal_container_not_list_dict_or_plain_array"] += "ct" in call
            feat["inline_mapping_not_a_plain_dict"] += "mt" in call
            feat["inline_qubits_not_a_list"] += "qt" in call
            if isinstance(call.get("sigma"), list):
                feat["distance_bandwidths_float64_array" if call["st"].endswith("f64") else "distance_bandwidths_other_container"] += 1
            if call.get("form") and op != "report":
                feat["model_ops_in_another_form"] += 1
                feat["augmented_assignments"] += call["form"] in ("aug", "idiv")
            if op == "report" and call["kind"] == "expr":
                feat["augmented_assignments" if call["what"].endswith("=") else "arithmetic_forms_outside_model"] += 1
            elif op == "report" and call["kind"] == "proto":
                feat["protocol_reads"] += 1
            elif op == "report" and call["kind"] == "copy":
                feat["copy_roundtrips_edited"] += 1
            elif op == "report" and call["kind"] == "cached_aug":
                feat["augmented_on_cached_circuit"] += 1
            if op == "dist_sub":
                feat["dist_sub_negative_index"] += any(q < 0 for q in call["qubits"])
            elif op == "lit_dict":
                feat["dict_string_keys"] += any(isinstance(kk, str) for kk, _ in call["d"])
                feat["dict_nonbinary_outcomes"] += any(max(_key_bits(kk), default=0) > 1 for kk, _ in call["d"])
                tot = sum(Fraction(v) for _, v in call["d"])
                feat["dict_inexact_sum"] += tot != 1 and abs(tot - 1) < Fraction(1, 10 ** 10)
            elif op == "lit_arr":
                p = sum(Fraction(x) ** 2 + Fraction(y) ** 2 for x, y in call["a"])
                feat["amplitudes_inexact_norm"] += p != 1 and abs(p - 1) < Fraction(1, 10 ** 5)
                feat["amplitudes_real_or_single_dtype"] += "dtype" in call
            elif op == "term_new":
                feat["term_int_or_complex_coef"] += "ctype" in call
                feat["term_from_string_or_iterable"] += "form" in call
            elif op == "lit_ops":
                feat["oplist_width_ge_9"] += any(max(x["q"]) >= 8 for x in call["ops"])
            elif op == "lit_symvec":
                feat["symbolic_wavefunctions"] += 1
    for c, o in zip(cases, outs):
        if "calls" not in c:
            continue
        lens[len(c["calls"])] = lens.get(len(c["calls"]), 0) + 1
        for st in o.get("steps", []):
            ops[st["op"]] = ops.get(st["op"], 0) + 1
            if isinstance(st["res"], str):
                errs[st["res"][:11]] = errs.get(st["res"][:11], 0) + 1
    return {"calls_by_op": dict(sorted(ops.items())), "rejections": errs, "input_features": feat,
            "history_lengths": dict(sorted(lens.items())),
            "total_calls": sum(ops.values()), **c20_containers.distribution(cases, outs), **c20_symbolic.distribution(cases, outs)}


# ------------------------------------------------------------------ corpus and generators
def _g(name, params=(), herm=None):
    return ["base", name, list(params), GATES[name][2] if herm is None else herm]


def corpus():
    X0 = {"g": _g("X"), "q": [0]}
    T1 = {"g": _g("T"), "q": [1]}
    RX = {"g": _g("RX", [{"sym": "theta"}]), "q": [0]}
    CN = {"g": _g("CNOT"), "q": [0, 2]}
    PW = {"g": ["pow", _g("X"), "1/2"], "q": [1]}
    return [
        # F6 (fixed in d900b77): subdistribution emptied its source; twice on the same distribution
        {"kind": "dist", "calls": [
            {"op": "lit_dict", "d": [[[0, 1], "1/2"], [[1, 1], "1/2"]]}, {"op": "dist_new", "args": [0], "normalize": True},
            {"op": "dist_sub", "args": [1], "qubits": [1]}, {"op": "dist_sub", "args": [1], "qubits": [1, 0]},
            {"op": "report", "kind": "distance", "measure": "cnll", "args": [1, 3]},
            {"op": "report", "kind": "save", "args": [1]}, {"op": "dist_sub", "args": [1], "qubits": [2]},
            {"op": "meas_representing", "args": [1], "n": 5, "seed": 3}]},
        # the constructor normalises in place: on its own copy, not on the caller's dict
        {"kind": "dist", "calls": [
            {"op": "lit_dict", "d": [[[0, 1], 1], [[1, 1], 1], [[1, 0], 2]]}, {"op": "dist_new", "args": [0], "normalize": True},
            {"op": "dist_new", "args": [0], "normalize": False}, {"op": "dist_sub", "args": [2], "qubits": [0]},
            {"op": "report", "kind": "distance", "measure": "mmd", "args": [1, 1]},
            {"op": "report", "kind": "distance", "measure": "jsd", "args": [1, 2]}]},
        {"kind": "circuit", "calls": [
            {"op": "lit_ops", "ops": [RX, CN, T1]}, {"op": "circ_new", "args": [0]}, {"op": "circ_inverse", "args": [1]},
            {"op": "circ_add", "args": [1, 2]}, {"op": "circ_bind", "args": [3], "map": [["theta", "1/2"]]},
            {"op": "circ_controlled", "args": [1], "k": 1}, {"op": "circ_add_op", "args": [1], "gop": X0},
            {"op": "report", "kind": "to_unitary", "args": [4]}, {"op": "report", "kind": "to_dict", "args": [1]},
            {"op": "report", "kind": "eq", "args": [1, 3]}, {"op": "circ_add", "args": [1, 1]},
            {"op": "circ_add_op", "args": [1], "gop": PW}, {"op": "circ_bind", "args": [11], "map": [["theta", 1]]},
            {"op": "circ_inverse", "args": [11]}, {"op": "report", "kind": "save", "args": [11]},
            {"op": "report", "kind": "gate_ops", "args": [0], "matrix": 3}, {"op": "report", "kind": "gate_ops", "args": [11]}]},
        {"kind": "pauli", "calls": [
            {"op": "term_new", "ops": [[0, "X"], [1, "Y"]], "coef": ["1/2", 0]},
            {"op": "term_new", "ops": [[1, "Z"]], "coef": [0, 1]},
            {"op": "term_mul", "args": [0, 1]}, {"op": "term_add", "args": [0, 1]}, {"op": "lit_terms", "args": [0, 1, 0]},
            {"op": "sum_new", "args": [4]}, {"op": "sum_simplify", "args": [5]}, {"op": "sum_mul", "args": [5, 5]},
            {"op": "op_conj", "args": [5]}, {"op": "sum_pow", "args": [5], "n": 2}, {"op": "term_pow", "args": [1], "n": 3},
            {"op": "sum_add", "args": [5, 0]}, {"op": "sum_rmul", "args": [3], "coef": [2, 0]},
            {"op": "report", "kind": "to_dict", "args": [5]}, {"op": "report", "kind": "pauli_strings", "args": [3]},
            {"op": "report", "kind": "sparse", "args": [5], "n": 3}, {"op": "report", "kind": "save", "args": [3]},
            {"op": "sum_mul", "args": [3, 1]}, {"op": "term_scale", "args": [0], "coef": [0, "1/2"]}]},
        {"kind": "meas", "calls": [
            {"op": "lit_bits", "bits": [[0, 1], [1, 1], [0, 1]]}, {"op": "meas_new", "args": [0]},
            {"op": "meas_counts", "args": [1]}, {"op": "meas_distribution", "args": [1]},
            {"op": "term_new", "ops": [[0, "Z"], [1, "Z"]], "coef": [2, 0]}, {"op": "term_new", "ops": [[1, "Z"]], "coef": ["1/2", 0]},
            {"op": "term_add", "args": [3, 4]}, {"op": "report", "kind": "expectation_values", "args": [1, 5]},
            {"op": "report", "kind": "parities", "args": [1, 5]}, {"op": "report", "kind": "expectation_values", "args": [1, 3]},
            {"op": "meas_from_counts", "counts": [[[1, 0], 2], [[0, 0], 1]]}, {"op": "report", "kind": "save", "args": [1]},
            {"op": "meas_representing", "args": [2], "n": 7, "seed": 11}]},
        {"kind": "wf", "calls": [
            {"op": "lit_arr", "a": [["3/5", 0], [0, "4/5"]]}, {"op": "wf_new", "args": [0]}, {"op": "wf_probs", "args": [1]},
            {"op": "report", "kind": "outcome_probs", "args": [1]}, {"op": "wf_bind", "args": [1]},
            {"op": "term_new", "ops": [[0, "X"]], "coef": [1, 0]}, {"op": "report", "kind": "wf_expectation", "args": [4, 1]},
            {"op": "report", "kind": "gate_apply", "args": [0], "gop": X0}, {"op": "report", "kind": "flip", "args": [1]},
            {"op": "lit_arr", "a": [["1/2", 0], ["1/2", 0]]}, {"op": "wf_new", "args": [5]},
            {"op": "report", "kind": "sample", "args": [1], "n": 5, "seed": 4}]},
        # a conversion (.circuit / .circuits caches on the operator) between two identical products: the products, and
        # what THEY convert to, must not depend on whether the factor was converted before
        {"kind": "pauli", "calls": [
            {"op": "term_new", "ops": [[0, "X"]], "coef": [2, 0], "ctype": "int"},
            {"op": "term_new", "ops": [[1, "Z"]], "coef": [3, 0], "form": "str"},
            {"op": "term_mul", "args": [0, 1]}, {"op": "report", "kind": "op_circuits", "args": [0]},
            {"op": "term_mul", "args": [0, 1]}, {"op": "report", "kind": "op_circuits", "args": [3]},
            {"op": "term_new", "ops": [[0, "Y"]], "coef": [0, 1]}, {"op": "term_mul", "args": [0, 4]},
            {"op": "term_add", "args": [0, 1]}, {"op": "report", "kind": "op_circuits", "args": [6]},
            {"op": "sum_mul", "args": [6, 6]}, {"op": "report", "kind": "op_circuits", "args": [7]},
            {"op": "term_pow", "args": [0], "n": 3}, {"op": "report", "kind": "props", "args": [6]},
            {"op": "sum_mul", "args": [6, 6]}, {"op": "term_copy", "args": [0]}, {"op": "report", "kind": "op_circuits", "args": [10]}]},
        # qubit indices counted from the end (legal tuple indexing), the same index list on two distributions, outcomes
        # written as strings, probabilities that sum to 1 only up to rounding
        {"kind": "dist", "calls": [
            {"op": "lit_dict", "d": [["001", "1/4"], ["0,1,1", "1/4"], [[1, 0, 0], "1/2"]]},
            {"op": "dist_new", "args": [0], "normalize": True}, {"op": "dist_sub", "args": [1], "qubits": [-1, 0]},
            {"op": "dist_sub", "args": [1], "qubits": [0, -2]}, {"op": "dist_sub", "args": [1], "qubits": [-3, -1]},
            {"op": "dist_sub", "args": [1], "qubits": [-1, 2]}, {"op": "dist_sub", "args": [1], "qubits": [-4]},
            {"op": "lit_dict", "d": [[[0, 0], "3602879701896397/36028797018963968"], [[0, 1], "3602879701896397/18014398509481984"],
                                     [[1, 1], "3152519739159347/4503599627370496"]]},   # 0.1, 0.2, 0.7
            {"op": "dist_new", "args": [7], "normalize": True}, {"op": "dist_sub", "args": [8], "qubits": [-1]},
            {"op": "dist_sub", "args": [8], "qubits": [-1, 0]}, {"op": "report", "kind": "distance", "measure": "jsd", "args": [8, 10]},
            {"op": "dist_sub", "args": [1], "qubits": [-1, 0]}, {"op": "meas_representing", "args": [8], "n": 9, "seed": 5}]},
        # amplitudes rounded to six digits (accepted by np.isclose, |sum p - 1| ~ 3e-7), a real-dtype array, probabilities read
        # several ways; the source arrays and the wavefunctions must stay bit-identical
        {"kind": "wf", "calls": [
            {"op": "lit_arr", "a": [["707107/1000000", 0], [0, "707107/1000000"]]}, {"op": "wf_new", "args": [0]},
            {"op": "wf_probs", "args": [1]}, {"op": "report", "kind": "outcome_probs", "args": [1]},
            {"op": "report", "kind": "amplitudes", "args": [1]}, {"op": "report", "kind": "str", "args": [1]},
            {"op": "lit_arr", "a": [["57735/100000", 0], ["57735/100000", 0], ["57735/100000", 0], [0, 0]], "dtype": "float64"},
            {"op": "wf_new", "args": [2]}, {"op": "report", "kind": "sample", "args": [3], "n": 3, "seed": 1},
            {"op": "wf_probs", "args": [3]}, {"op": "report", "kind": "flip", "args": [3]}, {"op": "report", "kind": "eq", "args": [1, 1]},
            {"op": "report", "kind": "save", "args": [1]}, {"op": "wf_probs", "args": [1]}]},
        # every way of writing a composition / product / power: augmented assignment on an alias, reduce, sum(.., start), the
        # dunder by name, pow(); an augmented assignment on the circuit cached inside a term / sum; subtraction, reflected
        # operators, comparisons, hash / len / iteration / indexing, copies that are then edited
        {"kind": "circuit", "calls": [
            {"op": "lit_ops", "ops": [X0, CN]}, {"op": "circ_new", "args": [0]}, {"op": "lit_ops", "ops": [T1]},
            {"op": "circ_new", "args": [2]}, {"op": "circ_add", "args": [1, 3], "form": "aug"},
            {"op": "circ_add", "args": [1, 3]}, {"op": "circ_add", "args": [1, 3], "form": "reduce"},
            {"op": "circ_add", "args": [1, 3], "form": "sum"}, {"op": "circ_add_op", "args": [1], "gop": PW, "form": "aug"},
            {"op": "lit_ops", "ops": []}, {"op": "circ_new", "args": [9]}, {"op": "circ_add", "args": [1, 10]},
            {"op": "circ_add", "args": [1, 10], "form": "aug"}, {"op": "circ_inverse", "args": [1]}, {"op": "circ_inverse", "args": [1]},
            {"op": "report", "kind": "expr", "what": "*=", "args": [1], "c": [2, 0]},
            {"op": "report", "kind": "proto", "what": "eq", "args": [4, 5]}, {"op": "report", "kind": "proto", "what": "hash", "args": [1]},
            {"op": "report", "kind": "copy", "how": "deepcopy", "args": [1]}, {"op": "report", "kind": "copy", "how": "copy", "args": [1]},
            {"op": "report", "kind": "copy", "how": "pickle", "args": [4]}]},
        {"kind": "pauli", "calls": [
            {"op": "term_new", "ops": [[0, "X"], [1, "Z"]], "coef": [2, 0]}, {"op": "term_new", "ops": [[1, "Y"]], "coef": [0, 1]},
            {"op": "report", "kind": "cached_aug", "args": [0], "gop": X0, "operand": "circuit", "form": "aug"},
            {"op": "report", "kind": "cached_aug", "args": [0], "gop": X0, "operand": "gate", "form": "aug"},
            {"op": "term_add", "args": [0, 1], "form": "aug"}, {"op": "term_mul", "args": [0, 1], "form": "aug"},
            {"op": "term_scale", "args": [0], "coef": ["1/2", 0], "form": "aug"}, {"op": "term_scale", "args": [0], "coef": ["1/2", 0], "form": "idiv"},
            {"op": "term_pow", "args": [0], "n": 2, "form": "aug"}, {"op": "sum_add", "args": [2, 1], "form": "aug"},
            {"op": "sum_mul", "args": [2, 2], "form": "aug"}, {"op": "sum_rmul", "args": [2], "coef": [3, 0], "form": "aug"},
            {"op": "sum_rmul", "args": [2], "coef": [2, 0], "form": "idiv"}, {"op": "sum_pow", "args": [2], "n": 2, "form": "builtin"},
            {"op": "report", "kind": "cached_aug", "args": [2], "gop": X0, "i": 1, "operand": "circuit", "form": "aug"},
            {"op": "report", "kind": "expr", "what": "-=", "args": [2, 0]}, {"op": "report", "kind": "expr", "what": "r-", "args": [2], "c": [1, 0], "ctype": "int"},
            {"op": "report", "kind": "expr", "what": "sum", "args": [0, 1]}, {"op": "report", "kind": "expr", "what": "-", "args": [0, 1]},
            {"op": "report", "kind": "proto", "what": "hash", "args": [2]}, {"op": "report", "kind": "proto", "what": "iter2", "args": [2]},
            {"op": "report", "kind": "proto", "what": "getitem", "args": [2], "i": [None, None, -1]},
            {"op": "report", "kind": "proto", "what": "contains", "args": [2, 0]}, {"op": "report", "kind": "proto", "what": "eq_num", "args": [0], "c": [2, 0]},
            {"op": "report", "kind": "copy", "how": "deepcopy", "args": [2]}, {"op": "report", "kind": "copy", "how": "pickle", "args": [2]},
            {"op": "report", "kind": "copy", "how": "copy", "args": [2]}, {"op": "report", "kind": "op_circuits", "args": [0]}]},
        {"kind": "dist", "calls": [
            {"op": "lit_dict", "d": [[[0, 1], 1], [[1, 1], 3]]}, {"op": "dist_new", "args": [0], "normalize": False},
            {"op": "lit_dict", "d": [[[0, 0], 2], [[1, 1], 2]]}, {"op": "dist_new", "args": [2], "normalize": False},
            {"op": "report", "kind": "proto", "what": "eq", "args": [1, 3]}, {"op": "report", "kind": "proto", "what": "ne", "args": [1, 1]},
            {"op": "report", "kind": "distance", "measure": "cnll", "args": [1, 3]}, {"op": "report", "kind": "distance", "measure": "jsd", "args": [3, 1]},
            {"op": "report", "kind": "expr", "what": "+=", "args": [1, 3]}, {"op": "meas_representing", "args": [1], "n": 4, "seed": 2},
            {"op": "lit_bits", "bits": [[0, 1], [1, 1]]}, {"op": "meas_new", "args": [5]},
            {"op": "report", "kind": "expr", "what": "+=", "args": [6, 6]}, {"op": "report", "kind": "proto", "what": "eq", "args": [6, 4]},
            {"op": "report", "kind": "copy", "how": "deepcopy", "args": [6]}, {"op": "report", "kind": "copy", "how": "deepcopy", "args": [1]}]},
        # a symbolic wavefunction (sympy Matrix inside): probabilities, partial and full binding (oracle only)
        {"kind": "wfsym", "calls": [
            {"op": "lit_symvec", "exprs": ["1/2", "1/2", "sqrt(2)*cos(phi)/2", "sqrt(2)*sin(phi)/2"]}, {"op": "wf_new", "args": [0]},
            {"op": "wf_probs", "args": [1]}, {"op": "wf_bind", "args": [1], "map": [["theta", "1/2"]]},
            {"op": "wf_bind", "args": [1], "map": [["phi", "1/4"]]}, {"op": "wf_probs", "args": [3]},
            {"op": "report", "kind": "outcome_probs", "args": [1]}, {"op": "wf_bind", "args": [1], "map": []},
            {"op": "report", "kind": "eq", "args": [1, 4]}, {"op": "wf_probs", "args": [1]}]},
        # inline arguments in the container types that ALIAS under np.asarray / dict() / list() shortcuts: the bandwidths of the
        # multi-kernel MMD as a float64 array inside the parameter dictionary (asked twice, directly and through
        # evaluate_distribution_distance, then the other measures with the same widths), qubit indices as an int64 array / range,
        # a MappingProxyType as parameter dictionary
        {"kind": "dist", "calls": [
            {"op": "lit_dict", "d": [[[0, 0, 0], "1/2"], [[1, 1, 1], "1/4"], [[0, 1, 0], "1/4"]]}, {"op": "dist_new", "args": [0], "normalize": True},
            {"op": "lit_dict", "d": [[[0, 0, 0], "1/8"], [[1, 1, 1], "1/2"], [[0, 0, 1], "3/8"]]}, {"op": "dist_new", "args": [2], "normalize": True},
            {"op": "report", "kind": "distance", "measure": "mmd", "args": [1, 3], "sigma": ["1/4", 1, 4], "st": "f64", "via": "direct"},
            {"op": "report", "kind": "distance", "measure": "mmd", "args": [1, 3], "sigma": ["1/4", 1, 4], "st": "f64"},
            {"op": "report", "kind": "distance", "measure": "mmd", "args": [3, 1], "sigma": ["1/4", 1, 4], "st": "ro:f64", "mt": "proxy"},
            {"op": "report", "kind": "distance", "measure": "jsd", "args": [1, 3], "sigma": [2, 3], "st": "i64", "mt": "odict"},
            {"op": "dist_sub", "args": [1], "qubits": [2, 0], "qt": "i64"}, {"op": "dist_sub", "args": [1], "qubits": [0, 1], "qt": "range"},
            {"op": "dist_sub", "args": [3], "qubits": [2, 0], "qt": "ro:i64"},
            {"op": "report", "kind": "distance", "measure": "mmd", "args": [1, 3], "sigma": ["1/4", 1, 4], "st": "f64", "via": "direct"}]},
    ] + c20_containers.corpus() + c20_symbolic.corpus()


def _dy(rng, den=4, lo=-8, hi=8, nonzero=True):
    while True:
        v = Fraction(rng.randrange(lo, hi + 1), den)
        if v != 0 or not nonzero:
            return v


class _TooBig(Exception):
    pass


def _lg(n):
    return max(int(n), 1).bit_length()


class _Gen:
    """builds a history together with conservative metadata about every pool object"""

    def __init__(self, rng, big):
        self.rng, self.big = rng, big
        self.calls, self.meta, self.log = [], [], []

    # -- bookkeeping
    LIM = 24  # coefficients stay exact in floats and never come near the 1e-8 of np.isclose

    def emit(self, call, meta):
        if meta and ("ib" in meta) and (meta["ib"] > self.LIM or meta["fb"] > self.LIM):
            raise _TooBig()
        self.calls.append(call)
        if call["op"] not in LITERALS:
            self.log.append((call, meta))
        if call["op"] in OBJECT_OPS:
            self.meta.append(meta)
            return len(self.meta) - 1
        return None

    # -- syntactic forms
    FORM_CHOICES = {"circ_add": ["aug", "aug", "aug", "reduce", "sum", "dunder"], "circ_add_op": ["aug", "aug", "dunder"],
                    "term_mul": ["aug", "aug", "reduce", "dunder"], "term_add": ["aug", "aug", "reduce", "sum", "dunder"],
                    "sum_add": ["aug", "aug", "reduce", "sum", "dunder"], "sum_mul": ["aug", "aug", "reduce", "dunder"],
                    "term_pow": ["aug", "aug", "builtin", "dunder"], "sum_pow": ["aug", "aug", "builtin", "dunder"],
                    "term_scale": ["aug", "aug", "dunder", "rdunder", "div", "idiv", "left", "right"],
                    "sum_rmul": ["aug", "aug", "dunder", "rdunder", "div", "idiv", "right", "left"]}

    def form(self, op, p=0.6):
        """the way the user writes the operation: `a + b`, `a += b` on an alias, reduce, sum(.., start), the dunder by name ..."""
        if self.rng.random() >= p:
            return {}
        return {"form": self.rng.choice(self.FORM_CHOICES[op])}

    def pow2(self):
        return [rat(self.rng.choice([-1, 1]) * Fraction(2) ** self.rng.randrange(-2, 3)), 0]

    # -- the container type the caller uses for an inline argument (default: list / dict / python float)
    def mt(self, extra=(), p=0.45):
        if self.rng.random() >= p:
            return {}
        return {"mt": self.rng.choice(["odict", "proxy", "proxy"] + list(extra))}

    def ct(self, kinds, ok=True, p=0.35):
        """the container type of a literal the caller builds (default: list / dict / writable contiguous array)"""
        if not ok or self.rng.random() >= p:
            return {}
        return {"ct": self.rng.choice(kinds)}

    def qt(self, qs, p=0.5):
        if self.rng.random() >= p:
            return {}
        kinds = ["tuple", "npints", "i64", "i64", "ro:i64", "st:i64", "nptuple"]
        if qs and qs == list(range(qs[0], qs[-1] + 1)):
            kinds.append("range")
        return {"qt": self.rng.choice(kinds)}

    def bandwidths(self, p=0.6):
        """the kernel widths of a distance call: a scalar (python / numpy) or 1-3 widths as list / tuple / float64 array (the type
        np.asarray(.., dtype=float) hands back unchanged; plain, read-only, strided) / int64 / float32 array / numpy scalars"""
        rng = self.rng
        if rng.random() >= p:
            return {}
        out = {}
        r = rng.random()
        if r < 0.2:
            out["sigma"] = rat(Fraction(rng.randrange(1, 40), rng.choice([1, 2, 4])))
            out["st"] = rng.choice(["float", "npfloat"])
        else:
            st = rng.choice(["list", "tuple", "f64", "f64", "f64", "ro:f64", "st:f64", "i64", "f32", "npfloats"])
            out["sigma"] = [rat(Fraction(rng.randrange(1, 40), 1 if st == "i64" else rng.choice([1, 2, 4]))) for _ in range(rng.randrange(1, 4))]
            out["st"] = st
        out.update(self.mt(extra=["ddict"]))
        if rng.random() < 0.5:
            out["via"] = "direct"
        return out

    AUGS = ["+=", "-=", "*=", "/=", "**=", "@="]
    LIBKINDS = ("circuit", "term", "sum", "meas", "dist", "wf")

    def forms_call(self):
        """operator / protocol forms outside the model, on ANY live library object (the object stays in the pool as the alias
        taken before): augmented assignments, subtraction, reflected operators, builtin sum, comparisons, hash, len, iteration,
        membership, indexing, truth value, copy / deepcopy / pickle followed by edits of the copy, and an augmented assignment
        on the circuit cached inside an operator"""
        rng, E = self.rng, self.emit
        cand = [i for i, m in enumerate(self.meta) if m and m["k"] in self.LIBKINDS]
        if not cand:
            return False
        k = rng.choice(sorted({self.meta[i]["k"] for i in cand}))   # the kind first: every kind present gets its share
        same = [i for i in cand if self.meta[i]["k"] == k]
        x = rng.choice(same)
        mx = self.meta[x]
        y = rng.choice(same) if rng.random() < 0.7 else rng.choice(cand)
        my = self.meta[y]
        small = lambda m: m.get("nt", 1) <= 4
        choice = rng.choice(["aug_obj", "aug_obj", "aug_num", "binary", "reflected", "sum", "unary", "proto", "proto", "cmp",
                             "copy", "copy", "cached_aug", "cached_aug"])
        if choice == "aug_obj":
            what = rng.choice(self.AUGS[:3] + self.AUGS[:1] + ["@="])
            if what == "*=" and not (small(mx) and small(my)):
                return False
            E({"op": "report", "kind": "expr", "what": what, "args": [x, y]}, None)
        elif choice == "aug_num":
            what = rng.choice(self.AUGS[:5])
            if what == "**=":
                if not small(mx) or mx.get("nt", 1) ** 3 > 30:
                    return False
                E({"op": "report", "kind": "expr", "what": what, "args": [x], "n": rng.randrange(0, 4)}, None)
            else:
                c = [rat(_dy(rng)), rat(_dy(rng, nonzero=False)) if rng.random() < 0.3 else 0]
                E({"op": "report", "kind": "expr", "what": what, "args": [x], "c": c,
                   **({"ctype": "int"} if c[1] == 0 and Fraction(c[0]).denominator == 1 and rng.random() < 0.5 else {})}, None)
        elif choice == "binary":
            what = rng.choice(["-", "-", "@", "/"])
            if what == "/":
                E({"op": "report", "kind": "expr", "what": "/", "args": [x], "c": [rat(_dy(rng)), 0]}, None)
            else:
                E({"op": "report", "kind": "expr", "what": what, "args": [x, y]}, None)
        elif choice == "reflected":
            c = [rat(_dy(rng, nonzero=False)), rat(_dy(rng, nonzero=False)) if rng.random() < 0.3 else 0]
            E({"op": "report", "kind": "expr", "what": rng.choice(["r+", "r-", "r*", "r-", "r/"]), "args": [x], "c": c,
               **({"ctype": "int"} if c[1] == 0 and Fraction(c[0]).denominator == 1 and rng.random() < 0.5 else {})}, None)
        elif choice == "sum":
            E({"op": "report", "kind": "expr", "what": "sum", "args": [x, y]}, None)
        elif choice == "unary":
            E({"op": "report", "kind": "expr", "what": rng.choice(["neg", "pos", "abs"]), "args": [x]}, None)
        elif choice == "proto":
            what = rng.choice(["hash", "len", "iter", "iter2", "bool", "contains", "getitem", "getitem"])
            call = {"op": "report", "kind": "proto", "what": what, "args": [x]}
            if what == "contains":
                call["args"] = [x, rng.choice(cand)]
            if what == "getitem":
                call["i"] = rng.choice([0, -1, 1, 7, -9, [0, 1], [None, None, -1], [1, None]])
            E(call, None)
        elif choice == "cmp":
            what = rng.choice(["ne", "eq", "eq_num", "lt", "ge"])
            call = {"op": "report", "kind": "proto", "what": what, "args": [x, y]}
            if what == "eq_num":
                call = {"op": "report", "kind": "proto", "what": what, "args": [x], "c": [rat(_dy(rng, nonzero=False)), 0]}
            E(call, None)
        elif choice == "copy":
            E({"op": "report", "kind": "copy", "how": rng.choice(["copy", "deepcopy", "deepcopy", "pickle"]), "args": [x]}, None)
        else:
            ops = [i for i in cand if self.meta[i]["k"] in ("term", "sum") and self.meta[i].get("nt", 1) > 0]
            if not ops:
                return False
            x = rng.choice(ops)
            o, _, _ = self.gop(maxq=3, allow_sym=False)
            E({"op": "report", "kind": "cached_aug", "args": [x], "gop": o, "i": 0 if rng.random() < 0.8 else 1,
               "operand": rng.choice(["circuit", "circuit", "gate"]), "form": rng.choice(["aug", "aug", "aug", "plain", "sum"])}, None)
        return True

    # -- the same call again later in the history / a sibling that differs in exactly one component
    def again(self):
        if not self.log:
            return False
        call, meta = self.rng.choice(self.log[-8:])
        self.emit(json.loads(json.dumps(call)), dict(meta) if meta else None)
        return True

    def sibling(self):
        rng = self.rng
        if not self.log:
            return False
        call, meta = rng.choice(self.log[-6:])
        c = json.loads(json.dumps(call))
        op, args = c["op"], c.get("args", [])
        cf = [rat(_dy(rng)), rat(_dy(rng, nonzero=False)) if rng.random() < 0.3 else 0]
        if op in self.FORM_CHOICES and rng.random() < 0.6:
            f = rng.choice(self.FORM_CHOICES[op])
            if f in ("div", "idiv"):
                c["coef"] = self.pow2()
            if op == "term_scale":
                c.pop("left", None)
            c["form"] = f   # the same operation on the same arguments, written differently
        elif op == "dist_sub" and meta is not None:
            w = self.meta[args[0]]["w"]
            qs = list(c["qubits"])
            if rng.random() < 0.5:
                i = rng.randrange(len(qs))
                qs[i] = qs[i] - w if qs[i] >= 0 else qs[i] + w   # the same qubit, counted from the other end
            else:
                rng.shuffle(qs)
            c["qubits"] = qs
        elif op in ("term_scale", "sum_rmul") or (op == "term_copy" and "coef" in c):
            c["coef"] = cf
            if meta is not None and meta.get("ib", 0) > self.LIM:
                return False
        elif op == "circ_bind" and c["map"]:
            c["map"] = [[k, rat(_dy(rng, 4, -6, 6, False))] for k, _ in c["map"]]
        elif op == "meas_representing":
            c["seed"] = rng.randrange(2 ** 31)
        elif op == "report" and c["kind"] == "sample":
            c["seed"] = rng.randrange(2 ** 31)
        elif op == "report" and c["kind"] == "distance":
            c["measure"] = rng.choice([m for m in ("cnll", "mmd", "jsd") if m != c["measure"]])
        elif op == "report" and c["kind"] in ("expectation_values", "parities", "wf_expectation") and len(args) == 2:
            # the same long-lived receiver, ANOTHER operator of the same shape class
            oi, ri = (0, 1) if c["kind"] == "wf_expectation" else (1, 0)
            mr, mo = self.meta[args[ri]], self.meta[args[oi]]
            lim = mr["nq"] if c["kind"] == "wf_expectation" else mr["w"]
            cand = [i for i, m in enumerate(self.meta) if m and m["k"] == mo["k"] and i != args[oi] and m["nq"] <= lim
                    and m.get("nt", 1) > 0 and (c["kind"] != "wf_expectation" or m["nq"] > 0)]
            if not cand:
                return False
            prefer = [i for i in cand if self.meta[i].get("nt") == mo.get("nt")]   # same number of terms first
            c["args"][oi] = rng.choice(prefer or cand)
        elif op in ("term_mul", "term_add", "sum_add", "sum_mul", "circ_add") or (op == "report" and c["kind"] == "eq"):
            if len(args) != 2 or args[0] == args[1] or self.meta[args[0]] is None or self.meta[args[1]] is None \
                    or self.meta[args[0]]["k"] != self.meta[args[1]]["k"]:
                return False
            c["args"] = [args[1], args[0]]
        else:
            return False
        self.emit(c, dict(meta) if meta else None)
        return True

    def pick(self, kind, pred=lambda m: True):
        c = [i for i, m in enumerate(self.meta) if m and m["k"] == kind and pred(m)]
        if not c:
            return None
        # bias towards few, shared objects
        return c[0] if self.rng.random() < 0.35 else self.rng.choice(c)

    # -- gates
    def gate(self, allow_sym=True, depth=0):
        rng = self.rng
        name = rng.choice(list(GATES))
        ar, npar, herm = GATES[name]
        params, sym = [], False
        for _ in range(npar):
            if allow_sym and rng.random() < 0.4:
                params.append({"sym": rng.choice(SYMS)})
                sym = True
            else:
                params.append(rat(_dy(rng, 4, -6, 6, False)))
        g, heavy = ["base", name, params, herm], False
        while depth < 3 and rng.random() < 0.3:
            depth += 1
            w = rng.choice(["ctrl", "dag", "pow", "exp"] if not sym else ["ctrl", "dag"])
            if w == "ctrl":
                n = rng.choice([1, 1, 2])
                g, ar = ["ctrl", g, n], ar + n
            elif w == "dag":
                g = ["dag", g]
            elif w == "pow":
                g, heavy = ["pow", g, rat(rng.choice([Fraction(1, 2), Fraction(2), Fraction(3)]))], True
            else:
                g, heavy = ["exp", g], True
        return g, ar, sym, heavy

    def gop(self, maxq=4, allow_sym=True):
        g, ar, sym, heavy = self.gate(allow_sym)
        if ar > 5:
            return self.gop(maxq, allow_sym)
        assert ar == self._arity(g)
        qs = self.rng.sample(range(max(maxq, ar)), ar)
        return {"g": g, "q": qs}, sym, heavy

    def _arity(self, g):
        if g[0] == "base":
            return GATES[g[1]][0]
        if g[0] == "ctrl":
            return self._arity(g[1]) + g[2]
        return self._arity(g[1])

    # -- literals
    def lit_ops(self):
        n = self.rng.choice([0, 1, 2, 3, 4, 5])
        ops, sym, heavy, mq = [], False, False, -1
        wide = self.rng.random() < 0.2   # a register of 9-12 qubits (structure only: never turned into a matrix)
        for _ in range(n):
            o, s, hv = self.gop(maxq=12 if wide else 4)
            ops.append(o)
            sym, heavy, mq = sym or s, heavy or hv, max(mq, max(o["q"]))
        return self.emit({"op": "lit_ops", "ops": ops, **self.ct(["tuple", "objarr"], n > 0)},
                         {"k": "oplist", "n": n, "sym": sym, "heavy": heavy, "nq": mq + 1})

    def term_new(self, ising=False, maxq=4):
        rng = self.rng
        qs = rng.sample(range(maxq), rng.randrange(0, min(maxq, 3) + 1))
        ops = [[q, "Z" if ising else rng.choice("XYZ")] for q in qs]
        extra = {}
        if rng.random() < 0.4:
            coef = [rat(_dy(rng)), rat(_dy(rng))]
        else:
            coef = [rat(_dy(rng, nonzero=rng.random() < 0.9)), 0]
            r = rng.random()
            if r < 0.15:
                coef = [rat(_dy(rng, den=1)), 0]
                extra["ctype"] = "int"        # a Python int as coefficient
            elif r < 0.3:
                extra["ctype"] = "complex"    # complex with a zero imaginary part
        r = rng.random()
        if r < 0.12:
            extra["form"] = "str"             # PauliTerm("<coefficient>*X0*Y1")
        elif r < 0.2 and len({q for q, _ in ops}) == len(ops):
            extra["form"] = "iter"            # PauliTerm.from_iterable
        return self.emit({"op": "term_new", "ops": ops, "coef": coef, **extra},
                         {"k": "term", "nq": max(qs) + 1 if qs else 0, "ising": all(o[1] == "Z" for o in ops), "nt": 1,
                          "ib": 2, "fb": 2})

    def lit_bits(self, w=None):
        rng = self.rng
        w = w or rng.choice([1, 2, 3])
        n = rng.choice([0, 1, 2, 4, 8, 5])
        bits = [[rng.randrange(2) for _ in range(w)] for _ in range(n)]
        return self.emit({"op": "lit_bits", "bits": bits, **self.ct(["tuple"], n > 0)}, {"k": "bitlist", "w": w, "n": n})

    def lit_dict(self, malformed=False):
        rng = self.rng
        w = rng.choice([1, 2, 3])
        have = [m["w"] for m in self.meta if m and m["k"] == "dist"]
        if have and rng.random() < 0.6:
            w = rng.choice(have)   # another distribution on a register that is already there (to be compared with it)
        nb = rng.random() < 0.12   # outcomes that are not bits (multi-digit entries)
        if nb:
            keys = []
            while len(keys) < rng.randrange(1, 5):
                k = [rng.choice([0, 1, 2, 3, 10, 11]) for _ in range(w)]
                if k not in keys:
                    keys.append(k)
        else:
            keys = rng.sample([[(i >> b) & 1 for b in range(w)] for i in range(2 ** w)], rng.randrange(1, min(2 ** w, 5) + 1))
        style = rng.choice(["norm", "norm", "unnorm", "zero" if malformed else "unnorm", "neg" if malformed else "norm",
                            "approx", "approx"])
        if style == "norm":
            den = rng.choice([4, 8, 16])
            cuts = sorted(rng.randrange(0, den + 1) for _ in range(len(keys) - 1))
            vals = [Fraction(b - a, den) for a, b in zip([0] + cuts, cuts + [den])]
        elif style == "unnorm":
            vals = [Fraction(rng.randrange(0, 9), rng.choice([1, 2, 4])) for _ in keys]
            if sum(vals) == 0:
                vals[0] = Fraction(3)
        elif style == "zero":
            vals = [Fraction(0) for _ in keys]
        elif style == "approx":
            # decimal probabilities: the floats sum to 1 only up to rounding (math.isclose), or visibly not at all
            for _ in range(6):
                wts = [rng.randrange(1, 10) for _ in keys]
                tot = sum(wts) if rng.random() < 0.7 else sum(wts) + rng.choice([-0.5, 1, 3])
                vals = [Fraction(x / tot) for x in wts]
                if sum(vals) != 1:   # (prefer float probabilities whose sum is NOT exactly 1.0)
                    break
        else:
            vals = [Fraction(rng.randrange(-3, 4), 2) for _ in keys]
        if malformed and rng.random() < 0.3:
            keys[0] = keys[0] + [1]
        ok = all(v >= 0 for v in vals) and len({len(k) for k in keys}) == 1
        # how the caller writes the outcomes: tuples, digit strings, comma-separated strings, or a mixture
        form = rng.choice(["tuple", "tuple", "str", "comma", "mixed"])
        jkeys = []
        for k in keys:
            f = form if form != "mixed" else rng.choice(["tuple", "str", "comma"])
            if f == "str" and (max(k) > 9 or not k):
                f = "comma"
            if f == "comma" and len(k) < 2:
                f = "tuple"      # "3" without a comma is read digit by digit anyway
            jkeys.append(k if f == "tuple" else ("".join(map(str, k)) if f == "str" else ",".join(map(str, k))))
        d = [[k, rat(v)] for k, v in zip(jkeys, vals)]
        return self.emit({"op": "lit_dict", "d": d, **self.ct(["odict", "proxy", "proxy"])},
                         {"k": "ddict", "w": w, "ok": ok, "sum": sum(vals), "nb": nb})

    def lit_arr(self, malformed=False):
        rng = self.rng
        good = [[(1, 0), (0, 0)], [(0, 0), (0, 1)], [(Fraction(3, 5), 0), (0, Fraction(4, 5))],
                [(Fraction(1, 2), 0), (Fraction(1, 2), 0), (Fraction(-1, 2), 0), (0, Fraction(1, 2))],
                [(0, 0), (1, 0), (0, 0), (0, 0)], [(Fraction(4, 5), 0), (0, 0), (0, 0), (Fraction(-3, 5), 0)],
                [(Fraction(1, 2), 0)] * 4 + [(0, 0)] * 4,
                [(0, 0)] * 7 + [(0, -1)],
                # components far below every tolerance but NOT zero (a reader that "cleans up" tiny amplitudes in place changes them)
                [(1, 0), (Fraction(3, 10 ** 13), 0)], [(0, 0), (0, 1), (Fraction(1, 10 ** 17), 0), (0, Fraction(-1, 10 ** 20))],
                [(Fraction(4, 5), 0), (Fraction(5, 10 ** 301), 0), (0, 0), (Fraction(-3, 5), 0)],
                [(Fraction(1, 10 ** 9), 0), (Fraction(3, 5), 0), (0, Fraction(4, 5)), (0, Fraction(1, 10 ** 12))]]
        bad = [[(Fraction(1, 2), 0), (Fraction(1, 2), 0)], [(1, 0), (0, 0), (0, 0)], [(1, 0), (1, 0)]]
        extra = {}
        if rng.random() < 0.4:
            # amplitudes as they come out of text / single precision: normalised only up to np.isclose
            # (|sum p - 1| < 5e-6; malformed: > 1e-4, rejected by the constructor)
            while True:
                n = rng.choice([2, 4, 8])
                cplx = rng.random() < 0.6
                raw = [complex(rng.randrange(-4, 5), rng.randrange(-4, 5) if cplx else 0) for _ in range(n)]
                nrm = sum(abs(z) ** 2 for z in raw) ** 0.5
                if nrm == 0:
                    continue
                digits = rng.choice([5, 6, 7])
                scale = (1 + 2e-4) if malformed else 1.0
                a = [(Fraction(round(z.real / nrm * scale, digits)), Fraction(round(z.imag / nrm * scale, digits))) for z in raw]
                p = sum(x * x + y * y for x, y in a)
                if (abs(p - 1) > Fraction(1, 10 ** 4)) if malformed else (0 < abs(p - 1) < Fraction(5, 10 ** 6)):
                    break
        else:
            a = rng.choice(bad) if malformed else rng.choice(good)
        if all(y == 0 for _, y in a) and rng.random() < 0.3:
            extra["dtype"] = "float64"      # a real array: np.asarray(..., dtype=complex) has to convert it
        elif rng.random() < 0.1 and all(Fraction(v).denominator in (1, 2, 4, 8, 16) for xy in a for v in xy):
            extra["dtype"] = "complex64"
        n = len(a)
        return self.emit({"op": "lit_arr", "a": [[rat(x), rat(y)] for x, y in a], **extra,
                          **self.ct(["ro", "ro", "st", "ro:st", "list", "tuple"], extra.get("dtype") != "complex64", 0.4)},
                         {"k": "arr", "n": n, "ok": not malformed, "nq": n.bit_length() - 1})

    # -- one random listed call of a family; returns False if nothing applicable
    def circuit_call(self):
        rng, E = self.rng, self.emit
        c = self.pick("circuit")
        choice = rng.choice(["new", "new_nq", "add", "add_op", "bind", "inverse", "controlled", "to_unitary", "to_dict",
                             "str", "eq", "save", "roundtrip", "free_symbols", "add", "inverse", "bind", "gate_ops"])
        if c is None or choice in ("new", "new_nq"):
            l = self.pick("oplist")
            if l is None:
                l = self.lit_ops()
            m = self.meta[l]
            nq = None
            if choice == "new_nq":
                nq = rng.choice([0, m["nq"], m["nq"] + 2, max(1, m["nq"] - 1)])
            E({"op": "circ_new", "args": [l], **({"nq": nq} if nq is not None else {})},
              {"k": "circuit", "n": m["n"], "sym": m["sym"], "heavy": m["heavy"], "nq": max(nq or 0, m["nq"]),
               "noeval": bool(nq) and nq < m["nq"]})
            return True
        m = self.meta[c]
        if choice == "add":
            d = self.pick("circuit")
            md = self.meta[d]
            E({"op": "circ_add", "args": [c, d], **self.form("circ_add")}, {"k": "circuit", "n": m["n"] + md["n"], "sym": m["sym"] or md["sym"],
                                                    "heavy": m["heavy"] or md["heavy"], "nq": max(m["nq"], md["nq"]),
                                                    "noeval": m.get("noeval") or md.get("noeval")})
        elif choice == "add_op":
            o, s, hv = self.gop()
            E({"op": "circ_add_op", "args": [c], "gop": o, **self.form("circ_add_op")}, {"k": "circuit", "n": m["n"] + 1, "sym": m["sym"] or s,
                                                             "heavy": m["heavy"] or hv, "nq": max(m["nq"], max(o["q"]) + 1),
                                                             "noeval": m.get("noeval")})
        elif choice == "bind":
            which = rng.choice([SYMS, SYMS[:1], SYMS[1:], []])
            mp = [[s, rat(_dy(rng, 4, -6, 6, False))] for s in which]
            E({"op": "circ_bind", "args": [c], "map": mp, **self.mt(extra=["ddict"])},
              {**m, "sym": m["sym"] and len(which) < 2} if not m["heavy"] else None)
        elif choice == "inverse":
            E({"op": "circ_inverse", "args": [c]}, dict(m))
        elif choice == "controlled":
            if m["n"] > 6 or m["nq"] > 6:
                return False
            k = rng.randrange(0, m["nq"] + 2)
            E({"op": "circ_controlled", "args": [c], "k": k}, {**m, "nq": m["nq"] + 1})
        elif choice == "to_unitary":
            if m["heavy"] or m["sym"] or m.get("noeval") or m["n"] == 0 or m["nq"] > 4 or m["n"] > 8:
                return False
            E({"op": "report", "kind": "to_unitary", "args": [c]}, None)
        elif choice == "eq":
            E({"op": "report", "kind": "eq", "args": [c, self.pick("circuit")]}, None)
        elif choice == "gate_ops":
            x = c if rng.random() < 0.5 else self.pick("oplist")
            mx = self.meta[x]
            light = not (mx["heavy"] or mx.get("noeval") or mx["nq"] > 3 or mx["n"] > 6 or mx["n"] == 0)
            E({"op": "report", "kind": "gate_ops", "args": [x], **({"matrix": max(mx["nq"], 1)} if light else {})}, None)
        else:
            E({"op": "report", "kind": choice, "args": [c]}, None)
        return True

    def pauli_call(self):
        rng, E = self.rng, self.emit
        t, s = self.pick("term"), self.pick("sum")
        choice = rng.choice(["term_new", "copy", "tmul", "scale", "tadd", "tpow", "lit_terms", "sadd", "smul", "rmul", "spow",
                             "simplify", "conj", "to_dict", "pauli_strings", "sparse", "save", "str", "eq", "props",
                             "reverse", "roundtrip", "op_circuits", "sadd", "smul", "tadd", "simplify", "conj", "tconj"])
        if t is None or choice == "term_new":
            self.term_new(ising=rng.random() < 0.3)
            return True
        mt = self.meta[t]
        cf = [rat(_dy(rng)), rat(_dy(rng, nonzero=False)) if rng.random() < 0.3 else 0]
        if choice == "copy":
            newc = rng.random() < 0.5
            E({"op": "term_copy", "args": [t], **({"coef": cf} if newc else {})}, {**mt, **({"ib": 2, "fb": 2} if newc else {})})
        elif choice == "tmul":
            u = self.pick("term")
            E({"op": "term_mul", "args": [t, u], **self.form("term_mul")}, {"k": "term", "nq": max(mt["nq"], self.meta[u]["nq"]), "nt": 1,
                                                   "ising": mt["ising"] and self.meta[u]["ising"],
                                                   "ib": mt["ib"] + self.meta[u]["ib"] + 1, "fb": mt["fb"] + self.meta[u]["fb"]})
        elif choice == "scale":
            fm = self.form("term_scale", 0.45)
            if fm.get("form") in ("div", "idiv"):
                cf = self.pow2()
            E({"op": "term_scale", "args": [t], "coef": cf, **(fm or ({"left": 1} if rng.random() < 0.5 else {}))},
              {**mt, "ib": mt["ib"] + 3, "fb": mt["fb"] + 2})
        elif choice == "tadd":
            u = self.pick("term")
            E({"op": "term_add", "args": [t, u], **self.form("term_add")}, {"k": "sum", "nq": max(mt["nq"], self.meta[u]["nq"]), "nt": 2,
                                                   "ising": mt["ising"] and self.meta[u]["ising"],
                                                   "ib": max(mt["ib"], self.meta[u]["ib"]) + 1, "fb": max(mt["fb"], self.meta[u]["fb"])})
        elif choice == "tpow":
            n = rng.randrange(0, 5)
            E({"op": "term_pow", "args": [t], "n": n, **self.form("term_pow")}, {**mt, "ib": max(1, n * (mt["ib"] + 1)), "fb": n * mt["fb"]})
        elif choice == "tconj":
            E({"op": "op_conj", "args": [t]}, dict(mt))
        elif choice == "lit_terms":
            ts = [self.pick("term") for _ in range(rng.randrange(1, 5))]
            l = E({"op": "lit_terms", "args": ts, **self.ct(["tuple"])}, {"k": "termlist", "nq": max(self.meta[i]["nq"] for i in ts), "nt": len(ts),
                                                    "ising": all(self.meta[i]["ising"] for i in ts),
                                                    "ib": max(self.meta[i]["ib"] for i in ts), "fb": max(self.meta[i]["fb"] for i in ts)})
            E({"op": "sum_new", "args": [l]}, {**self.meta[l], "k": "sum"})
        elif s is None:
            return False
        else:
            ms = self.meta[s]
            o = self.pick("sum") if rng.random() < 0.6 else t
            mo = self.meta[o]
            if choice == "sadd":
                E({"op": "sum_add", "args": [s, o], **self.form("sum_add")}, {"k": "sum", "nq": max(ms["nq"], mo["nq"]), "nt": ms["nt"] + mo["nt"],
                                                      "ising": ms["ising"] and mo["ising"],
                                                      "ib": max(ms["ib"], mo["ib"]) + _lg(ms["nt"] + mo["nt"]),
                                                      "fb": max(ms["fb"], mo["fb"])})
            elif choice == "smul":
                if ms["nt"] * mo["nt"] > 20:
                    return False
                E({"op": "sum_mul", "args": [s, o], **self.form("sum_mul")}, {"k": "sum", "nq": max(ms["nq"], mo["nq"]), "nt": ms["nt"] * mo["nt"],
                                                      "ising": ms["ising"] and mo["ising"],
                                                      "ib": ms["ib"] + mo["ib"] + 1 + _lg(ms["nt"] * mo["nt"]),
                                                      "fb": ms["fb"] + mo["fb"]})
            elif choice == "rmul":
                fm = self.form("sum_rmul")
                if fm.get("form") in ("div", "idiv"):
                    cf = self.pow2()
                E({"op": "sum_rmul", "args": [s], "coef": cf, **fm}, {**ms, "ib": ms["ib"] + 3 + _lg(ms["nt"]), "fb": ms["fb"] + 2})
            elif choice == "spow":
                n = rng.randrange(0, 4)
                if max(ms["nt"], 1) ** n > 20:
                    return False
                nt = max(ms["nt"], 1)
                E({"op": "sum_pow", "args": [s], "n": n, **self.form("sum_pow")}, {**ms, "nt": nt ** n, "fb": n * ms["fb"],
                                                          "ib": max(1, n * (ms["ib"] + 1 + _lg(nt ** n)))})
            elif choice == "simplify":
                E({"op": "sum_simplify", "args": [s]}, {**ms, "ib": ms["ib"] + _lg(ms["nt"])})
            elif choice == "conj":
                x = s if rng.random() < 0.7 else t
                E({"op": "op_conj", "args": [x]}, {**self.meta[x], "ib": self.meta[x]["ib"] + _lg(self.meta[x]["nt"])})
            else:
                x = s if rng.random() < 0.7 else t
                mx = self.meta[x]
                call = {"op": "report", "kind": choice, "args": [x]}
                if choice == "eq":
                    call["args"] = [x, self.pick("sum")]
                if choice in ("sparse", "reverse"):
                    if mx["nq"] > 5:
                        return False
                    call["n"] = rng.choice([None, mx["nq"], mx["nq"] + 1])
                    if call["n"] is None:
                        del call["n"]
                if choice == "op_circuits" and mx["nq"] > 8:
                    return False
                E(call, None)
        return True

    def meas_call(self):
        rng, E = self.rng, self.emit
        m = self.pick("meas")
        choice = rng.choice(["new", "from_counts", "counts", "distribution", "expect", "parities", "save", "representing",
                             "counts", "expect", "distribution", "representing", "from_counts"])
        if m is None or choice == "new":
            l = self.pick("bitlist")
            if l is None or rng.random() < 0.5:
                l = self.lit_bits()
            E({"op": "meas_new", "args": [l]}, {"k": "meas", "w": self.meta[l]["w"], "n": self.meta[l]["n"]})
            return True
        mm = self.meta[m]
        if rng.random() < 0.08:   # comparison operators between measurement sets
            E({"op": "report", "kind": "proto", "what": rng.choice(["eq", "ne", "hash"]), "args": [m, self.pick("meas")]}, None)
            return True
        if choice == "from_counts":
            w = rng.choice([1, 2, 3])
            keys = rng.sample([[(i >> b) & 1 for b in range(w)] for i in range(2 ** w)], rng.randrange(0, min(2 ** w, 4) + 1))
            big = rng.random() < 0.4   # e.g. 1 / 6 / 15 of 22 shots: frequencies whose float sum is 1 only up to rounding
            cnt = [[k, rng.randrange(0, 16 if big else 4)] for k in keys]
            if keys and rng.random() < 0.12:
                # a measurement set of 1000+ shots (sizes at which a library would start to keep a histogram instead of recounting)
                cnt = [[k, rng.randrange(250, 700) + (1000 if i == 0 else 0)] for i, k in enumerate(keys)]
            E({"op": "meas_from_counts", "counts": cnt, **self.mt(extra=["counter"])}, {"k": "meas", "w": w, "n": sum(c[1] for c in cnt)})
        elif choice == "counts":
            E({"op": "meas_counts", "args": [m]}, None)
        elif choice == "distribution":
            E({"op": "meas_distribution", "args": [m]},
              {"k": "dist", "w": mm["w"], "normalized": True, "src": -1 - m} if mm["n"] > 0 else None)
        elif choice in ("expect", "parities"):
            if mm["n"] == 0:
                return False
            o = self.pick("sum", lambda x: x["nq"] <= mm["w"]) if rng.random() < 0.7 else self.pick("term", lambda x: x["nq"] <= mm["w"])
            if o is None:
                t1 = self.term_new(ising=rng.random() < 0.85, maxq=mm["w"])
                t2 = self.term_new(ising=rng.random() < 0.85, maxq=mm["w"])
                o = E({"op": "term_add", "args": [t1, t2]}, {"k": "sum", "nq": mm["w"], "nt": 2, "ib": 3, "fb": 2,
                                                             "ising": self.meta[t1]["ising"] and self.meta[t2]["ising"]})
            if choice == "expect" and self.meta[o]["k"] == "sum" and self.meta[o]["nt"] == 0:
                return False
            E({"op": "report", "kind": "expectation_values" if choice == "expect" else "parities", "args": [m, o],
               **({"bessel": True} if choice == "expect" and mm["n"] > 1 and rng.random() < 0.3 else {})}, None)
        elif choice == "save":
            E({"op": "report", "kind": "save", "args": [m]}, None)
        elif choice == "representing":
            d = self.pick("dist", lambda x: not x.get("nb"))
            if d is None:
                return False
            E({"op": "meas_representing", "args": [d], "n": rng.randrange(1, 12), "seed": rng.randrange(2 ** 31)},
              {"k": "meas", "w": self.meta[d]["w"], "n": 1})
        return True

    def dist_call(self, malformed=False):
        rng, E = self.rng, self.emit
        d = self.pick("dist")
        choice = rng.choice(["new", "new", "sub", "sub", "distance", "save", "n_subsystems", "str", "representing", "sub",
                             "distance", "distance", "representing", "cmp", "cmp"])
        if d is None or choice == "new":
            l = self.pick("ddict")
            if l is None or rng.random() < 0.5:
                l = self.lit_dict(malformed)
            ml = self.meta[l]
            nrm = rng.random() < 0.7
            ok = ml["ok"] and not (ml["sum"] == 0 and nrm)
            E({"op": "dist_new", "args": [l], "normalize": nrm},
              {"k": "dist", "w": ml["w"], "normalized": nrm or abs(ml["sum"] - 1) < Fraction(1, 10 ** 10), "nb": ml.get("nb"),
               "src": l} if ok else None)
            return True
        md = self.meta[d]
        if choice == "cmp":   # comparison operators between distributions (== / != / hash)
            e = self.pick("dist")
            E({"op": "report", "kind": "proto", "what": rng.choice(["eq", "ne", "eq", "hash"]), "args": [d, e]}, None)
            return True
        if choice == "sub":
            w = md["w"]
            qs = rng.sample(range(w), rng.randrange(1, w + 1))
            if rng.random() < 0.35:   # indices counted from the end (plain tuple indexing accepts them)
                qs = [q - w if rng.random() < 0.6 else q for q in qs]
            if malformed:
                qs = rng.choice([[], qs + [qs[0]], qs + [w], [w + 1], [-w - 1], qs + [-w - 2], qs + [qs[0] - w if qs[0] >= 0 else qs[0] + w]])
            ok = len(qs) > 0 and len(set(qs)) == len(qs) and max(qs) < w and min(qs) >= -w
            E({"op": "dist_sub", "args": [d], "qubits": qs, **(self.qt(qs) if ok else {})},
              {"k": "dist", "w": len(qs), "normalized": md["normalized"], "nb": md.get("nb"), "src": md.get("src")} if ok else None)
        elif choice == "distance":
            e = self.pick("dist", lambda x: x["w"] == md["w"]) if rng.random() < 0.9 else self.pick("dist")
            # prefer a distribution that comes from ANOTHER dict / measurement set (different support), same normalisation
            other = [i for i, m in enumerate(self.meta) if m and m["k"] == "dist" and m["w"] == md["w"] and not m.get("nb")
                     and m.get("src") != md.get("src") and bool(m.get("normalized")) == bool(md.get("normalized"))]
            if other and rng.random() < 0.7:
                e = rng.choice(other)
                if rng.random() < 0.5:
                    d, e, md = e, d, self.meta[e]
            if md.get("nb") or self.meta[e].get("nb"):
                return False
            E({"op": "report", "kind": "distance", "measure": rng.choice(["cnll", "mmd", "mmd", "jsd"]), "args": [d, e], **self.bandwidths()}, None)
        elif choice == "representing":
            if md.get("nb"):
                return False
            E({"op": "meas_representing", "args": [d], "n": rng.randrange(1, 12), "seed": rng.randrange(2 ** 31)},
              {"k": "meas", "w": md["w"], "n": 1})
        else:
            E({"op": "report", "kind": choice, "args": [d]}, None)
        return True

    SYMVECS = [["cos(theta)", "sin(theta)"], ["cos(theta)", "I*sin(theta)"], ["cos(theta)", "0", "0", "sin(theta)"],
               ["1/2", "1/2", "sqrt(2)*cos(phi)/2", "sqrt(2)*sin(phi)/2"], ["theta", "phi"], ["3/5", "4*cos(theta)/5"],
               ["cos(theta)*cos(phi)", "cos(theta)*sin(phi)", "sin(theta)", "0"]]

    def wfsym_call(self):
        """symbolic wavefunctions (a sympy Matrix inside): the other branch of amplitudes / bind / get_probabilities"""
        rng, E = self.rng, self.emit
        w = self.pick("wf", lambda m: m.get("sym"))
        choice = rng.choice(["new", "probs", "outcome_probs", "bind", "bind", "eq", "str", "amplitudes", "flip", "probs"])
        if w is None or choice == "new":
            v = self.pick("symvec")
            if v is None or rng.random() < 0.5:
                ex = rng.choice(self.SYMVECS)
                v = E({"op": "lit_symvec", "exprs": ex}, {"k": "symvec", "n": len(ex)})
            E({"op": "wf_new", "args": [v]}, {"k": "wf", "nq": self.meta[v]["n"].bit_length() - 1, "sym": True})
            return True
        if choice == "probs":
            E({"op": "wf_probs", "args": [w]}, None)
        elif choice == "bind":
            which = rng.choice([SYMS, SYMS[:1], SYMS[1:], []])
            mp = [[s, rat(_dy(rng, 4, -6, 6, False))] for s in which]
            E({"op": "wf_bind", "args": [w], "map": mp, **self.mt()}, {"k": "wf", "nq": self.meta[w]["nq"], "sym": True})
        elif choice == "eq":
            E({"op": "report", "kind": "eq", "args": [w, self.pick("wf")]}, None)
        else:
            E({"op": "report", "kind": choice, "args": [w]}, None)
        return True

    def wf_call(self, malformed=False):
        rng, E = self.rng, self.emit
        w = self.pick("wf", lambda m: not m.get("sym"))
        choice = rng.choice(["new", "probs", "outcome_probs", "bind", "eq", "expectation", "flip", "sample", "gate_apply",
                             "save", "str", "amplitudes", "probs", "outcome_probs"])
        if w is None or choice == "new":
            a = self.pick("arr", lambda m: m["ok"]) if not malformed else None
            if a is None or rng.random() < 0.5:
                a = self.lit_arr(malformed)
            E({"op": "wf_new", "args": [a]}, {"k": "wf", "nq": self.meta[a]["nq"]} if self.meta[a]["ok"] else None)
            return True
        mw = self.meta[w]
        if choice == "probs":
            E({"op": "wf_probs", "args": [w]}, None)
        elif choice == "bind":
            E({"op": "wf_bind", "args": [w]}, dict(mw))
        elif choice == "eq":
            E({"op": "report", "kind": "eq", "args": [w, self.pick("wf")]}, None)
        elif choice == "expectation":
            o = self.pick("sum", lambda x: 0 < x["nq"] <= mw["nq"] and x["nt"] > 0)
            if o is None:
                t1 = self.term_new(maxq=mw["nq"])
                if self.meta[t1]["nq"] == 0:
                    return False
                o = t1
            E({"op": "report", "kind": "wf_expectation", "args": [o, w]}, None)
        elif choice == "sample":
            E({"op": "report", "kind": "sample", "args": [w], "n": rng.randrange(1, 12), "seed": rng.randrange(2 ** 31)}, None)
        elif choice == "gate_apply":
            a = self.pick("arr", lambda m: m["ok"])
            if a is None:
                return False
            g, ar, sym, heavy = self.gate(allow_sym=False)
            if heavy or ar > self.meta[a]["nq"]:
                return False
            E({"op": "report", "kind": "gate_apply", "args": [a], "gop": {"g": g, "q": rng.sample(range(self.meta[a]["nq"]), ar)}}, None)
        else:
            E({"op": "report", "kind": choice, "args": [w]}, None)
        return True


def _history(rng, big, family, malformed=False):
    g = _Gen(rng, big)
    target = rng.randrange(8, 23)
    fams = {"circuit": [g.circuit_call], "pauli": [g.pauli_call], "meas": [g.meas_call, g.pauli_call, g.meas_call],
            "dist": [lambda: g.dist_call(malformed), lambda: g.dist_call(malformed), g.meas_call],
            "wf": [lambda: g.wf_call(malformed), g.pauli_call, lambda: g.wf_call(malformed)],
            "wfsym": [g.wfsym_call, g.wfsym_call, lambda: g.wf_call(malformed)],
            "mixed": [g.circuit_call, g.pauli_call, g.meas_call, lambda: g.dist_call(malformed), lambda: g.wf_call(malformed)]}[family]
    fams = fams * 4 + [g.forms_call] * max(1, len(fams))   # one call in five: an operator / protocol form outside the model
    guard = 0
    while len(g.calls) < target and guard < 200:
        guard += 1
        try:
            r = rng.random()
            if r < 0.10:
                g.again()
            elif r < 0.18:
                g.sibling()
            else:
                rng.choice(fams)()
        except _TooBig:
            pass
    return {"kind": family + ("-malformed" if malformed else ""), "calls": g.calls}


def _evalframe_case(rng):
    from .. import circ
    n = rng.randrange(1, 4)
    ops = []
    for _ in range(rng.randrange(1, 5)):
        if rng.random() < 0.45:
            ops.append({"mphase": [circ.rat_angle(rng) for _ in range(2 ** n)]})
        else:
            ops.append(circ.random_op(rng, n, custom_prob=0.0))
    if rng.random() < 0.5:
        ops.insert(0, {"mphase": [circ.rat_angle(rng) for _ in range(2 ** n)]})
    v = [[0, 0] for _ in range(2 ** n)]
    i, j = rng.randrange(2 ** n), rng.randrange(2 ** n)
    if i == j:
        v[i] = [0, 1]
    else:
        v[i], v[j] = ["3/5", 0], [0, "4/5"]
    extra = {}
    r = rng.random()
    if r < 0.2:
        extra["dtype"] = "complex64"
    if rng.random() < 0.25:
        extra["strided"] = True
    return {"kind": "evalframe", "n": n, "ops": ops, "v": v, **extra}


def generate(rng, tier):
    big = tier == "thorough"
    n = 6000 if big else 420
    cases = [_evalframe_case(rng) for _ in range(200 if big else 30)]
    fams = ["circuit", "pauli", "meas", "dist", "wf", "mixed"]
    for i in range(n):
        cases.append(_history(rng, big, fams[i % len(fams)]))
    for i in range(n // 6):  # the malformed stream: invalid dicts, qubit lists, amplitude vectors
        cases.append(_history(rng, big, ["dist", "wf", "mixed"][i % 3], malformed=True))
    for i in range(n // 14):  # symbolic wavefunctions (oracle only)
        cases.append(_history(rng, big, "wfsym"))
    # every argument of every family of operations in every container type the library accepts (oracle only)
    cases.extend(c20_containers.generate(rng, big))
    # readers of objects holding UNSIMPLIFIED sympy expressions, structural snapshots (oracle only)
    cases.extend(c20_symbolic.generate(rng, big))
    return cases
