"""C20 (and the distance functions of C17) — arguments in EVERY container type the library accepts.

A `containers` case names ONE family of value-returning operations, the VALUES of its arguments (plain JSON) and, per argument
slot, the CONTAINER TYPE the caller uses for it: list / tuple / range / set / frozenset, dict / OrderedDict / Counter /
MappingProxyType, numpy arrays that are ALREADY of the dtype a careless `np.asarray(x, dtype=...)` / `np.array(x, copy=False)` would
ask for (float64, complex128, int64; C- and F-contiguous; strided views of a larger buffer; read-only), arrays of another dtype
(float32, complex64, int64 where floats are meant), lists of numpy scalars, object arrays, numpy arrays inside dicts.
The family's calls are made one after another on the SAME argument objects (a history on shared objects), each call twice, the
first call once more at the end.  Around every call everything reachable from the arguments is snapshotted deeply: value with exact
float bits, dtype, shape, strides, flags, container type, iteration order, identity of every nested container, the buffer behind a
strided view, the dict behind a MappingProxyType.
  oracle: no snapshot differs, both calls (and the first call repeated at the end) give bit-equal results, editing a returned
          container / array in place does not reach an argument, no exception outside the rejection classes, and no exception that
          only an attempted WRITE to a read-only / immutable argument produces.
Which container types the unchanged library accepts per slot was established with `python -m harness.props.c20_containers survey`
(every variant of every slot, all calls of the family answered without a rejection); only those are listed in `slots`.
"""
import builtins
import collections
import os
import re
import types
from fractions import Fraction

from .. import common
from ..common import rat

SYMS = ["theta", "phi"]


builtins_id = builtins.id


def _H():
    from . import c20
    return c20


def _fr(j):
    return Fraction(j) if not isinstance(j, (int, float)) else Fraction(j)


def _f(j):
    return float(_fr(j))


def _cx(j):
    """[re, im] -> python float (im == 0) or complex"""
    re_, im = _f(j[0]), _f(j[1])
    return complex(re_, im) if im != 0 else re_


# ------------------------------------------------------------------ builders of the container variants
_DT = {"f64": "float64", "c128": "complex128", "i64": "int64", "c64": "complex64", "f32": "float32", "obj": "object"}


def mk_array(np, data, ct, aux=None, name="x"):
    """`ct` = [ro:][st:][F:|C:]<dtype>.  st: a strided (non-contiguous) view of a buffer twice as long (the buffer is kept in
    `aux` and snapshotted with the arguments); F: Fortran order; ro: read-only"""
    parts = ct.split(":")
    dt = _DT[parts[-1]]
    if dt in ("float64", "float32"):
        data = _map_nested(lambda x: x.real if isinstance(x, complex) else float(x), data)
    elif dt == "int64":
        data = _map_nested(lambda x: int(x.real if isinstance(x, complex) else x), data)
    a = np.array(data, dtype=dt)
    if "F" in parts:
        a = np.asfortranarray(a)
    if "st" in parts:
        base = np.zeros((2 * a.shape[0],) + a.shape[1:], dtype=dt)
        base[1::2] = 7        # what lies between the entries of the view
        base[::2] = a
        if aux is not None:
            aux[name + ".buffer"] = base
        a = base[::2]
    if "ro" in parts:
        a.setflags(write=False)
    return a


def _map_nested(fn, data):
    if isinstance(data, (list, tuple)):
        return [_map_nested(fn, x) for x in data]
    return fn(data)


def mk_vec(np, vals, ct, aux=None, name="x"):
    """a vector of numbers (python float / complex) in the container type `ct`"""
    if ct == "list":
        return list(vals)
    if ct == "tuple":
        return tuple(vals)
    if ct == "npfloats":      # a list of numpy scalars
        return [np.complex128(x) if isinstance(x, complex) else np.float64(x) for x in vals]
    return mk_array(np, list(vals), ct, aux, name)


def mk_mat(np, rows, ct, aux=None, name="x"):
    if ct == "nested":
        return [list(r) for r in rows]
    if ct == "tuples":
        return tuple(tuple(r) for r in rows)
    if ct == "rows":           # a list of 1-d arrays
        return [np.array(r) for r in rows]
    return mk_array(np, [list(r) for r in rows], ct, aux, name)


def mk_ints(np, ints, ct, aux=None, name="x"):
    if ct == "list":
        return list(ints)
    if ct == "tuple":
        return tuple(ints)
    if ct == "npints":
        return [np.int64(i) for i in ints]
    if ct == "nptuple":
        return tuple(np.int64(i) for i in ints)
    if ct == "range":
        assert list(range(ints[0], ints[-1] + 1)) == list(ints)
        return range(ints[0], ints[-1] + 1)
    if ct == "set":
        return set(ints)
    if ct == "frozenset":
        return frozenset(ints)
    if ct == "str":
        return "".join(str(i) for i in ints)
    return mk_array(np, list(ints), ct, aux, name)


def mk_map(pairs, ct, aux=None, name="x"):
    if ct == "dict":
        return dict(pairs)
    if ct == "odict":
        return collections.OrderedDict(pairs)
    if ct == "counter":
        return collections.Counter(dict(pairs))
    if ct == "ddict":
        d = collections.defaultdict(float)
        d.update(pairs)
        return d
    if ct == "proxy":
        d = dict(pairs)
        if aux is not None:
            aux[name + ".mapping"] = d
        return types.MappingProxyType(d)
    raise AssertionError(ct)


def mk_seq(np, objs, ct):
    if ct == "list":
        return list(objs)
    if ct == "tuple":
        return tuple(objs)
    if ct == "objarr":
        a = np.empty(len(objs), dtype=object)
        for i, o in enumerate(objs):
            a[i] = o
        return a
    raise AssertionError(ct)


# ------------------------------------------------------------------ deep snapshot of arguments
def csnap(L, o, keep, depth=0, ids=True):
    """value, type, dtype, layout, order and (ids=True) identity of everything reachable from an argument.  `keep` keeps every
    object seen alive, so that the identities recorded in two snapshots stay comparable.  ids=False: the same by value only (used
    for results of two calls, which are different objects)."""
    H = _H()
    np = L.np
    if o is None or isinstance(o, (bool, str, bytes)):
        return o
    keep.append(o)
    if depth > 12:
        return ["deep", repr(o)[:80]]
    S = lambda x: csnap(L, x, keep, depth + 1, ids)  # noqa: E731
    id = (lambda x: builtins_id(x)) if ids else (lambda x: 0)  # noqa: E731,A001
    if isinstance(o, np.ndarray):
        fl = o.flags
        body = [S(x) for x in o.ravel()] if o.dtype == object else o.tobytes().hex()
        return ["ndarray", id(o), str(o.dtype), list(o.shape), list(o.strides),
                [bool(fl.c_contiguous), bool(fl.f_contiguous), bool(fl.writeable)], body]
    if isinstance(o, np.generic):
        return ["npscalar", str(o.dtype), o.tobytes().hex()]
    if isinstance(o, (int, float, complex)):
        return H._num_strict(o)
    if isinstance(o, (list, tuple)):
        return [type(o).__name__, id(o), [S(x) for x in o]]
    if isinstance(o, (dict, types.MappingProxyType)):
        out = [type(o).__name__, id(o), [[S(k), S(v)] for k, v in o.items()]]
        if isinstance(o, collections.defaultdict):
            out.append(repr(o.default_factory))
        return out
    if isinstance(o, (set, frozenset)):
        return [type(o).__name__, id(o), sorted(repr(x) for x in o)]
    if isinstance(o, range):
        return ["range", repr(o)]
    if isinstance(o, L.sympy.MatrixBase):
        return ["sympymat", id(o), type(o).__name__, L.sympy.srepr(o)]
    if isinstance(o, L.sympy.Basic):
        return ["sympy", L.sympy.srepr(o)]
    k = H._kind(L, o)
    if k == "circuit":
        return ["circuit", id(o), repr(o.n_qubits), id(o.operations), [S(x) for x in o.operations], [str(s) for s in o.free_symbols], str(o)]
    if k == "term":
        return [H._strict(L, o, {}), id(o), S(o.coefficient)]
    if k == "sum":
        return ["sum", id(o), S(o.terms), repr(o)]
    if k == "meas":
        return ["meas", id(o), S(o.bitstrings)]
    if k == "dist":
        return ["dist", id(o), S(o.distribution_dict), repr(o)]
    if k == "wf":
        return ["wf", id(o), S(o._amplitude_vector), len(o)]
    G = L.gates
    if isinstance(o, G.GateOperation):
        return ["gop", id(o), H._gate_strict(L, o.gate), S(o.qubit_indices), S(o.gate.params)]
    if isinstance(o, (G.MatrixFactoryGate, G.ControlledGate, G.Dagger, G.Power, G.Exponential)):
        return ["gate", id(o), H._gate_strict(L, o), S(o.params)]
    if isinstance(o, L.circuits.MultiPhaseOperation):
        return ["mphase", id(o), S(o.params)]
    if isinstance(o, G.CustomGateDefinition):
        return ["customdef", id(o), o.gate_name, S(o.matrix), S(o.params_ordering)]
    if hasattr(o, "values") and hasattr(o, "correlations"):   # ExpectationValues / Parities
        return [type(o).__name__, id(o), S(o.values), S(o.correlations), S(getattr(o, "estimator_covariances", None))]
    if hasattr(o, "toarray") and hasattr(o, "data"):          # scipy sparse
        return ["sparse", id(o), type(o).__name__, S(o.data), S(getattr(o, "indices", None)), S(getattr(o, "indptr", None))]
    return [type(o).__name__, repr(o)]


def _snap_args(L, args, aux, keep):
    return {"args": {k: csnap(L, v, keep) for k, v in args.items()}, "aux": {k: csnap(L, v, keep) for k, v in aux.items()}}


def _rsnap(L, res):
    return csnap(L, res[1], [], ids=False) if res[0] == "ok" else [res[0], res[1]]


def _where(a, b, path=""):
    """first place where two snapshots differ"""
    if type(a) is type(b) and isinstance(a, dict) and a.keys() == b.keys():
        for k in a:
            if a[k] != b[k]:
                return _where(a[k], b[k], f"{path}.{k}" if path else str(k))
    if type(a) is type(b) and isinstance(a, list) and len(a) == len(b):
        if a and a[0] == "ndarray" and b[0] == "ndarray":
            return f"at {path or 'top'}: before {_show_array(a)} after {_show_array(b)}"
        for i, (x, y) in enumerate(zip(a, b)):
            if x != y:
                return _where(x, y, f"{path}[{i}]")
    return f"at {path or 'top'}: before {common.canon(a)[:160]} after {common.canon(b)[:160]}"


def _show_array(s):
    """a snapshotted ndarray, readable"""
    import numpy as np
    _tag, _id, dt, shape, strides, flags, body = s
    if isinstance(body, str):
        vals = np.frombuffer(bytes.fromhex(body), dtype=dt).reshape(shape).tolist()
    else:
        vals = body
    return (f"array({common.canon(vals)[:200]}, dtype={dt}, strides={strides}, "
            f"{'C' if flags[0] else ''}{'F' if flags[1] else ''}{'' if flags[2] else ' read-only'})")


# exception texts that only an attempted WRITE to a read-only array / immutable container produces
_WRITE_ATTEMPT = re.compile(
    r"read-only|readonly|does not support item assignment|does not support item deletion|doesn't support item deletion|"
    r"object has no attribute '(append|extend|insert|pop|popitem|remove|reverse|sort|clear|update|setdefault|add|discard|"
    r"__setitem__|__delitem__|__iadd__|__imul__|fill|setflags|resize|put|itemset|partition)'|"
    r"cannot set WRITEABLE|not writeable|output array is read-only|can't set attribute|cannot assign")


# ------------------------------------------------------------------ small value generators (JSON)
def _dy(rng, den=4, lo=-8, hi=8, nonzero=True):
    while True:
        v = Fraction(rng.randrange(lo, hi + 1), den)
        if v != 0 or not nonzero:
            return v


def _gen_ddict(rng, w=None, bits_only=True):
    w = w or rng.choice([1, 2, 3])
    keys = rng.sample([[(i >> b) & 1 for b in range(w)] for i in range(2 ** w)], rng.randrange(2 if w > 0 else 1, min(2 ** w, 5) + 1))
    den = rng.choice([4, 8, 16])
    cuts = sorted(rng.randrange(1, den) for _ in range(len(keys) - 1))
    vals = [Fraction(b - a, den) for a, b in zip([0] + cuts, cuts + [den])]
    if rng.random() < 0.3:   # not normalised
        vals = [v * rng.choice([2, 3, Fraction(1, 2)]) + Fraction(rng.randrange(0, 3), 4) for v in vals]
    if sum(vals) == 0:
        vals[0] = Fraction(1)
    return [[k, rat(v)] for k, v in zip(keys, vals)]


def _ddict_py(d):
    return [(tuple(k), _f(v)) for k, v in d]


_AMPS = [[(1, 0), (0, 0)], [(0, 0), (0, 1)], [(Fraction(3, 5), 0), (0, Fraction(4, 5))],
         [(Fraction(1, 2), 0), (Fraction(1, 2), 0), (Fraction(-1, 2), 0), (0, Fraction(1, 2))],
         [(0, 0), (1, 0), (0, 0), (0, 0)], [(Fraction(4, 5), 0), (0, 0), (0, 0), (Fraction(-3, 5), 0)],
         [(Fraction(1, 2), 0)] * 4 + [(0, 0)] * 4, [(0, 0)] * 7 + [(0, -1)],
         [(Fraction(1, 2), 0), (0, Fraction(1, 2)), (Fraction(-1, 2), 0), (0, Fraction(-1, 2))],
         # components far below every tolerance but NOT zero, a norm that is 1 only up to np.isclose
         [(1, 0), (Fraction(3, 10 ** 13), 0)], [(0, 0), (0, 1), (Fraction(1, 10 ** 17), 0), (0, Fraction(-1, 10 ** 20))],
         [(Fraction(707107, 10 ** 6), 0), (0, Fraction(707107, 10 ** 6))]]
_REAL_AMPS = [[(1, 0), (0, 0)], [(Fraction(3, 5), 0), (Fraction(-4, 5), 0)], [(Fraction(1, 2), 0)] * 4,
              [(1, 0), (Fraction(3, 10 ** 13), 0)], [(Fraction(57735, 10 ** 5), 0)] * 3 + [(0, 0)],
              [(0, 0), (0, 0), (1, 0), (0, 0)], [(Fraction(4, 5), 0), (0, 0), (0, 0), (Fraction(-3, 5), 0)],
              [(Fraction(1, 2), 0)] * 4 + [(0, 0)] * 4]
_INT_AMPS = [[(1, 0), (0, 0)], [(0, 0), (1, 0)], [(0, 0), (0, 0), (-1, 0), (0, 0)], [(0, 0)] * 7 + [(1, 0)]]


def _gen_amps(rng, ct):
    dt = ct.split(":")[-1]
    pool = _INT_AMPS if dt == "i64" else _REAL_AMPS if dt in ("f64", "f32") else _AMPS
    a = rng.choice(pool)
    if dt in ("c64", "f32"):   # single precision: keep the norm exact
        a = rng.choice([x for x in pool if all(Fraction(v).denominator in (1, 2) for xy in x for v in xy)])
    return [[rat(Fraction(x)), rat(Fraction(y))] for x, y in a]


def _amps_py(a):
    return [_cx(x) for x in a]


def _gen_term(rng, maxq=3, ising=False, real=False):
    qs = rng.sample(range(maxq), rng.randrange(0 if not ising else 1, min(maxq, 3) + 1))
    ops = [[q, "Z" if ising else rng.choice("XYZ")] for q in qs]
    coef = [rat(_dy(rng)), rat(_dy(rng, nonzero=False)) if (not real and rng.random() < 0.3) else 0]
    return {"ops": ops, "coef": coef}


def _term_py(L, t):
    return L.ops.PauliTerm({int(q): p for q, p in t["ops"]}, _cx(t["coef"]))


_GATES1 = ["X", "H", "Z", "T", "S"]
_GATES2 = ["CNOT", "SWAP", "ISWAP", "CZ"]
_PGATES = ["RX", "RZ", "PHASE", "RY"]


def _gen_gop(rng, nq, sym=False):
    r = rng.random()
    if r < 0.4 or nq < 2 and r < 0.7:
        return {"g": rng.choice(_GATES1), "p": [], "q": [rng.randrange(nq)]}
    if r < 0.7 and nq >= 2:
        return {"g": rng.choice(_GATES2), "p": [], "q": rng.sample(range(nq), 2)}
    p = {"sym": rng.choice(SYMS)} if (sym and rng.random() < 0.6) else rat(_dy(rng, 4, -6, 6, False))
    return {"g": rng.choice(_PGATES), "p": [p], "q": [rng.randrange(nq)]}


def _gop_py(L, o):
    ref = L.circuits.builtin_gate_by_name(o["g"])
    ps = [L.sympy.Symbol(p["sym"]) if isinstance(p, dict) else _f(p) for p in o["p"]]
    return (ref(*ps) if ps else ref)(*o["q"])


class Derived:
    """an entry of `args` that the library builds FROM other entries (a receiver: Measurements(bitstrings), PauliSum(terms) ...):
    constructed by run_case after the raw arguments were snapshotted, so that a constructor editing its input is seen"""

    def __init__(self, fn):
        self.fn = fn


def _guard(fn, a):
    H = _H()
    try:
        return ("ok", fn(a)), None
    except tuple(H.REJECT) as e:
        return ("err", next(v for k, v in H.REJECT.items() if isinstance(e, k))), f"{type(e).__name__}: {e}"[:200]
    except Exception as e:   # noqa: BLE001  (not a rejection: reported by the oracle)
        return ("exc", f"exc:{type(e).__name__}"), f"{type(e).__name__}: {e}"[:200]


# ------------------------------------------------------------------ the families of operations
# Every family: slots (slot -> container types the unchanged library accepts), gen(rng, ct) -> values (JSON),
# build(L, v, ct, aux, tmp) -> (args, calls): args = named argument objects (snapshotted), calls = [(label, fn(args))].
VEC_C = ["list", "tuple", "c128", "ro:c128", "st:c128", "ro:st:c128", "f64", "ro:f64", "i64", "c64", "npfloats"]
VEC_F = ["list", "tuple", "f64", "ro:f64", "st:f64", "ro:st:f64", "f32", "npfloats"]
MAPS = ["dict", "odict", "proxy"]
SEQS = ["list", "tuple"]


def _fam_dist_sub():
    def gen(rng, ct):
        w = rng.choice([2, 3, 4])
        d = _gen_ddict(rng, w)
        qs = rng.sample(range(w), rng.randrange(1, w + 1))
        if ct["qubits"] == "range":
            lo = rng.randrange(0, w)
            qs = list(range(lo, rng.randrange(lo, w) + 1))
        elif rng.random() < 0.5:   # indices counted from the end (plain tuple indexing accepts them)
            qs = [q - w if rng.random() < 0.6 else q for q in qs]
        return {"d": d, "qs": qs, "normalize": rng.random() < 0.7}

    def build(L, v, ct, aux, tmp):
        np = L.np
        dist = _quiet(lambda: L.dist.MeasurementOutcomeDistribution(dict(_ddict_py(v["d"])), v["normalize"]))
        a = {"dist": dist, "qubits": mk_ints(np, v["qs"], ct["qubits"], aux, "qubits")}
        sub = lambda a: _quiet(lambda: a["dist"].subdistribution(a["qubits"]))  # noqa: E731
        return a, [("subdistribution", sub), ("get_number_of_subsystems", lambda a: a["dist"].get_number_of_subsystems()),
                   ("subdistribution_again", sub)]
    return {"slots": {"qubits": ["list", "tuple", "npints", "nptuple", "i64", "ro:i64", "st:i64", "range"]}, "gen": gen, "build": build}


def _quiet(fn):
    import warnings
    with warnings.catch_warnings():
        warnings.simplefilter("ignore")
        return fn()


def _fam_distance():
    def gen(rng, ct):
        w = rng.choice([1, 2, 3])
        p, q = _gen_ddict(rng, w), _gen_ddict(rng, w)
        # both normalised, or both not
        st = ct["sigma"]
        if st in ("float", "int", "npfloat", "absent"):
            sg = rat(Fraction(rng.randrange(1, 40), 1 if st == "int" else rng.choice([1, 2, 4])))
        else:
            n = rng.choice([1, 2, 3, 3])
            ints = st.endswith("i64")
            sg = [rat(Fraction(rng.randrange(1, 40), 1 if ints else rng.choice([1, 2, 4]))) for _ in range(n)]
        return {"p": p, "q": q, "sigma": sg, "eps": rat(rng.choice([Fraction(1, 10 ** 9), Fraction(1, 1000), Fraction(1, 8)])),
                "fns": rng.sample(["mmd", "cnll", "jsd"], 3), "via": rng.choice(["direct", "eval"])}

    def build(L, v, ct, aux, tmp):
        np, D = L.np, L.dist
        mk = lambda d: _quiet(lambda: D.MeasurementOutcomeDistribution(dict(_ddict_py(d)), True))  # noqa: E731
        st = ct["sigma"]
        pairs = []
        if st == "float":
            pairs.append(("sigma", _f(v["sigma"])))
        elif st == "int":
            pairs.append(("sigma", int(_fr(v["sigma"]))))
        elif st == "npfloat":
            pairs.append(("sigma", np.float64(_f(v["sigma"]))))
        elif st != "absent":
            pairs.append(("sigma", mk_vec(np, [_f(x) for x in v["sigma"]], st, aux, "sigma")))
        et = ct["epsilon"]
        if et != "absent":
            pairs.append(("epsilon", np.float64(_f(v["eps"])) if et == "npfloat" else _f(v["eps"])))
        a = {"target": mk(v["p"]), "measured": mk(v["q"]), "params": mk_map(pairs, ct["params"], aux, "params")}
        fns = {"mmd": D.compute_mmd, "cnll": D.compute_clipped_negative_log_likelihood, "jsd": D.compute_jensen_shannon_divergence}

        def call(fn, x, y):
            if v["via"] == "eval":
                return lambda a: D.evaluate_distribution_distance(a[x], a[y], fns[fn], distance_measure_parameters=a["params"])
            return lambda a: fns[fn](a[x], a[y], a["params"])
        calls = []
        for fn in v["fns"]:
            calls.append((f"{fn}(target, measured)", call(fn, "target", "measured")))
        calls.append((f"{v['fns'][0]}(measured, target)", call(v["fns"][0], "measured", "target")))
        calls.append((f"{v['fns'][0]}(target, target)", call(v["fns"][0], "target", "target")))
        return a, calls
    return {"slots": {"params": MAPS + ["ddict"],
                      "sigma": ["float", "int", "npfloat", "absent", "list", "tuple", "f64", "ro:f64", "st:f64", "ro:st:f64", "i64",
                                "ro:i64", "f32", "npfloats"],
                      "epsilon": ["float", "npfloat", "absent"]}, "gen": gen, "build": build}


def _fam_dist_new():
    def gen(rng, ct):
        return {"d": _gen_ddict(rng, rng.choice([1, 2, 3])), "normalize": rng.random() < 0.7, "keys": rng.choice(["tuple", "str", "comma"]),
                "vt": rng.choice(["float", "float", "npfloat"])}

    def build(L, v, ct, aux, tmp):
        np, D = L.np, L.dist
        from orquestra.quantum.distributions import _measurement_outcome_distribution as M
        kf = {"tuple": tuple, "str": lambda k: "".join(map(str, k)), "comma": lambda k: ",".join(map(str, k)) if len(k) > 1 else tuple(k)}[v["keys"]]
        pairs = [(kf(k), np.float64(_f(x)) if v["vt"] == "npfloat" else _f(x)) for k, x in v["d"]]
        a = {"input_dict": mk_map(pairs, ct["input_dict"], aux, "input_dict"),
             "tuple_dict": mk_map([(tuple(k), _f(x)) for k, x in v["d"]], ct["input_dict"], aux, "tuple_dict")}
        return a, [("MeasurementOutcomeDistribution", lambda a: _quiet(lambda: D.MeasurementOutcomeDistribution(a["input_dict"], v["normalize"]))),
                   ("preprocess_distibution_dict", lambda a: M.preprocess_distibution_dict(a["input_dict"])),
                   ("is_measurement_outcome_distribution", lambda a: M.is_measurement_outcome_distribution(a["tuple_dict"])),
                   ("is_normalized", lambda a: M.is_normalized(a["input_dict"])),
                   ("change_tuple_dict_keys_to_comma_separated_integers", lambda a: M.change_tuple_dict_keys_to_comma_separated_integers(a["tuple_dict"])),
                   ("MeasurementOutcomeDistribution(normalize=False)", lambda a: _quiet(lambda: D.MeasurementOutcomeDistribution(a["tuple_dict"], False)))]
    return {"slots": {"input_dict": MAPS + ["ddict"]}, "gen": gen, "build": build}


def _fam_dist_probs():
    def gen(rng, ct):
        n = rng.choice([1, 2, 3])
        den = 16
        cuts = sorted(rng.randrange(0, den + 1) for _ in range(2 ** n - 1))
        p = [Fraction(b - a, den) for a, b in zip([0] + cuts, cuts + [den])]
        r = rng.random()
        if r < 0.5:      # not normalised (the constructor normalises its own copy)
            p = [x * rng.choice([3, Fraction(1, 3), 5]) for x in p]
        elif r < 0.7:    # an entry far below every tolerance but not zero
            p[rng.randrange(len(p))] += Fraction(1, 10 ** 14)
        return {"p": [rat(x) for x in p]}

    def build(L, v, ct, aux, tmp):
        a = {"prob_distribution": mk_vec(L.np, [_f(x) for x in v["p"]], ct["prob_distribution"], aux, "prob_distribution")}
        f = L.dist.create_bitstring_distribution_from_probability_distribution
        return a, [("create_bitstring_distribution_from_probability_distribution", lambda a: _quiet(lambda: f(a["prob_distribution"])))]
    return {"slots": {"prob_distribution": VEC_F}, "gen": gen, "build": build}


def _fam_dist_save():
    def gen(rng, ct):
        return {"ds": [_gen_ddict(rng, rng.choice([1, 2])) for _ in range(rng.randrange(1, 4))]}

    def build(L, v, ct, aux, tmp):
        D = L.dist
        ds = [_quiet(lambda d=d: D.MeasurementOutcomeDistribution(dict(_ddict_py(d)))) for d in v["ds"]]
        a = {"distributions": mk_seq(L.np, ds, ct["distributions"])}
        f = os.path.join(tmp, "d.json")

        def many(a):
            D.save_measurement_outcome_distributions(a["distributions"], f)
            return open(f).read()

        def one(a):
            D.save_measurement_outcome_distribution(a["distributions"][0], f)
            return open(f).read()
        return a, [("save_measurement_outcome_distributions", many), ("save_measurement_outcome_distribution", one)]
    return {"slots": {"distributions": SEQS + ["objarr"]}, "gen": gen, "build": build}


def _gen_ising(rng, w):
    return [_gen_term(rng, maxq=w, ising=True, real=True) for _ in range(rng.randrange(1, 4))]


def _sum_py(L, ts, ct="list"):
    return L.ops.PauliSum(mk_seq(L.np, [_term_py(L, t) for t in ts], ct))


def _fam_meas():
    def gen(rng, ct):
        w = rng.choice([1, 2, 3])
        n = rng.choice([1, 2, 4, 8, 5])
        return {"bits": [[rng.randrange(2) for _ in range(w)] for _ in range(n)], "op": _gen_ising(rng, w), "bessel": n > 1 and rng.random() < 0.3}

    def build(L, v, ct, aux, tmp):
        np = L.np
        et = ct["bitstrings"].split("/")
        rows = [tuple(np.int64(b) for b in r) if "np" in et else tuple(r) for r in v["bits"]]
        bits = mk_seq(np, rows, et[0])
        a = {"bitstrings": bits, "measurements": Derived(lambda a: L.Measurements(a["bitstrings"])), "operator": _sum_py(L, v["op"])}
        f = os.path.join(tmp, "m.json")

        def save(a):
            a["measurements"].save(f)
            return open(f).read()
        return a, [("get_counts", lambda a: a["measurements"].get_counts()),
                   ("get_distribution", lambda a: a["measurements"].get_distribution()),
                   ("get_expectation_values", lambda a: a["measurements"].get_expectation_values(a["operator"], v["bessel"])),
                   ("get_parities_from_measurements", lambda a: L.parities(a["bitstrings"], a["operator"])),
                   ("save", save),
                   ("Measurements", lambda a: L.Measurements(a["bitstrings"]).get_counts())]
    return {"slots": {"bitstrings": ["list", "tuple", "list/np", "tuple/np"]}, "gen": gen, "build": build}


def _fam_counts():
    def gen(rng, ct):
        w = rng.choice([1, 2, 3])
        keys = rng.sample([[(i >> b) & 1 for b in range(w)] for i in range(2 ** w)], rng.randrange(1, min(2 ** w, 4) + 1))
        marked = rng.sample(range(w), rng.randrange(1, w + 1))
        if ct["marked_qubits"] == "range":
            marked = list(range(rng.randrange(w), w))
        cnt = [[k, rng.randrange(1, 9)] for k in keys]
        if len(cnt) > 1 and rng.random() < 0.4:   # an outcome listed with zero shots
            cnt[rng.randrange(len(cnt))][1] = 0
        return {"counts": cnt, "marked": marked}

    def build(L, v, ct, aux, tmp):
        np = L.np
        from orquestra.quantum.measurements.measurements import get_expectation_value_from_frequencies as gef
        kt = ct["counts"].split("/")
        pairs = [("".join(map(str, k)), np.int64(n) if "np" in kt else n) for k, n in v["counts"]]
        a = {"counts": mk_map(pairs, kt[0], aux, "counts"), "marked_qubits": mk_ints(np, v["marked"], ct["marked_qubits"], aux, "marked_qubits")}
        return a, [("Measurements.from_counts", lambda a: L.Measurements.from_counts(a["counts"])),
                   ("get_expectation_value_from_frequencies", lambda a: gef(a["marked_qubits"], a["counts"])),
                   ("Measurements.from_counts.get_distribution", lambda a: L.Measurements.from_counts(a["counts"]).get_distribution())]
    return {"slots": {"counts": ["dict", "odict", "proxy", "counter", "dict/np", "odict/np"],
                      "marked_qubits": ["list", "tuple", "set", "frozenset", "npints", "range"]}, "gen": gen, "build": build}


def _fam_parity():
    def gen(rng, ct):
        w = rng.choice([2, 3, 4])
        marked = rng.sample(range(w), rng.randrange(1, w + 1))
        if ct["marked_qubits"] == "range":
            marked = list(range(rng.randrange(w), w))
        return {"bits": [rng.randrange(2) for _ in range(w)], "rows": [[rng.randrange(2) for _ in range(w)] for _ in range(rng.randrange(1, 5))],
                "marked": marked}

    def build(L, v, ct, aux, tmp):
        np = L.np
        from orquestra.quantum.measurements import parities as P
        from orquestra.quantum.measurements.measurements import convert_bitstring_to_int
        a = {"bitstring": mk_ints(np, v["bits"], ct["bitstring"], aux, "bitstring"),
             "marked_qubits": mk_ints(np, v["marked"], ct["marked_qubits"], aux, "marked_qubits"),
             "bitstrings_vector": mk_mat(np, v["rows"], ct["bitstrings_vector"], aux, "bitstrings_vector")}
        return a, [("check_parity", lambda a: P.check_parity(a["bitstring"], a["marked_qubits"])),
                   ("check_parity_of_vector", lambda a: P.check_parity_of_vector(a["bitstrings_vector"], a["marked_qubits"])),
                   ("convert_bitstring_to_int", lambda a: convert_bitstring_to_int(a["bitstring"]))]
    return {"slots": {"bitstring": ["list", "tuple", "str", "i64", "ro:i64", "npints"],
                      "marked_qubits": ["list", "tuple", "set", "frozenset", "npints", "range"],
                      "bitstrings_vector": ["C:i64", "F:i64", "ro:C:i64", "ro:F:i64", "st:C:i64"]}, "gen": gen, "build": build}


def _fam_expvals():
    def gen(rng, ct):
        n = rng.randrange(1, 4)
        cplx = ct["values"].endswith("c128")
        vals = [[rat(_dy(rng, nonzero=False)), rat(_dy(rng, nonzero=False)) if cplx else 0] for _ in range(n)]
        corr = [[rat(_dy(rng, nonzero=False)) for _ in range(n)] for _ in range(n)]
        par = [[rng.randrange(0, 60), rng.randrange(1, 60)] for _ in range(n)]
        return {"values": vals, "corr": corr, "terms": [_gen_term(rng, 3) for _ in range(n)], "par": par}

    def build(L, v, ct, aux, tmp):
        np = L.np
        from orquestra.quantum.measurements import expectation_values as E
        from orquestra.quantum.measurements import parities as P
        from orquestra.quantum.operators import _utils as U
        vals = mk_vec(np, _amps_py(v["values"]), ct["values"], aux, "values")
        cm = lambda nm: mk_mat(np, [[_f(x) for x in r] for r in v["corr"]], ct["matrix"], aux, nm)  # noqa: E731
        ev2 = E.ExpectationValues(np.array([0.5]), [np.array([[1.0]])], [np.array([[0.25]])])
        a = {"values": vals, "correlations": mk_seq(np, [cm("corr")], ct["frames"]), "estimator_covariances": mk_seq(np, [cm("cov")], ct["frames"]),
             "parity_values": mk_mat(np, v["par"], ct["parities"], aux, "parities"),
             "parity_correlations": mk_seq(np, [np.zeros((len(v["par"]),) * 2 + (2,))], ct["frames"]),
             "expectation_values": Derived(lambda a: E.ExpectationValues(a["values"], a["correlations"], a["estimator_covariances"])),
             "expectation_values_set": Derived(lambda a: mk_seq(np, [a["expectation_values"], ev2, a["expectation_values"]], ct["set"])),
             "operator": _sum_py(L, v["terms"]),
             "operator_list": mk_seq(np, [_sum_py(L, v["terms"][:1]), _sum_py(L, v["terms"][1:])], ct["set"]),
             "parities": Derived(lambda a: P.Parities(a["parity_values"], a["parity_correlations"]))}
        return a, [("ExpectationValues.to_dict", lambda a: a["expectation_values"].to_dict()),
                   ("ExpectationValues.from_dict", lambda a: E.ExpectationValues.from_dict(a["expectation_values"].to_dict())),
                   ("concatenate_expectation_values", lambda a: E.concatenate_expectation_values(a["expectation_values_set"])),
                   ("evaluate_operator", lambda a: float(U.evaluate_operator(a["operator"], a["expectation_values"]))),
                   ("evaluate_operator_list", lambda a: float(U.evaluate_operator_list(a["operator_list"], a["expectation_values"]))),
                   ("Parities.to_dict", lambda a: a["parities"].to_dict()),
                   ("get_expectation_values_from_parities", lambda a: E.get_expectation_values_from_parities(a["parities"]))]
    return {"slots": {"values": ["f64", "ro:f64", "st:f64", "c128", "ro:c128"], "matrix": ["C:f64", "F:f64", "ro:C:f64", "ro:F:f64"],
                      "frames": SEQS, "set": SEQS, "parities": ["C:i64", "F:i64", "ro:C:i64", "C:f64"]},
            "gen": gen, "build": build}


def _fam_wf():
    def gen(rng, ct):
        a = _gen_amps(rng, ct["amplitude_vector"])
        nq = len(a).bit_length() - 1
        return {"a": a, "term": _gen_term(rng, maxq=nq), "n": rng.randrange(1, 12), "seed": rng.randrange(2 ** 31)}

    def build(L, v, ct, aux, tmp):
        np, W, O = L.np, L.wfm, L.ops
        amps = mk_vec(np, _amps_py(v["a"]), ct["amplitude_vector"], aux, "amplitude_vector")
        a = {"amplitude_vector": amps, "wavefunction": Derived(lambda a: W.Wavefunction(a["amplitude_vector"])), "operator": _term_py(L, v["term"])}
        f = os.path.join(tmp, "w.json")

        def save(a):
            W.save_wavefunction(a["wavefunction"], f)
            return open(f).read()
        return a, [("Wavefunction", lambda a: W.Wavefunction(a["amplitude_vector"])),
                   ("flip_amplitudes", lambda a: W.flip_amplitudes(a["amplitude_vector"])),
                   ("get_probabilities", lambda a: a["wavefunction"].get_probabilities()),
                   ("get_outcome_probs", lambda a: a["wavefunction"].get_outcome_probs()),
                   ("flip_wavefunction", lambda a: W.flip_wavefunction(a["wavefunction"])),
                   ("sample_from_wavefunction", lambda a: W.sample_from_wavefunction(a["wavefunction"], v["n"], v["seed"])),
                   ("get_expectation_value", lambda a: complex(O.get_expectation_value(a["operator"], a["wavefunction"]))),
                   ("save_wavefunction", save),
                   ("Wavefunction.get_probabilities", lambda a: W.Wavefunction(a["amplitude_vector"]).get_probabilities())]
    return {"slots": {"amplitude_vector": VEC_C}, "gen": gen, "build": build}


def _fam_arraydict():
    def gen(rng, ct):
        n = rng.choice([2, 3])
        cplx = ct["array"].endswith("c128")
        return {"m": [[[rat(_dy(rng, nonzero=False)), rat(_dy(rng, nonzero=False)) if cplx else 0] for _ in range(n)] for _ in range(n)]}

    def build(L, v, ct, aux, tmp):
        np = L.np
        from orquestra.quantum import utils as U
        rows = [[_cx(x) for x in r] for r in v["m"]]
        re_ = [[complex(x).real for x in r] for r in rows]
        im = [[complex(x).imag for x in r] for r in rows]
        inner = ct["dictionary"].split("/")
        cv = (lambda m: mk_mat(np, m, inner[1], aux, "dictionary.part")) if len(inner) > 1 else (lambda m: m)
        a = {"array": mk_mat(np, rows, ct["array"], aux, "array"),
             "dictionary": mk_map([("real", cv(re_)), ("imag", cv(im))], inner[0], aux, "dictionary")}
        return a, [("convert_array_to_dict", lambda a: U.convert_array_to_dict(a["array"])),
                   ("convert_dict_to_array", lambda a: U.convert_dict_to_array(a["dictionary"]))]
    return {"slots": {"array": ["C:c128", "F:c128", "ro:C:c128", "ro:F:c128", "C:f64", "F:f64", "st:C:c128"],
                      "dictionary": ["dict", "odict", "proxy", "dict/tuples"]},
            "gen": gen, "build": build}


_SYMVECS = [["cos(theta)", "sin(theta)"], ["cos(theta)", "I*sin(theta)"], ["cos(theta)", "0", "0", "sin(theta)"],
            ["1/2", "1/2", "sqrt(2)*cos(phi)/2", "sqrt(2)*sin(phi)/2"], ["cos(theta)*cos(phi)", "cos(theta)*sin(phi)", "sin(theta)", "0"]]


def _gen_map(rng, which=None):
    which = which if which is not None else rng.choice([SYMS, SYMS[:1], SYMS[1:], []])
    return [[s, rat(_dy(rng, 4, -6, 6, False))] for s in which]


def _map_py(L, m, ct, aux, name, vt="float"):
    pairs = [(L.sympy.Symbol(s), (int(_fr(x)) if (vt == "int" and _fr(x).denominator == 1) else _f(x))) for s, x in m]
    return mk_map(pairs, ct, aux, name)


def _fam_wf_bind():
    def gen(rng, ct):
        return {"exprs": rng.choice(_SYMVECS), "map": _gen_map(rng), "seq": rng.choice(["list", "tuple"])}

    def build(L, v, ct, aux, tmp):
        loc = {n: L.sympy.Symbol(n) for n in SYMS}
        vec = mk_seq(L.np, [L.sympy.sympify(e, locals=loc) for e in v["exprs"]], v["seq"])
        a = {"amplitude_vector": vec, "wavefunction": Derived(lambda a: L.wfm.Wavefunction(a["amplitude_vector"])),
             "symbol_map": _map_py(L, v["map"], ct["symbol_map"], aux, "symbol_map")}
        return a, [("bind", lambda a: a["wavefunction"].bind(a["symbol_map"])),
                   ("get_probabilities", lambda a: a["wavefunction"].get_probabilities()),
                   ("bind.get_probabilities", lambda a: a["wavefunction"].bind(a["symbol_map"]).get_probabilities()),
                   ("Wavefunction", lambda a: L.wfm.Wavefunction(a["amplitude_vector"]))]
    return {"slots": {"symbol_map": MAPS}, "gen": gen, "build": build}


def _fam_circ_new():
    def gen(rng, ct):
        nq = rng.choice([1, 2, 3])
        return {"ops": [_gen_gop(rng, nq, sym=True) for _ in range(rng.randrange(1, 5))], "nq": rng.choice([None, nq, nq + 1])}

    def build(L, v, ct, aux, tmp):
        C = L.circuits
        ops = [_gop_py(L, o) for o in v["ops"]]
        a = {"operations": mk_seq(L.np, ops, ct["operations"])}
        a["circuit"] = Derived(lambda a: C.Circuit(a["operations"], v["nq"]) if v["nq"] else C.Circuit(a["operations"]))
        a["circuitset"] = Derived(lambda a: [a["circuit"], C.Circuit(a["operations"])])
        f = os.path.join(tmp, "c.json")

        def saveset(a):
            C.save_circuitset(a["circuitset"], f)
            return open(f).read()
        return a, [("Circuit", lambda a: C.Circuit(a["operations"], v["nq"]) if v["nq"] else C.Circuit(a["operations"])),
                   ("to_dict", lambda a: C.to_dict(a["circuit"])),
                   ("inverse", lambda a: a["circuit"].inverse()),
                   ("__add__", lambda a: a["circuit"] + a["circuit"]),
                   ("to_dict(circuitset)", lambda a: C.to_dict(a["circuitset"])),
                   ("save_circuitset", saveset),
                   ("circuit_from_dict(to_dict)", lambda a: C.circuit_from_dict(C.to_dict(a["circuit"])))]
    return {"slots": {"operations": SEQS + ["objarr"]}, "gen": gen, "build": build}


def _fam_bind():
    def gen(rng, ct):
        nq = rng.choice([1, 2])
        ops = [_gen_gop(rng, nq, sym=True) for _ in range(rng.randrange(1, 4))]
        ops.append({"g": "RX", "p": [{"sym": rng.choice(SYMS)}], "q": [0]})
        return {"ops": ops, "map": _gen_map(rng), "vt": rng.choice(["float", "float", "int"]),
                "phases": [rng.choice([{"sym": rng.choice(SYMS)}, rat(_dy(rng, 4, -6, 6, False))]) for _ in range(2)]}

    def build(L, v, ct, aux, tmp):
        C = L.circuits
        ops = [_gop_py(L, o) for o in v["ops"]]
        mph = C.MultiPhaseOperation(tuple(L.sympy.Symbol(p["sym"]) if isinstance(p, dict) else _f(p) for p in v["phases"]))
        a = {"circuit": C.Circuit(ops + [mph]), "operation": ops[-1], "gate": ops[-1].gate, "multiphase": mph,
             "symbols_map": _map_py(L, v["map"], ct["symbols_map"], aux, "symbols_map", v["vt"])}
        return a, [("Circuit.bind", lambda a: a["circuit"].bind(a["symbols_map"])),
                   ("GateOperation.bind", lambda a: a["operation"].bind(a["symbols_map"])),
                   ("Gate.bind", lambda a: a["gate"].bind(a["symbols_map"])),
                   ("MultiPhaseOperation.bind", lambda a: a["multiphase"].bind(a["symbols_map"])),
                   ("Circuit.bind.free_symbols", lambda a: [str(s) for s in a["circuit"].bind(a["symbols_map"]).free_symbols])]
    return {"slots": {"symbols_map": MAPS + ["ddict"]}, "gen": gen, "build": build}


def _fam_apply():
    def gen(rng, ct):
        a = _gen_amps(rng, ct["amplitude_vector"])
        nq = len(a).bit_length() - 1
        return {"a": a, "ops": [_gen_gop(rng, nq) for _ in range(rng.randrange(1, 4))],
                "phases": [rat(_dy(rng, 4, -6, 6, False)) for _ in range(len(a))]}

    def build(L, v, ct, aux, tmp):
        C = L.circuits
        from orquestra.quantum.runners.symbolic_simulator import SymbolicSimulator
        ops = [_gop_py(L, o) for o in v["ops"]]
        mph = C.MultiPhaseOperation(tuple(_f(p) for p in v["phases"]))
        nq = len(v["a"]).bit_length() - 1
        a = {"amplitude_vector": mk_vec(L.np, _amps_py(v["a"]), ct["amplitude_vector"], aux, "amplitude_vector"), "operation": ops[0],
             "multiphase": mph, "circuit": C.Circuit(ops + [mph], nq)}
        sim = SymbolicSimulator()

        def simulate(a):
            return sim.get_wavefunction(a["circuit"], initial_state=a["amplitude_vector"])
        return a, [("GateOperation.apply", lambda a: a["operation"].apply(a["amplitude_vector"])),
                   ("MultiPhaseOperation.apply", lambda a: a["multiphase"].apply(a["amplitude_vector"])),
                   ("SymbolicSimulator.get_wavefunction(initial_state)", simulate),
                   ("GateOperation.lifted_matrix", lambda a: a["operation"].lifted_matrix(nq))]
    return {"slots": {"amplitude_vector": VEC_C}, "gen": gen, "build": build}


def _fam_mphase():
    def gen(rng, ct):
        n = rng.choice([2, 4])
        ints = ct["params"].endswith("i64")
        return {"params": [rat(_dy(rng, 1 if ints else 4, -6, 6, False)) for _ in range(n)], "a": [[rat(Fraction(1, 2) if n == 4 else Fraction(3, 5)), 0]] * (n - 1)
                + [[0, rat(Fraction(1, 2) if n == 4 else Fraction(4, 5))]]}

    def build(L, v, ct, aux, tmp):
        C, np = L.circuits, L.np
        a = {"params": mk_vec(np, [_f(p) for p in v["params"]], ct["params"], aux, "params"),
             "amplitude_vector": np.array(_amps_py(v["a"]), dtype=complex)}
        a["operation"] = Derived(lambda a: C.MultiPhaseOperation(a["params"]))
        return a, [("MultiPhaseOperation", lambda a: C.MultiPhaseOperation(a["params"]).apply(a["amplitude_vector"])),
                   ("apply", lambda a: a["operation"].apply(a["amplitude_vector"])),
                   ("bind", lambda a: a["operation"].bind({L.sympy.Symbol("theta"): 0.5}).apply(a["amplitude_vector"])),
                   ("replace_params", lambda a: a["operation"].replace_params(a["params"]).apply(a["amplitude_vector"])),
                   ("free_symbols", lambda a: [str(s) for s in a["operation"].free_symbols]),
                   ("qubit_indices", lambda a: list(a["operation"].qubit_indices))]
    return {"slots": {"params": ["tuple", "list", "f64", "ro:f64", "st:f64", "ro:st:f64", "i64", "f32", "npfloats"]}, "gen": gen, "build": build}


def _fam_gop():
    def gen(rng, ct):
        two = rng.random() < 0.6
        return {"g": rng.choice(["CPHASE", "XX"] if two else ["RX", "RZ", "PHASE"]), "p": rat(_dy(rng, 4, -6, 6, False)),
                "p2": rat(_dy(rng, 4, -6, 6, False)), "q": rng.sample(range(3), 2 if two else 1), "a": _gen_amps(rng, "c128")}

    def build(L, v, ct, aux, tmp):
        C, np = L.circuits, L.np
        gate = C.builtin_gate_by_name(v["g"])(_f(v["p"]))
        nq = 3
        a = {"qubit_indices": mk_ints(np, v["q"], ct["qubit_indices"], aux, "qubit_indices"),
             "new_params": mk_vec(np, [_f(v["p2"])], ct["new_params"], aux, "new_params"), "gate": gate}
        a["operation"] = Derived(lambda a: L.gates.GateOperation(a["gate"], a["qubit_indices"]))
        vec = np.zeros(2 ** nq, dtype=complex)
        vec[1], vec[6] = 0.6, 0.8j
        return a, [("lifted_matrix", lambda a: a["operation"].lifted_matrix(nq)),
                   ("apply", lambda a: a["operation"].apply(vec)),
                   ("replace_params", lambda a: [str(a["operation"].replace_params(a["new_params"])), list(a["gate"].replace_params(a["new_params"]).params)]),
                   ("str", lambda a: str(a["operation"])),
                   ("to_dict", lambda a: C.to_dict(a["operation"]))]
    return {"slots": {"qubit_indices": ["tuple", "list", "nptuple", "i64", "ro:i64"], "new_params": ["tuple", "list", "f64", "ro:f64", "npfloats"]},
            "gen": gen, "build": build}


def _fam_circ_from_dict():
    def gen(rng, ct):
        nq = rng.choice([1, 2, 3])
        return {"ops": [_gen_gop(rng, nq, sym=True) for _ in range(rng.randrange(1, 5))]}

    def build(L, v, ct, aux, tmp):
        C = L.circuits
        c = C.Circuit([_gop_py(L, o) for o in v["ops"]])
        d = C.to_dict(c)
        inner = ct["dict_"].split("/")
        if len(inner) > 1:   # the lists inside as tuples
            d = _tuplify(d)
        a = {"dict_": mk_map(list(d.items()), inner[0], aux, "dict_")}
        a["set_dict"] = mk_map([("circuits", [a["dict_"], dict(d)])], inner[0], aux, "set_dict")
        return a, [("circuit_from_dict", lambda a: C.circuit_from_dict(a["dict_"])),
                   ("circuitset_from_dict", lambda a: C.circuitset_from_dict(a["set_dict"]))]
    return {"slots": {"dict_": ["dict", "odict", "proxy", "dict/tuples"]}, "gen": gen, "build": build}


def _tuplify(x):
    if isinstance(x, dict):
        return {k: _tuplify(v) for k, v in x.items()}
    if isinstance(x, list):
        return tuple(_tuplify(v) for v in x)
    return x


def _fam_custom_gate():
    def gen(rng, ct):
        return {"p": rat(_dy(rng, 4, -6, 6, False)), "map": _gen_map(rng, SYMS[:1])}

    def build(L, v, ct, aux, tmp):
        C, sp = L.circuits, L.sympy
        th, ga = sp.Symbol("theta"), sp.Symbol("gamma")
        mt = {"mutable": sp.Matrix, "immutable": sp.ImmutableMatrix}[ct["matrix"]]
        m = mt([[sp.cos(ga), -sp.sin(ga)], [sp.sin(ga), sp.cos(ga)]])
        a = {"matrix": m, "params_ordering": mk_seq(L.np, [ga], ct["params_ordering"])}
        a["definition"] = Derived(lambda a: C.CustomGateDefinition("rot_c20", a["matrix"], a["params_ordering"]))
        a["symbols_map"] = _map_py(L, v["map"], "dict", aux, "symbols_map")
        return a, [("CustomGateDefinition", lambda a: str(C.CustomGateDefinition("rot_c20", a["matrix"], a["params_ordering"])(th).matrix)),
                   ("__call__.matrix", lambda a: str(a["definition"](_f(v["p"])).matrix)),
                   ("__call__(symbol).bind.matrix", lambda a: str(a["definition"](th).bind(a["symbols_map"]).matrix)),
                   ("to_dict", lambda a: C.to_dict(C.Circuit([a["definition"](th)(0)]))),
                   ("circuit_from_dict(to_dict)", lambda a: C.circuit_from_dict(C.to_dict(C.Circuit([a["definition"](_f(v["p"]))(1)]))))]
    return {"slots": {"matrix": ["mutable", "immutable"], "params_ordering": ["tuple", "list"]}, "gen": gen, "build": build}


def _fam_term_new():
    def gen(rng, ct):
        t = _gen_term(rng, 4)
        if rng.random() < 0.6:   # an explicit identity factor on another qubit (accepted and dropped by the constructor)
            t["ops"].insert(rng.randrange(len(t["ops"]) + 1), [rng.choice([q for q in range(6) if q not in [x[0] for x in t["ops"]]]), "I"])
        return {"t": t, "u": _gen_term(rng, 4)}

    def build(L, v, ct, aux, tmp):
        O, np = L.ops, L.np
        cf = _cx(v["t"]["coef"])
        zero_d = lambda c: np.array(c, dtype=complex if isinstance(c, complex) else float)  # noqa: E731

        def ro(x):
            x.setflags(write=False)
            return x
        cf = {"float": lambda c: c, "int": lambda c: int(c.real) if complex(c).imag == 0 and float(complex(c).real).is_integer() else c,
              "complex": complex, "npfloat": lambda c: np.float64(c) if not isinstance(c, complex) else np.complex128(c),
              "npcomplex": np.complex128, "0d": zero_d, "ro:0d": lambda c: ro(zero_d(c)), "0d:c128": lambda c: np.array(c, dtype=complex)
              }[ct["coefficient"]](cf)
        ops = [(int(q), p) for q, p in v["t"]["ops"]]
        a = {"operator": mk_map(ops, ct["operator"], aux, "operator"), "terms": mk_seq(np, [(p, q) for q, p in ops], ct["terms"]),
             "coefficient": cf, "other": _term_py(L, v["u"])}
        a["term"] = Derived(lambda a: O.PauliTerm(a["operator"], a["coefficient"]))
        return a, [("PauliTerm", lambda a: O.PauliTerm(a["operator"], a["coefficient"])),
                   ("PauliTerm.from_iterable", lambda a: O.PauliTerm.from_iterable(a["terms"], a["coefficient"])),
                   ("copy", lambda a: a["term"].copy()),
                   ("__mul__", lambda a: a["term"] * a["other"]),
                   ("__add__", lambda a: a["term"] + a["other"]),
                   ("__pow__", lambda a: a["term"] ** 3),
                   ("hermitian_conjugated", lambda a: O.hermitian_conjugated(a["term"])),
                   ("convert_op_to_dict", lambda a: O.convert_op_to_dict(a["term"])),
                   ("circuit", lambda a: a["term"].circuit),
                   ("repr/hash", lambda a: [repr(a["term"]), hash(a["term"])])]
    return {"slots": {"operator": MAPS + ["ddict"], "terms": SEQS,
                      # (0-d arrays "0d" / "ro:0d" / "0d:c128" are outside the domain: hash() of such a term raises, convert_op_to_dict
                      #  hands out a VIEW of the coefficient - see ASSUMPTIONS of c20.py)
                      "coefficient": ["float", "int", "complex", "npfloat", "npcomplex"]}, "gen": gen, "build": build}


def _fam_sum():
    def gen(rng, ct):
        n = rng.randrange(1, 4)
        ts = [_gen_term(rng, 3) for _ in range(n)]
        if n >= 2 and rng.random() < 0.5:
            ts[1] = {"ops": ts[0]["ops"], "coef": ts[1]["coef"]}   # like terms
        return {"ts": ts, "u": _gen_term(rng, 3), "c": rat(_dy(rng)), "a": _gen_amps(rng, "c128")}

    def build(L, v, ct, aux, tmp):
        O, np = L.ops, L.np
        terms = mk_seq(np, [_term_py(L, t) for t in v["ts"]], ct["terms"])
        a = {"terms": terms, "other": _term_py(L, v["u"]), "sum": Derived(lambda a: O.PauliSum(a["terms"])),
             "operator_set": Derived(lambda a: mk_seq(np, [a["sum"], O.PauliSum([a["other"]])], ct["operator_set"]))}
        f = os.path.join(tmp, "o.json")

        def saveset(a):
            O.save_operator_set(a["operator_set"], f)
            return open(f).read()

        def save(a):
            O.save_operator(a["sum"], f)
            return open(f).read()
        return a, [("PauliSum", lambda a: O.PauliSum(a["terms"])),
                   ("__add__", lambda a: a["sum"] + a["other"]),
                   ("__mul__", lambda a: a["sum"] * a["sum"]),
                   ("__rmul__", lambda a: _f(v["c"]) * a["sum"]),
                   ("__sub__", lambda a: a["sum"] - a["other"]),
                   ("__truediv__", lambda a: a["sum"] / 2.0),
                   ("__pow__", lambda a: a["sum"] ** 2),
                   ("simplify", lambda a: a["sum"].simplify()),
                   ("hermitian_conjugated", lambda a: O.hermitian_conjugated(a["sum"])),
                   ("convert_op_to_dict", lambda a: O.convert_op_to_dict(a["sum"])),
                   ("get_pauli_strings", lambda a: O.get_pauli_strings(a["sum"])),
                   ("get_sparse_operator", lambda a: O.get_sparse_operator(a["sum"], 3)),
                   ("reverse_qubit_order", lambda a: O.reverse_qubit_order(a["sum"], 3)),
                   ("circuits", lambda a: a["sum"].circuits),
                   ("props", lambda a: [a["sum"].n_qubits, sorted(a["sum"].qubits), bool(a["sum"].is_ising), bool(a["sum"].is_constant), len(a["sum"]),
                                        hash(a["sum"]), repr(a["sum"]), bool(a["sum"] == a["sum"])]),
                   ("save_operator", save), ("save_operator_set", saveset),
                   ("convert_dict_to_op(convert_op_to_dict)", lambda a: O.convert_dict_to_op(O.convert_op_to_dict(a["sum"])))]
    return {"slots": {"terms": SEQS, "operator_set": SEQS + ["objarr"]}, "gen": gen, "build": build}


def _fam_op_from_dict():
    def gen(rng, ct):
        return {"ts": [_gen_term(rng, 3) for _ in range(rng.randrange(1, 4))]}

    def build(L, v, ct, aux, tmp):
        O = L.ops
        d = O.convert_op_to_dict(_sum_py(L, v["ts"]))
        inner = ct["dictionary"].split("/")
        if len(inner) > 1:
            d = _tuplify(d)
        a = {"dictionary": mk_map(list(d.items()), inner[0], aux, "dictionary")}
        return a, [("convert_dict_to_op", lambda a: O.convert_dict_to_op(a["dictionary"]))]
    return {"slots": {"dictionary": ["dict", "odict", "proxy", "dict/tuples"]}, "gen": gen, "build": build}


def _fam_op_from_matrix():
    def gen(rng, ct):
        n = rng.choice([2, 2, 4])
        real = ct["operator"].split(":")[-1] in ("f64", "f32")
        return {"m": [[[rat(_dy(rng, nonzero=False)), 0 if real else rat(_dy(rng, nonzero=False))] for _ in range(n)] for _ in range(n)],
                "coeffs": [rat(_dy(rng)) for _ in range(2)], "labels": [[rng.randrange(4) for _ in range(3)] for _ in range(2)]}

    def build(L, v, ct, aux, tmp):
        np = L.np
        from orquestra.quantum.operators import _utils as U
        rows = [[_cx(x) for x in r] for r in v["m"]]
        a = {"operator": mk_mat(np, rows, ct["operator"], aux, "operator"),
             "coeffs": mk_vec(np, [_f(c) for c in v["coeffs"]], ct["coeffs"], aux, "coeffs"),
             "labels": mk_mat(np, v["labels"], ct["labels"], aux, "labels")}
        return a, [("get_pauliop_from_matrix", lambda a: U.get_pauliop_from_matrix(a["operator"])),
                   ("get_pauliop_from_coeffs_and_labels", lambda a: U.get_pauliop_from_coeffs_and_labels(a["coeffs"], a["labels"]))]
    return {"slots": {"operator": ["nested", "tuples", "rows", "C:c128", "F:c128", "ro:C:c128", "ro:F:c128", "st:C:c128", "C:f64", "F:f64", "ro:F:f64"],
                      "coeffs": ["list", "tuple", "f64", "ro:f64", "st:f64", "npfloats"],
                      "labels": ["nested", "tuples", "C:i64", "F:i64", "ro:C:i64", "ro:F:i64"]}, "gen": gen, "build": build}


def _fam_sparse_expect():
    def gen(rng, ct):
        a = _gen_amps(rng, ct["state"])
        nq = len(a).bit_length() - 1
        return {"a": a, "ts": [_gen_term(rng, nq) for _ in range(rng.randrange(1, 3))]}

    def build(L, v, ct, aux, tmp):
        from orquestra.quantum.operators._openfermion_utils.sparse_tools import expectation, get_sparse_operator
        nq = len(v["a"]).bit_length() - 1
        a = {"state": mk_vec(L.np, _amps_py(v["a"]), ct["state"], aux, "state"), "operator": _sum_py(L, v["ts"])}
        a["sparse"] = get_sparse_operator(a["operator"], n_qubits=nq)
        return a, [("expectation", lambda a: complex(expectation(a["sparse"], a["state"]))),
                   ("get_sparse_operator", lambda a: get_sparse_operator(a["operator"], n_qubits=nq))]
    return {"slots": {"state": ["c128", "ro:c128", "st:c128", "ro:st:c128", "f64", "ro:f64", "c64", "i64"]}, "gen": gen, "build": build}


FAMILIES = {
    "dist_sub": _fam_dist_sub(), "distance": _fam_distance(), "dist_new": _fam_dist_new(), "dist_probs": _fam_dist_probs(),
    "dist_save": _fam_dist_save(), "meas": _fam_meas(), "counts": _fam_counts(), "parity": _fam_parity(), "expvals": _fam_expvals(),
    "wf": _fam_wf(), "arraydict": _fam_arraydict(), "wf_bind": _fam_wf_bind(), "circ_new": _fam_circ_new(), "bind": _fam_bind(),
    "apply": _fam_apply(), "mphase": _fam_mphase(), "gop": _fam_gop(), "circ_from_dict": _fam_circ_from_dict(),
    "custom_gate": _fam_custom_gate(), "term_new": _fam_term_new(), "sum": _fam_sum(), "op_from_dict": _fam_op_from_dict(),
    "op_from_matrix": _fam_op_from_matrix(), "sparse_expect": _fam_sparse_expect(),
}


NO_EDIT = {"PauliSum", "circuit", "concatenate_expectation_values"}


def baseline(fam):
    return {s: vs[0] for s, vs in FAMILIES[fam]["slots"].items()}


# ------------------------------------------------------------------ running one case
def run_case(L, case):
    import tempfile
    import warnings
    H = _H()
    fam = FAMILIES[case["op"]]
    ct = {**baseline(case["op"]), **case["ct"]}
    out = {"containers": True, "calls": []}
    with tempfile.TemporaryDirectory(prefix="c20c_") as tmp, warnings.catch_warnings():
        warnings.simplefilter("ignore")
        aux, keep = {}, []
        args, calls = fam["build"](L, case["v"], ct, aux, tmp)
        # the receivers are built by the library from the raw arguments: the raw arguments must come out unchanged
        raw = {k: v for k, v in args.items() if not isinstance(v, Derived)}
        for name in [k for k, v in args.items() if isinstance(v, Derived)]:
            before = _snap_args(L, raw, aux, keep)
            res, msg = _guard(args[name].fn, args)
            after = _snap_args(L, raw, aux, keep)
            rec = {"label": f"constructing the {name} from the arguments", "res": res[1] if res[0] != "ok" else "ok"}
            if msg is not None:
                rec["msg"] = msg
            if after != before:
                rec["changed"] = {"on_call": 1, "where": _where(before, after)}
            out["calls"].append(rec)
            if res[0] != "ok" or "changed" in rec:
                return out
            args[name] = res[1]
        snap0 = _snap_args(L, args, aux, keep)
        first = None
        plan = [(lb, fn, False) for lb, fn in calls] + [(calls[0][0], calls[0][1], True)]
        for label, fn, at_end in plan:
            rec = {"label": label + (" (asked again at the end)" if at_end else "")}
            outcomes = []
            for nth in (1, 2):
                L.np.random.seed(12345)
                res, msg = _guard(fn, args)
                if msg is not None:
                    rec.setdefault("msg", msg)
                snap = _snap_args(L, args, aux, keep)
                if snap != snap0 and "changed" not in rec:
                    rec["changed"] = {"on_call": nth, "where": _where(snap0, snap)}
                outcomes.append(res)
                if at_end:
                    break
            s1 = _rsnap(L, outcomes[0])
            rec["res"] = outcomes[0][1] if outcomes[0][0] != "ok" else "ok"
            if len(outcomes) == 2:
                s2 = _rsnap(L, outcomes[1])
                if s1 != s2:
                    rec["twice"] = {"first": common.canon(s1)[:300], "second": common.canon(s2)[:300]}
            if first is None:
                first = s1
            elif at_end and s1 != first:
                rec["replay"] = {"first": common.canon(first)[:300], "at_end": common.canon(s1)[:300]}
            # the caller edits what the call returned (top-level containers / arrays): no argument may change with it.  Not edited:
            # the result of a constructor that keeps the caller's container by design (PauliSum(terms)), an operator's cached
            # circuit, and the frames of concatenate_expectation_values (the arrays inside its lists are the arguments' arrays:
            # second-level objects, which a result may share)
            if not at_end and outcomes[-1][0] == "ok" and "changed" not in rec:
                r = outcomes[-1][1]
                if label not in NO_EDIT and (H._poison(L, r) or H._poison_object(L, r)):
                    snap = _snap_args(L, args, aux, keep)
                    if snap != snap0:
                        rec["shares"] = _where(snap0, snap)
            out["calls"].append(rec)
            if any(k in rec for k in ("changed", "shares")):
                break   # the arguments are no longer what the case says
    return out


def oracle(case, out):
    op = case["op"]
    ct = {**baseline(op), **case["ct"]}
    what = f"family {op}, arguments given as {ct}, values {common.canon(case['v'])[:400]}"
    for rec in out["calls"]:
        lb = rec["label"]
        if "changed" in rec:
            return (f"mutates-container:{op}", f"{lb} modified its arguments (call #{rec['changed']['on_call']}): {rec['changed']['where']}; {what}")
        if "shares" in rec:
            return (f"shares-container:{op}", f"{lb} returned data shared with its arguments: editing the RESULT in place changed "
                    f"{rec['shares']}; {what}")
        if "twice" in rec:
            return (f"unrepeatable-container:{op}", f"{lb} made twice on the same arguments gave different results: {rec['twice']}; {what}")
        if "replay" in rec:
            return (f"unrepeatable-container:{op}", f"{lb} gave another result than the first time, with only value-returning calls on "
                    f"the same arguments in between: {rec['replay']}; {what}")
        if rec.get("msg") and _WRITE_ATTEMPT.search(rec["msg"]):
            return (f"writes-container:{op}", f"{lb} tried to WRITE to an argument that is read-only / immutable ({rec['msg']}); {what}")
        if isinstance(rec["res"], str) and rec["res"].startswith("exc:"):
            return (f"raise-container:{op}", f"{lb} raised {rec.get('msg')}; {what}")
    return None


# ------------------------------------------------------------------ generation
def gen_case(rng, op, ct_over):
    ct = {**baseline(op), **ct_over}
    return {"kind": "containers", "op": op, "ct": dict(ct_over), "v": FAMILIES[op]["gen"](rng, ct)}


def generate(rng, big):
    """EVERY (family, slot, container type) once with the other slots at their first type, plus random combinations"""
    cases = []
    for op, fam in FAMILIES.items():
        for slot, variants in fam["slots"].items():
            for vt in variants:
                cases.append(gen_case(rng, op, {slot: vt}))
        reps = (12 if big else 4) * max(1, len(fam["slots"]))
        for _ in range(reps):
            cases.append(gen_case(rng, op, {s: rng.choice(vs) for s, vs in fam["slots"].items()}))
    return cases


def corpus():
    return [
        # the bandwidths of the multi-kernel MMD as a float64 array inside the parameter dictionary (np.asarray(.., dtype=float) aliases it)
        {"kind": "containers", "op": "distance", "ct": {"sigma": "f64"},
         "v": {"p": [[[0, 0, 0], "1/2"], [[1, 1, 1], "1/4"], [[0, 1, 0], "1/4"]], "q": [[[0, 0, 0], "1/8"], [[1, 1, 1], "1/2"], [[0, 0, 1], "3/8"]],
               "sigma": ["1/4", 1, 4], "eps": "1/1000000000", "fns": ["mmd", "jsd", "cnll"], "via": "eval"}},
        # qubit indices as an int64 array, a read-only one, a range
        {"kind": "containers", "op": "dist_sub", "ct": {"qubits": "ro:i64"},
         "v": {"d": [[[0, 1, 1], "1/4"], [[1, 0, 1], "1/2"], [[1, 1, 1], "1/4"]], "qs": [2, 0], "normalize": True}},
        # a complex128 state vector (read-only, strided) under gate application / the simulator
        {"kind": "containers", "op": "apply", "ct": {"amplitude_vector": "ro:st:c128"},
         "v": {"a": [["3/5", 0], [0, "4/5"], [0, 0], [0, 0]], "ops": [{"g": "H", "p": [], "q": [1]}, {"g": "CNOT", "p": [], "q": [0, 1]}],
               "phases": ["1/4", "-1/2", 1, 0]}},
    ]


def nontrivial(case):
    return bool(case["ct"])


def distribution(cases, outs):
    by_fam, by_type, calls, rej = {}, {}, 0, {}
    for c, o in zip(cases, outs):
        if c.get("kind") != "containers":
            continue
        by_fam[c["op"]] = by_fam.get(c["op"], 0) + 1
        for s, t in c["ct"].items():
            key = re.sub(r"^.*/", "", t) if "/" in t else t
            by_type[key] = by_type.get(key, 0) + 1
        for rec in (o.get("calls") or []) if isinstance(o, dict) else []:
            calls += 1
            if isinstance(rec.get("res"), str) and rec["res"] != "ok":
                rej[rec["res"]] = rej.get(rec["res"], 0) + 1
    return {"container_cases_by_family": by_fam, "container_types_used": dict(sorted(by_type.items())), "container_calls": calls,
            "container_rejections": rej}


# ------------------------------------------------------------------ survey: which container types does the library accept
def survey(seeds=4):
    import random
    H = _H()
    L = H._lib()
    bad = {}
    for op, fam in FAMILIES.items():
        for slot, variants in fam["slots"].items():
            for vt in variants:
                for sd in range(seeds):
                    rng = random.Random(f"survey:{op}:{slot}:{vt}:{sd}")
                    case = gen_case(rng, op, {slot: vt})
                    try:
                        out = run_case(L, case)
                    except Exception as e:   # noqa: BLE001
                        bad.setdefault((op, slot, vt), set()).add(f"HARNESS {type(e).__name__}: {e}"[:160])
                        continue
                    for rec in out["calls"]:
                        if rec["res"] != "ok" or any(k in rec for k in ("changed", "shares", "twice", "replay")):
                            bad.setdefault((op, slot, vt), set()).add(
                                f"{rec['label']}: {rec['res']} {rec.get('msg', '')} " + " ".join(f"{k}={rec[k]}" for k in ("changed", "shares", "twice", "replay") if k in rec))
    for op, fam in FAMILIES.items():
        for slot, variants in fam["slots"].items():
            okv = [vt for vt in variants if (op, slot, vt) not in bad]
            print(f"{op}.{slot}: accepted {okv}")
            for vt in variants:
                for m in sorted(bad.get((op, slot, vt), [])):
                    print(f"    NOT {vt}: {m[:300]}")


if __name__ == "__main__":
    import sys
    if sys.argv[1:2] == ["survey"]:
        survey()
