"""C03 — Pauli operator arithmetic is faithful to matrix arithmetic."""
import itertools
from fractions import Fraction

from .. import common
from ..common import rat, unrat
from ..ladder import LADDER_ALL, ladder_value

PROP = "C03"
RULE = ("[== matrices: every ordered pair of zero / negligible / non-zero terms, numbers and sums; histories re-using the "
        "same operand objects; wide-range coefficients (2^-30 .. 2^33 in one operator); sibling operands differing in one "
        "component; caller-mutates-then-asks-again; exponents up to 1024; explicit identities, indices up to 2^64; terms on up to 70 "
        "qubits, sums of up to 200 terms; int / float / complex / bool / numpy scalar types; TYPE LADDER: coefficients of numpy complex64 / clongdouble / "
        "float32 / float16 / longdouble / int8..int64 / uint8 / uint16 / bool_, Python bool, Fraction, sympy Integer / Rational / Float mixed with "
        "plain numbers through + - * / ** simplify (and == where the unchanged library defines it), numpy-integer / Fraction divisors and "
        "right operands of -, Fraction / sympy left operands of + - on a term, exponent bounds keeping the narrow type's arithmetic exact; "
        "augmented assignment; two float routes; ACCUM: 8..64 contributions of modulus 1e-10..1e-8 to one operator string with totals well above / "
        "below 1e-8 through sum*sum, term*sum, sum*term, sum*number, number*sum, sum/number, ** 2..4, + - in every operand order, simplify, *= +=, "
        "judged per resulting string; DIVZERO: op / exact zero of every accepted spelling on term / sum / empty sum / numpy-typed coefficients] op-sequence programs over terms / sums / numbers (+ - * / ** simplify ==, numbers on either side) and the "
        "exhaustive table of products of all Pauli strings on <=3 qubits in both orders; non-trivial: a binary step "
        "whose two operands are initial operators that are both non-constant with overlapping qubit supports, or an "
        "initial sum containing a duplicate operator string or a zero coefficient; distinct = distinct canonical JSON")
TRUSTED = [
    "numpy / fractions / sympy scalar arithmetic is exact on the dyadic values the type-ladder cases keep within the mantissa of the "
    "narrowest type involved (generator-side exponent bounds, _Tracked(span_max, hmax)); complex(x) reads every such scalar back",
    "np.isclose(c, 0.0) is |c| <= 1e-8 and np.allclose(a, b) is |a-b| <= 1e-8 + 1e-5|b| (parameters negl / close of the model; "
    "the theorems hold for every negl, exactly when negl c <-> c = 0, and for == when close a b <-> a = b)",
    "Python float/complex + and * are exact on the dyadic coefficients used for the exact model comparison (other inputs: 1e-9 relative tolerance)",
    "1.0 / x is the exact reciprocal (parameter recip with law x * recip x = 1; ZeroDivisionError iff x == 0)",
    "Python set / dict semantics: `for i in set(keys)` yields every key exactly once in some order (the theorems hold for every order); "
    "frozenset(dict.items()) equality is equality of the dicts; hash() of the (round, round, frozenset) tuple does not collide on distinct tuples",
    "round() is round-half-to-even on the exactly representable products coefficient * 1e6",
    "np.kron / @ / np.linalg.matrix_power used by the oracle are the Kronecker / matrix product / power",
    "per-string clause (_exp_table / _string_check): Pauli strings are a basis of the matrices, XY = iZ, YZ = iX, ZX = iY; the coefficient "
    "table of the matrix operation is computed in Python complex doubles (relative error 1e-16 per contribution, allowed: 1e-13 * scale)",
]
ASSUMPTIONS = [
    "CUT-OFF: `to the library's 1e-8 coefficient tolerance` is read as: a result may leave out an operator string whose MERGED coefficient "
    "in the matrix operation has modulus <= 1e-8 and nothing else (per resulting string, after merging like terms; a - <sum> and ** p apply "
    "it once per internal product, which is allowed for: _string_check / _pow_slack); kind `accum` keeps every merged total outside "
    "[0.6e-8, 1.6e-8] so that the verdict does not depend on double rounding at the boundary",
    "DIVISION BY ZERO: `scalar division denotes the matrix operation` has no instance for the divisor 0 (there is no matrix M / 0, an "
    "operator with inf / nan coefficients denotes no matrix): op / z for an exact zero z must raise whatever op is (term, sum, empty sum, "
    "numpy-typed coefficients), and no operation on finite operands whose matrix result is representable may return a non-finite "
    "coefficient.  Generated zeros: 0, 0.0, 0j, -0.0, complex(-0.0, -0.0), False, Fraction(0), np.float64(0), "
    "np.complex128(0) (numpy zeros returned inf / nan operators until the repair 609ad0a in /repo: 1.0 / <numpy zero> warns instead of raising)",
    "NUMBER TYPES (established on the unchanged library, kind `ladder`): a COEFFICIENT may be any Python / numpy scalar, a Fraction or a "
    "real sympy number and + - * / ** simplify() are defined on it (the arithmetic is the type's own: only values whose intermediates "
    "are exact in the narrowest type are generated; sympy a+b*I and products of two sympy-complex RESULTS are not -- numpy cannot "
    "test sympy's unexpanded product against zero; mixtures sympy + numpy scalar / bool and unsigned + negative Python int are not -- "
    "sympy / numpy refuse the addition).  == raises on the unchanged library (PauliTerm.__hash__: round() of a numpy.complex64 / "
    "clongdouble -- which products of float32 / longdouble terms become --, OverflowError for float16 * 1e6; np.allclose on Fraction / "
    "sympy) between SUMS unless every coefficient is an int / float / complex instance or a numpy integer / bool, and on terms with "
    "Fraction / sympy coefficients: not asked there (`no_selfeq`).  A SCALAR OPERAND must be an int / float / complex instance "
    "(_validate_type raises TypeError otherwise; a numpy scalar on the LEFT never reaches the library), except where the code converts "
    "first: numpy integers / bool_ / Fraction as divisor (1.0 / x) and as right operand of - (-1.0 * x), Fraction / sympy numbers as left "
    "operand of + and - on a PauliTerm (__radd__ / __rsub__ do not validate); ** takes int / bool exponents only (ValueError otherwise)",
    "theorems are stated for every commutative ring R with an element i, i*i = -1 (C, Q(i), and the driver's Q(zeta8), which is "
    "given a CommRing instance on its executable operations); the == theorems additionally assume R has no 2-torsion",
    "qubit 0 is the leftmost Kronecker factor (OQ.Pauli.denote); an operator on qubits q1<...<qm is compared on the compressed "
    "register of its used qubits (tensoring with identities is injective and multiplicative)",
    "the float part of == (np.allclose rtol vs hash rounding at 1e-6) is modelled exactly in the driver but the theorem eq_iff is "
    "for exact coefficients (close a b <-> a = b)",
]

LETTERS = ["X", "Y", "Z"]
TOL = 1e-7


# ---------------------------------------------------------------------------------------------- case construction
def _c(re, im=0):
    return [rat(Fraction(re)), rat(Fraction(im))]


def T(ops, re=1, im=0, ty=None):
    d = {"k": "term", "ops": [[int(q), p] for q, p in ops], "c": _c(re, im)}
    if ty:
        d["ty"] = ty
    return d


def S(*terms, ty=None):
    d = {"k": "sum", "terms": list(terms)}
    if ty:
        d["ty"] = ty  # "tuple": PauliSum built from a tuple of terms (any Sequence is accepted)
    return d


def N(re, im=0, ty=None):
    d = {"k": "num", "c": _c(re, im)}
    if ty:
        d["ty"] = ty
    return d


def P(vals, steps, kind="program", **kw):
    d = {"kind": kind, "vals": vals, "steps": steps}
    d.update(kw)
    return d


def st(op, a, b=None, **kw):
    d = {"op": op, "a": a}
    if b is not None:
        d["b"] = b
    d.update(kw)
    return d


def pauli_strings(n):
    out = []
    for combo in itertools.product(["I"] + LETTERS, repeat=n):
        out.append([[q, p] for q, p in enumerate(combo) if p != "I"])
    return out


def expand(case):
    """every case kind is an op-sequence program"""
    if case["kind"] != "pairs":
        return case
    rights = pauli_strings(case["n"])
    vals = [{"k": "term", "ops": case["left"], "c": case["cl"]}]
    vals += [{"k": "term", "ops": r, "c": case["cr"]} for r in rights]
    steps = []
    for j in range(1, len(vals)):
        steps.append(st("mul", 0, j))
        steps.append(st("mul", j, 0))
    return {"kind": "pairs", "vals": vals, "steps": steps, "exact": True}


def _corpus_wide_1():
    ZZ, X2, Y1, W, V, BIG, ONE = range(7)
    g = _Prog([T([[0, "Z"], [1, "Z"]], 2 ** 30), T([[2, "X"]], 1), T([[1, "Y"]], Fraction(1, 256)),
               S(T([[0, "Z"], [1, "Z"]], 2 ** 30), T([[2, "X"]], 1), T([[1, "Y"]], Fraction(1, 256))),
               S(T([[0, "X"]], 1), T([[1, "Z"]], Fraction(1, 2))), N(2 ** 29), N(1)])
    sw = g("simplify", W); ab = g("add", ZZ, X2); ba = g("add", X2, ZZ); d = g("sub", ab, ZZ)
    g("eq", d, X2); g("eq", ab, ZZ); g("eq", ZZ, ab); g("eq", ab, ba)
    m1 = g("mul", BIG, V); m2 = g("mul", V, BIG); p1 = g("add", m1, ONE); p2 = g("add", ONE, m2); g("eq", p1, m1); g("eq", p1, p2)
    g("sub", W, ZZ); g("mul", W, X2); g("mul", X2, W); g("div", W, BIG); g("add", W, Y1); g("sub", ONE, W); g("eq", sw, W)
    g("sub", BIG, W); g("add", W, BIG)
    return g.case("wide")


def _corpus_wide_2():
    Z, X, Y, NUM = range(4)
    g = _Prog([T([[0, "Z"]], 32), T([[0, "X"]], Fraction(1, 2 ** 25)), T([[1, "Y"]], Fraction(1, 2 ** 30)), N(Fraction(1, 2 ** 25))])
    zx = g("add", Z, X); g("add", zx, Y); g("eq", zx, Z); g("eq", Z, zx); d = g("sub", zx, Z); g("eq", d, X)
    n1 = g("add", Z, NUM); n2 = g("add", NUM, Z); g("eq", n1, Z); g("eq", n1, n2); g("mul", zx, Y); g("mul", X, zx)
    return g.case("wide")


def _corpus_sizes_types(which):
    if which == 0:
        # terms on ten qubits (indices 3 .. 70), two clashes with an odd and an even number of anticommuting positions, the
        # same string in another dict order: products both ways, like terms merged
        oa = [[q, p_] for q, p_ in zip([3, 8, 9, 17, 31, 32, 33, 63, 64, 70], "XYZXYZXYZX")]
        ob = [[q, p_] for q, p_ in zip([70, 64, 63, 33, 32, 31, 17, 9, 8, 3], "XZYXZZXZZY")]
        g = _Prog([T(oa, Fraction(3, 8)), T(ob, 0, 2), T(list(reversed(oa)), Fraction(5, 8)), T(sorted(oa), 1)])
        ab = g("mul", 0, 1); ba = g("mul", 1, 0); g("add", ab, ba); g("sub", ab, ba); m = g("add", 0, 2); g("eq", m, 3); g("eq", 3, m)
        g("pow", 0, p=3); s_ = g("add", 0, 1); g("pow", s_, p=2); g("mul", s_, s_)
        return g.case("longterm")
    if which == 1:
        # a sum of 65 terms (X0 / Y0 Z1 alternating, each 1/8) and the same terms the other way round, built from a tuple
        ts = [T([[0, "X"]] if k % 2 else [[1, "Z"], [0, "Y"]], Fraction(1, 8)) for k in range(65)]
        g = _Prog([S(*ts), S(*[dict(t) for t in reversed(ts)], ty="tuple"), S(T([[0, "X"]], 4), T([[0, "Y"], [1, "Z"]], Fraction(33, 8))), S()])
        s1 = g("simplify", 0); s2 = g("simplify", 1); g("eq", s1, s2); g("eq", s1, 2); g("eq", 2, s2); d = g("sub", 0, 1); g("eq", d, 3)
        g("mul", 0, 2); g("add", 0, 1); g("mul", 2, 1)
        return g.case("longsum")
    if which == 2:
        # int / int division that is not exact in integers; numpy float64 / complex128 and bool as numbers and coefficients
        g = _Prog([T([[0, "X"]], 5, 0, "int"), N(4, 0, "int"), T([[1, "Y"]], Fraction(3, 2), 0, "npfloat"),
                   T([[0, "Z"]], Fraction(1, 2), Fraction(-1, 2), "npcomplex"), N(0, -2, "npcomplex"), N(Fraction(1, 2), 0, "npfloat"),
                   N(1, 0, "bool"), N(0, 0, "bool")])
        g("div", 0, 1); g("mul", 0, 1); g("mul", 1, 0); s_ = g("add", 0, 2); s_ = g("add", s_, 3); g("mul", s_, 4); g("div", s_, 4)
        g("add", s_, 5); g("sub", 3, 4); g("mul", 6, s_); g("mul", s_, 7); g("add", 6, 0); g("pow", s_, p=1, pbool=True); g("eq", 2, 5)
        return g.case("types")
    if which == 3:
        # augmented assignment leaves the operand alone; (a / 3) * 3 == a and ten times a / 10 == a for sums
        g = _Prog([S(T([[0, "X"]], Fraction(3, 8)), T([[1, "Z"]], 1)), T([[0, "X"]], Fraction(5, 8)), N(3), N(Fraction(0.1)), N(2)])
        x = g("iadd", 0, 1); y = g("add", 0, 1); g("eq", x, y); g("isub", 0, 0); g("imul", 0, 4); g("idiv", 0, 4); g("ipow", 0, p=2)
        g("iadd", 1, 1); g("imul", 1, 0)
        d = g("div", 0, 2); m = g("mul", d, 2); s0 = g("simplify", 0); g("eq", m, s0); g("eq", s0, m)
        t = g("mul", 0, 3); acc = g("add", t, t)
        for _ in range(8):
            acc = g("add", acc, t)
        g("eq", acc, s0); g("eq", s0, acc)
        c = g.case("inplace")
        c["exact"] = False
        return c
    # one coefficient with parts of very different size; a value below 1e-8 as divisor
    g = _Prog([T([[0, "X"]], 2 ** 30, Fraction(1, 8)), T([[0, "Y"]], Fraction(1, 8), 2 ** 30), N(2 ** 30, Fraction(-1, 4)),
               S(T([[0, "X"]], 2 ** 30, Fraction(1, 8)), T([[1, "Z"]], Fraction(1, 8), -2 ** 30)), N(Fraction(1, 2 ** 30)), N(2)])
    g("add", 0, 1); g("add", 0, 0); g("sub", 3, 0); g("mul", 0, 5); g("mul", 5, 3); g("add", 3, 2); g("sub", 2, 0); g("div", 3, 4)
    g("simplify", 3); g("eq", 0, 1)
    return g.case("wide")


def _corpus_ladder(which):
    if which == 0:
        # numpy.complex64 (complex-valued, not a subclass of `complex`) and float32 coefficients through every operation
        g = _Prog([T([[0, "X"], [1, "Y"]], Fraction(3, 2), Fraction(1, 2), "c64"), T([[1, "Z"]], Fraction(-1, 4), 1, "c64"),
                   S(T([[1, "Y"], [0, "X"]], Fraction(1, 2), -1, "c64"), T([[2, "Z"]], Fraction(3, 8), 0, "f32"), T([[0, "X"], [1, "Y"]], 1, Fraction(1, 4), "c64")),
                   N(2), N(0, 1), T([[1, "Y"], [0, "X"]], Fraction(3, 2), Fraction(1, 2))])
        g("mul", 0, 1); g("mul", 1, 0); g("add", 0, 1); g("sub", 0, 1); g("mul", 0, 2); g("mul", 2, 0); g("simplify", 2); g("add", 2, 0); g("sub", 1, 2)
        g("mul", 3, 2); g("mul", 0, 4); g("div", 2, 3); g("pow", 0, p=3); g("pow", 2, p=2); g("eq", 0, 5); g("eq", 5, 0); g("eq", 0, 1)
        c = g.case("ladder"); c["family"] = "complex64"; c["no_selfeq"] = True
        return c
    if which == 1:
        # int8 / bool_ coefficients, a numpy integer as divisor and as right operand of `-`; == between the results
        g = _Prog([T([[0, "X"], [1, "Y"]], 3, 0, "i8"), T([[1, "Z"]], -2, 0, "i8"), S(T([[0, "Z"]], 1, 0, "nb"), T([[1, "Y"], [0, "X"]], 2, 0, "i16"), T([[0, "Z"]], 1, 0, "pb")),
                   N(2, 0, "i8"), N(3, 0, "i32"), T([[1, "Y"], [0, "X"]], 3)])
        g("mul", 0, 1); g("mul", 1, 0); x = g("add", 0, 1); y = g("add", 1, 0); g("sub", 0, 4); g("div", 2, 3); g("mul", 2, 0); g("simplify", 2)
        g("pow", 0, p=2); g("pow", 2, p=2); g("eq", x, y); g("eq", 0, 5); g("eq", 5, 0); g("sub", 2, 4)
        c = g.case("ladder"); c["family"] = "int8"
        return c
    # Fraction / sympy coefficients; a Fraction / sympy number as LEFT operand of + and - on a term
    g = _Prog([T([[0, "X"], [1, "Y"]], Fraction(3, 8), 0, "fr"), T([[1, "Z"]], Fraction(-5, 8), 0, "sr"), S(T([[0, "X"], [1, "Y"]], 2, 0, "si"), T([[2, "Z"]], Fraction(1, 2), 0, "sf")),
               N(Fraction(7, 8), 0, "fr"), N(3, 0, "si"), N(Fraction(1, 2), 0, "fr")])
    g("mul", 0, 1); g("mul", 1, 0); g("add", 0, 1); g("sub", 0, 2); g("mul", 2, 0); g("add", 3, 0); g("sub", 4, 1); g("div", 2, 5); g("sub", 0, 3); g("pow", 0, p=3)
    c = g.case("ladder"); c["family"] = "exact-objects"; c["no_selfeq"] = True
    return c


def corpus():
    X0, Y0, Z1 = T([[0, "X"]]), T([[0, "Y"]]), T([[1, "Z"]])
    return [_corpus_ladder(0), _corpus_ladder(1), _corpus_ladder(2)] + [
        # the sixteen single-qubit products in one go
        {"kind": "pairs", "n": 1, "left": [[0, "X"]], "cl": _c(1), "cr": _c(1)},
        {"kind": "pairs", "n": 1, "left": [[0, "Y"]], "cl": _c(1), "cr": _c(1)},
        {"kind": "pairs", "n": 1, "left": [[0, "Z"]], "cl": _c(1), "cr": _c(1)},
        {"kind": "pairs", "n": 1, "left": [], "cl": _c(1), "cr": _c(1)},
        # mixed kinds on either side
        P([X0, T([[0, "Y"], [1, "Z"]], Fraction(1, 2), Fraction(1, 8)), N(2)],
          [st("mul", 0, 1), st("add", 0, 1), st("mul", 4, 4), st("pow", 4, p=3), st("eq", 4, 4), st("sub", 4, 4),
           st("div", 0, 2), st("mul", 2, 4), st("mul", 4, 2), st("sub", 2, 4), st("sub", 2, 0), st("add", 2, 0)]),
        # duplicates, zero coefficients, the empty sum
        P([S(X0, T([[0, "X"]], -1), Y0, T([[1, "Z"]], 0)), S(), N(0)],
          [st("simplify", 0), st("add", 0, 1), st("mul", 0, 0), st("mul", 1, 0), st("pow", 1, p=0), st("pow", 1, p=2),
           st("eq", 3, 1), st("mul", 0, 2), st("eq", 10, 1)]),
        # eight contributions of 4.9e-9 (each below the 1e-8 cut-off) to every string of A * A: the totals 3.9e-8 must be there
        P([S(*[T(o, Fraction(7e-5)) for o in pauli_strings(3) if all(l == "Z" for _, l in o)])],
          [st("mul", 0, 0), st("pow", 0, p=2)], kind="accum", exact=False),
        # sixteen like terms of 2e-9 in a hand-built list: simplify / + / * 1 keep 3.2e-8 * Z0; five of them (1e-8 in all) vanish
        P([S(*[T([[0, "Z"]], Fraction(2e-9)) for _ in range(16)]), T([[1, "X"]], 1), S(*[T([[0, "Z"]], Fraction(1e-9)) for _ in range(5)])],
          [st("simplify", 0), st("add", 0, 1), st("mul", 1, 0), st("mul", 0, 1), st("simplify", 2), st("sub", 1, 0)], kind="accum", exact=False),
        # division by an exact zero of every spelling, on a term, a numpy-typed term, a sum and the empty sum: must raise
        P([T([[0, "X"], [1, "Z"]], 2, 0, "npfloat"), N(0, 0, "negzero")], [st("div", 0, 1)], kind="divzero"),
        P([S(), N(0, 0, "fr")], [st("div", 0, 1)], kind="divzero"),
        P([S(X0, T([[1, "Z"]], Fraction(1, 2), 0, "npfloat")), N(0, 0, "complex")], [st("idiv", 0, 1)], kind="divzero"),
        # errors: zero division, negative / non-int exponent, division by an operator
        P([X0, N(0)], [st("div", 0, 1)]),
        P([X0], [st("pow", 0, p=-1)]),
        P([S(X0, Y0)], [st("pow", 0, pf="2.0")]),
        P([X0, Y0], [st("div", 0, 1)]),
        P([N(2), Y0], [st("div", 0, 1)]),
        # term order does not matter for ==
        P([X0, Y0, Z1], [st("add", 0, 1), st("add", 1, 0), st("eq", 3, 4), st("add", 3, 2), st("add", 2, 3), st("eq", 6, 7),
                         st("eq", 6, 3)]),
        # == with numbers and between kinds
        P([S(T([], 2)), N(2), T([], 2), T([[0, "X"]], 0), S()],
          [st("simplify", 0), st("eq", 5, 1), st("eq", 1, 5), st("eq", 2, 1), st("eq", 5, 2), st("eq", 2, 5), st("eq", 3, 4),
           st("eq", 4, 3)]),
        # regression input of the FIXED defect eq-empty-sum-vs-zero-number (4f25fdd): PauliSum() == 0 was False
        P([S(), N(0)], [st("eq", 0, 1)]),
        P([S(), N(0, ty="int")], [st("eq", 1, 0)]),
        # FINDING eq-hash-rounding-boundary: coefficients 2e-9 apart on the two sides of a round(c*1e6) boundary
        P([S(T([[0, "X"]], Fraction(1.5e-6 - 1e-9))), S(T([[0, "X"]], Fraction(1.5e-6 + 1e-9)))], [st("eq", 0, 1)], exact=False),
        # zero coefficients on either side of == against non-zero operands of every kind, all ordered pairs
        _eq_matrix([T([[0, "X"]], 0), T([[1, "Z"]], 3), T([], 0, ty="int"), N(1), N(0), S(), T([], 1), S(T([[1, "Z"]], 3)),
                    T([[0, "X"]], 3), S(T([[0, "X"]], 3), T([[1, "Z"]], 3))],
                   [st("mul", 1, 4), st("mul", 4, 8)]),
        # an operation, then the same operands again (like terms in two dict orders; un-simplified sum with duplicates)
        P([T([[0, "Z"], [2, "X"]], 1), T([[2, "X"], [0, "Z"]], 2), S(T([[0, "Z"]], 1), T([[0, "Z"]], 2))],
          [st("add", 0, 1), st("add", 0, 1), st("sub", 0, 1), st("simplify", 2), st("simplify", 2), st("eq", 6, 7),
           st("mul", 0, 0), st("eq", 3, 4)], kind="history"),
        # indices up to 12, gap, descending dict order
        P([T([[12, "Y"], [3, "X"], [7, "Z"]], Fraction(3, 8), Fraction(-5, 8)), T([[7, "X"], [12, "Y"], [0, "Z"]], 0, 1)],
          [st("mul", 0, 1), st("mul", 1, 0), st("add", 2, 3), st("sub", 2, 3), st("pow", 0, p=5), st("pow", 1, p=4)]),
        # a significant coefficient next to a huge one (penalty term 2^30 Z0 Z1 + X2 + Y1/256): the 1e-8 cut-off is absolute
        # and per operator string, in simplify() and in everything that ends in it; (A + B) - A == B; 2^29 (X0 + Z1/2) + 1
        _corpus_wide_1(),
        # the same three orders of magnitude lower: 2^5 Z0 next to 2^-25 X0 (3e-8: above the tolerance), 2^-30 Y1 below it
        _corpus_wide_2(),
        # sibling operands: coefficient moved by 2^-22 (same 1e-6 hash bucket), other dict order, equal copy, int / complex
        P([T([[0, "X"], [1, "Y"]], Fraction(3, 8)), T([[0, "X"], [1, "Y"]], Fraction(3, 8) + Fraction(1, 2 ** 22)),
           T([[1, "Y"], [0, "X"]], Fraction(3, 8)), T([[0, "X"], [1, "Y"]], Fraction(3, 8)), T([[0, "Z"]], 2, 0, "int"),
           T([[0, "Z"]], 2, 0, "complex"), N(2), N(2 + Fraction(1, 2 ** 22))],
          [st("mul", 0, 4), st("mul", 1, 4), st("mul", 0, 4), st("mul", 2, 4), st("mul", 3, 5), st("mul", 4, 1), st("add", 0, 4),
           st("add", 1, 4), st("add", 0, 4), st("sub", 4, 1), st("mul", 0, 6), st("mul", 0, 7), st("mul", 7, 0), st("mul", 6, 0),
           st("pow", 0, p=2), st("pow", 1, p=2), st("pow", 0, p=2), st("eq", 8, 10), st("eq", 8, 11), st("eq", 14, 16)], kind="sibling"),
        # the caller changes what it got, then asks again: a ** 0, s ** 0, s * number, a + b, simplify()
        P([T([[0, "X"]], 2), S(T([[0, "X"]], 1), T([[1, "Z"]], 1), T([[0, "X"]], 1)), N(2)],
          [st("pow", 0, p=0), {"op": "poke", "a": 3, "j": 0, "c": _c(5)}, st("pow", 0, p=0), st("pow", 1, p=0),
           {"op": "poke", "a": 6, "j": 0, "c": _c(0, 3)}, st("pow", 1, p=0), st("mul", 1, 2), st("mul", 2, 1), st("pow", 1, p=2),
           st("simplify", 1), {"op": "poke", "a": 12, "j": 1, "c": _c(7)}, st("simplify", 1), st("add", 0, 0),
           {"op": "poke", "a": 15, "j": 0, "c": _c(7)}, st("add", 0, 0), {"op": "poke", "a": 0, "j": 0, "c": _c(3)}, st("add", 0, 0),
           st("eq", 0, 0), st("mul", 0, 0), st("eq", 17, 19)], kind="poison"),
        # exponents with several set bits, beyond the first few (regression inputs of seeded change r2m1)
        P([T([[0, "X"], [1, "Y"]], 2), T([], 2), S(T([[0, "X"]], 1), T([[0, "Z"]], 1)), T([[0, "Y"]], 0, 1)],
          [st("pow", 0, p=6), st("pow", 1, p=3), st("pow", 1, p=7), st("pow", 2, p=31), st("pow", 2, p=32), st("mul", 7, 2),
           st("eq", 8, 9), st("pow", 3, p=63), st("pow", 3, p=64), st("pow", 0, p=12), st("pow", 3, p=10), st("pow", 3, p=34)], kind="bigpow"),
        # written-out identities and very large qubit indices
        P([T([[0, "X"], [1, "I"], [2 ** 40, "Z"]], 1), T([[2 ** 40, "Y"], [64, "I"]], 0, 1), T([[2 ** 40 + 1, "Y"]], 1),
           T([[3, "I"]], 2), N(2)],
          [st("mul", 0, 1), st("mul", 1, 0), st("add", 5, 6), st("add", 1, 2), st("pow", 8, p=2), st("eq", 3, 4), st("eq", 4, 3),
           st("add", 0, 3), st("mul", 3, 0), st("sub", 1, 1)]),
        _corpus_sizes_types(0), _corpus_sizes_types(1), _corpus_sizes_types(2), _corpus_sizes_types(3), _corpus_sizes_types(4),
        # regression input of the FIXED defect (933c62f): 2^-27 X0 (within 1e-8 of zero) == 2^-26 Z1 (1.5e-8: not) was True,
        # the mirrored comparison False
        P([T([[0, "X"]], Fraction(1, 2 ** 27)), T([[1, "Z"]], Fraction(1, 2 ** 26))], [st("eq", 0, 1), st("eq", 1, 0)], exact=False),
    ]


# ---------------------------------------------------------------------------------------------- generators
def _coeff(rng, allow_zero=True):
    r = rng.random()
    k = rng.randrange(-16, 17)
    l = rng.randrange(-16, 17)
    if allow_zero and r < 0.08:
        return Fraction(0), Fraction(0)
    if r < 0.45:
        return Fraction(k or 1, 8), Fraction(0)
    if r < 0.6:
        return Fraction(0), Fraction(l or 1, 8)
    return Fraction(k, 8), Fraction(l or -3, 8)


HUGE_INDEX = [63, 64, 65, 1000, 2 ** 31, 2 ** 40, 2 ** 40 + 1]


def _term(rng, pool, allow_zero=True, const_p=0.1):
    if rng.random() < const_p:
        ops = []
    else:
        qs = rng.sample(pool, rng.randrange(1, len(pool) + 1))
        ops = [[q, rng.choice(LETTERS)] for q in qs]  # dict order = sample order (not sorted)
    if rng.random() < 0.12:
        # exotic but legal: the identity written out on a qubit of its own (the constructor drops it)
        free = [q for q in list(pool) + [pool[-1] + 1] if q not in {o[0] for o in ops}]
        for q in rng.sample(free, min(len(free), rng.randrange(1, 3))):
            ops.insert(rng.randrange(len(ops) + 1), [q, "I"])
    re, im = _coeff(rng, allow_zero)
    ty = None
    if im == 0 and re.denominator == 1 and rng.random() < 0.5:
        ty = "int"
    elif im == 0 and rng.random() < 0.15:
        ty = "complex"  # a real value carried by a Python complex
    return T(ops, re, im, ty)


def _pool(rng, kmax):
    """qubit indices: mostly small (<= 12); sometimes dense; sometimes one or two very large indices"""
    pool = sorted(rng.sample(range(13), rng.randrange(1, kmax + 1)))
    r = rng.random()
    if r < 0.3:
        pool = list(range(len(pool)))
    elif r < 0.42:
        for h in rng.sample(HUGE_INDEX, rng.randrange(1, 3)):
            pool[rng.randrange(len(pool))] = h
        pool = sorted(set(pool))
    return pool


def _sum(rng, pool):
    r = rng.random()
    if r < 0.1:
        return S()
    terms = [_term(rng, pool) for _ in range(rng.randrange(1, 5))]
    if terms and rng.random() < 0.5:  # duplicates: same string again, sometimes cancelling exactly
        src = rng.choice(terms)
        dup = dict(src)
        dup["ops"] = list(src["ops"])
        rng.shuffle(dup["ops"])
        if rng.random() < 0.4:
            dup["c"] = [rat(-unrat(src["c"][0])), rat(-unrat(src["c"][1]))]
        else:
            re, im = _coeff(rng)
            dup["c"] = _c(re, im)
        dup.pop("ty", None)
        terms.insert(rng.randrange(len(terms) + 1), dup)
    return S(*terms, ty="tuple" if rng.random() < 0.1 else None)


DIVISORS_EXACT = [(1, 0), (-1, 0), (2, 0), (-4, 0), (Fraction(1, 2), 0), (0, 1), (0, -2), (1, 1), (1, -1), (-2, 2),
                  (Fraction(1, 2), Fraction(1, 2)), (8, 0), (0, Fraction(-1, 4))]
DIVISORS_INEXACT = [(3, 0), (Fraction(5, 8), 0), (1, 2), (Fraction(3, 8), Fraction(-1, 8)), (0, 3)]


def _program(rng, tier):
    big = tier == "thorough"
    pool = _pool(rng, 5 if big else 4)
    vals, kinds, bits, divisor = [], [], [], {}
    for _ in range(rng.randrange(2, 5)):
        r = rng.random()
        if r < 0.45:
            vals.append(_term(rng, pool)); kinds.append("term")
        elif r < 0.8:
            vals.append(_sum(rng, pool)); kinds.append("sum")
        else:
            re, im = _coeff(rng)
            ty = "int" if (im == 0 and re.denominator == 1 and rng.random() < 0.5) else None
            vals.append(N(re, im, ty)); kinds.append("num")
        bits.append(3)
    if all(k == "num" for k in kinds):
        vals.append(_term(rng, pool)); kinds.append("term"); bits.append(3)
    for _ in range(rng.randrange(0, 3)):  # designated divisors: (mostly) exactly invertible in doubles
        ex = rng.random() < 0.85
        re, im = rng.choice(DIVISORS_EXACT if ex else DIVISORS_INEXACT)
        ty = "int" if (im == 0 and Fraction(re).denominator == 1 and rng.random() < 0.5) else None
        divisor[len(vals)] = ex
        vals.append(N(re, im, ty)); kinds.append("num"); bits.append(3)
    steps, exact = [], True
    nsteps = rng.randrange(1, (8 if big else 6))
    for _ in range(nsteps):
        live = [i for i, k in enumerate(kinds) if k is not None]
        ops_ = [i for i in live if kinds[i] != "num"]
        a = rng.choice(live)
        r = rng.random()
        if r < 0.30:
            op = "mul"
        elif r < 0.45:
            op = "add"
        elif r < 0.58:
            op = "sub"
        elif r < 0.68:
            op = "pow"
        elif r < 0.80:
            op = "div"
        elif r < 0.87:
            op = "simplify"
        else:
            op = "eq"
        if op in ("mul", "add", "sub", "eq"):
            b = rng.choice(live)
            if kinds[a] == "num" and kinds[b] == "num":
                b = rng.choice(ops_)
            if op == "eq" and rng.random() < 0.35 and kinds[a] != "num":
                b = a
            nb = bits[a] + bits[b] if op == "mul" else max(bits[a], bits[b])
            if nb > 24:
                continue
            steps.append(st(op, a, b))
            if op == "eq":
                kinds.append(None); bits.append(0)
            elif op == "mul":
                kinds.append("sum" if "sum" in (kinds[a], kinds[b]) else "term"); bits.append(nb)
            else:
                kinds.append("sum"); bits.append(nb)
        elif op == "pow":
            a = rng.choice(ops_)
            r2 = rng.random()
            if r2 < 0.05:
                steps.append(st("pow", a, p=-rng.randrange(1, 4))); break
            if r2 < 0.09:
                steps.append(st("pow", a, pf=rng.choice(["2.0", "0.5", "1j"]))); break
            p = rng.randrange(0, 7 if kinds[a] == "term" else 4)
            if bits[a] * max(p, 1) > 24:
                continue
            steps.append(st("pow", a, p=p))
            kinds.append(kinds[a]); bits.append(bits[a] * max(p, 1))
        elif op == "div":
            a = rng.choice(ops_)
            r2 = rng.random()
            if r2 < 0.05:
                steps.append(st("div", a, rng.choice(ops_))); break          # TypeError: 1.0 / operator
            nums = [i for i in live if kinds[i] == "num"]
            if not nums:
                continue
            b = rng.choice(list(divisor) if (divisor and rng.random() < 0.85) else nums)
            if b < len(vals) and vals[b]["c"] == [0, 0]:
                steps.append(st("div", a, b)); break                           # ZeroDivisionError
            if not divisor.get(b, False):
                exact = False
            if bits[a] + 4 > 24:
                continue
            steps.append(st("div", a, b))
            kinds.append(kinds[a]); bits.append(bits[a] + 4)
        elif op == "simplify":
            ss = [i for i in live if kinds[i] == "sum"]
            if not ss:
                continue
            a = rng.choice(ss)
            steps.append(st("simplify", a))
            kinds.append("sum"); bits.append(bits[a])
    if not steps:
        a = next(i for i, k in enumerate(kinds) if k != "num")
        steps.append(st("mul", a, a))
    case = P(vals, steps)
    if not exact:
        case["exact"] = False
    return case


def _eq_case(rng, tier):
    """equalities that should hold (commuted sums / products, re-simplification) and near misses"""
    pool = _pool(rng, 3)
    a, b, c = _term(rng, pool, allow_zero=False), _term(rng, pool, allow_zero=False), _sum(rng, pool)
    r = rng.random()
    if r < 0.25:
        return P([a, b, c], [st("add", 0, 1), st("add", 1, 0), st("eq", 3, 4), st("add", 3, 2), st("add", 2, 3), st("eq", 6, 7)],
                 kind="eq")
    if r < 0.45:
        return P([a, b, c], [st("add", 0, 1), st("mul", 3, 2), st("mul", 0, 2), st("mul", 1, 2), st("add", 5, 6), st("eq", 4, 7),
                             st("eq", 7, 4)], kind="eq")
    if r < 0.6:
        # a sum against itself with one coefficient moved by 1/8
        a2 = dict(a)
        a2["c"] = [rat(unrat(a["c"][0]) + Fraction(1, 8)), a["c"][1]]
        a2.pop("ty", None)
        return P([a, a2, b], [st("add", 0, 2), st("add", 1, 2), st("eq", 3, 4), st("eq", 0, 1), st("eq", 3, 3)], kind="eq")
    if r < 0.8:
        # operator against number / constant term / constant sum
        re, im = _coeff(rng)
        return P([N(re, im), T([], re, im), S(T([], re, im)), a, S()],
                 [st("simplify", 2), st("eq", 0, 1), st("eq", 1, 0), st("eq", 5, 0), st("eq", 0, 5), st("eq", 5, 1), st("eq", 1, 5),
                  st("eq", 3, 0), st("eq", 3, 5), st("eq", 4, 3), st("eq", 3, 4)], kind="eq")
    # same operator string, different letters / supports
    b2 = dict(a)
    b2["ops"] = [[q, rng.choice(LETTERS)] for q, _ in a["ops"]]
    return P([a, b2], [st("eq", 0, 1), st("eq", 1, 0), st("sub", 0, 1), st("sub", 1, 0), st("eq", 4, 5)], kind="eq")


def _eq_matrix(vals, derived=(), kind="eqmatrix", skip=()):
    """every ORDERED pair of the operands (initial values and derived registers) compared with ==, both argument orders"""
    steps = list(derived)
    n = len(vals) + len(steps)
    kinds = [v["k"] for v in vals] + ["op"] * len(steps)
    for i in range(n):
        for j in range(n):
            if i == j or (kinds[i] == "num" and kinds[j] == "num") or (i, j) in skip:
                continue
            steps.append(st("eq", i, j))
    return P(vals, steps, kind=kind)


def _eq_zero_case(rng, tier):
    """zero (and negligible) coefficients on EITHER side of == against non-zero operands of every kind (term on the same /
    another string, constant term, number, one-term / many-term / empty sum), all ordered pairs"""
    pool = sorted(rng.sample(range(13), rng.randrange(1, 4)))
    opsA = [[q, rng.choice(LETTERS)] for q in rng.sample(pool, rng.randrange(1, len(pool) + 1))]
    opsB = [[q, rng.choice(LETTERS)] for q in rng.sample(pool, rng.randrange(1, len(pool) + 1))]
    if sorted(opsB) == sorted(opsA):
        opsB = [[opsA[0][0], LETTERS[(LETTERS.index(opsA[0][1]) + 1) % 3]]] + opsA[1:]
    re, im = _coeff(rng, allow_zero=False)
    re2, im2 = _coeff(rng, allow_zero=False)
    zero_ty = rng.choice([None, "int"])
    cands = [
        T(opsA, 0, 0, zero_ty),                  # zero term on string A
        T(opsB, 0),                              # zero term on string B
        T([], 0, 0, rng.choice([None, "int"])),  # zero constant term
        N(0, 0, rng.choice([None, "int"])),      # the number zero
        S(),                                     # the empty sum
        T(opsA, re, im), T(opsB, re2, im2),      # non-zero terms on both strings
        T(list(reversed(opsA)), re, im),         # same operator, other dict order
        T([], re, im), N(re, im),                # non-zero constant term / number (equal to each other)
        S(T(opsA, re, im)), S(T(opsB, re2, im2), T(opsA, re, im)), S(T([], re, im)),
    ]
    k = len(cands) if tier == "thorough" else 8
    idx = sorted(rng.sample(range(len(cands)), k))
    if not any(i < 3 for i in idx):
        idx[0] = rng.randrange(0, 3)
    vals = [cands[i] for i in sorted(set(idx))]
    derived = []
    ti = [i for i, v in enumerate(vals) if v["k"] == "term"]
    zi = [i for i, v in enumerate(vals) if v["k"] == "num" and v["c"] == [0, 0]]
    if ti and zi and rng.random() < 0.7:        # a zero produced BY the arithmetic: term * 0, 0 * term
        derived.append(st("mul", rng.choice(ti), zi[0]))
        derived.append(st("mul", zi[0], rng.choice(ti)))
    return _eq_matrix(vals, derived)


def _eq_negligible_case(rng):
    """a coefficient the library treats as zero (1e-9) on either side of == against non-zero operands"""
    q = rng.randrange(0, 4)
    a, b = rng.sample(LETTERS, 2)
    eps = Fraction(1e-9) * rng.choice([1, -1])
    re, im = _coeff(rng, allow_zero=False)
    vals = [T([[q, a]], eps), T([[q, b]], re, im), T([], re, im), N(re, im), T([], eps), S(T([[q, b]], re, im)), N(0), S()]
    c = _eq_matrix(vals)
    c["exact"] = False
    return c


class _Prog:
    """builder: registers are the initial values followed by one register per step"""

    def __init__(self, vals):
        self.vals, self.steps = list(vals), []

    def __call__(self, op, a, b=None, **kw):
        self.steps.append(st(op, a, b, **kw))
        return len(self.vals) + len(self.steps) - 1

    def case(self, kind):
        return P(self.vals, self.steps, kind=kind)


def _history_case(rng, tier):
    """multi-step histories on the SAME objects: an operation is evaluated, then the very same operands are used again
    (operands changed in place, results cached on an operand, temporaries) – every repeat must denote the same matrix;
    results that must merge like terms are compared (==) with the merged operator written down directly"""
    pool = _pool(rng, 3)
    ops = [[q, rng.choice(LETTERS)] for q in rng.sample(pool, rng.randrange(1, len(pool) + 1))]
    re, im = _coeff(rng, allow_zero=False)
    re2, im2 = _coeff(rng, allow_zero=False)
    if (re + re2, im + im2) == (0, 0) or (re - re2, im - im2) == (0, 0):
        re2 += Fraction(1, 8)
        if (re + re2, im + im2) == (0, 0) or (re - re2, im - im2) == (0, 0):
            re2 += Fraction(1, 8)
    a = T(ops, re, im)
    b = T(list(reversed(ops)), re2, im2)          # like term, other dict order
    c = _term(rng, pool, allow_zero=False)
    raw = S(a, c, b, dict(a))                      # un-simplified sum holding duplicates
    merged = T(sorted(ops), re + re2, im + im2)    # a + b written down directly
    diffab = T(sorted(ops), re - re2, im - im2)    # a - b
    A, B, C, RAW, MERGED, DIFF = range(6)
    g = _Prog([a, b, c, raw, merged, diffab])
    r = rng.random()
    if r < 0.35:
        s1 = g("add", A, B); s2 = g("add", A, B); d1 = g("sub", A, B); d2 = g("sub", B, A)
        g("mul", A, B); g("eq", A, A); s3 = g("add", B, A); g("pow", A, p=2)
        g("eq", s1, s2); g("eq", s1, s3); g("eq", s1, MERGED); g("eq", MERGED, s2); g("eq", d1, DIFF); g("eq", DIFF, d1)
        g("add", d1, d2)
    elif r < 0.6:
        x1 = g("simplify", RAW); x2 = g("simplify", RAW); g("eq", x1, x2); g("add", RAW, RAW); g("mul", RAW, A)
        x3 = g("simplify", RAW); g("sub", RAW, x1); p1 = g("pow", RAW, p=2); p2 = g("pow", RAW, p=2); g("eq", p1, p2)
        g("eq", x3, x1); m = g("add", A, B); g("eq", m, MERGED)
    elif r < 0.8:
        m1 = g("mul", A, C); m2 = g("mul", C, A); m3 = g("mul", A, C); g("eq", m1, m3)
        ac = g("add", m1, m2); g("sub", m1, m2); s1 = g("add", A, C); s2 = g("add", A, C); g("eq", s1, s2)
        p1 = g("pow", A, p=3); p2 = g("pow", A, p=3); g("eq", p1, p2)
        # anticommutator / commutator written both ways: like terms meet in different dict orders
        ca = g("add", m2, m1); g("eq", ac, ca); g("eq", ca, ac)
        bc = g("mul", B, C); abc = g("add", m1, bc); mc = g("mul", MERGED, C); g("eq", abc, mc); g("eq", mc, abc)
    else:
        # the same object on both sides, and a result fed back together with its own operand
        d = g("add", A, A); z = g("sub", A, A); g("mul", RAW, RAW); t = g("add", RAW, A); g("add", d, A); g("mul", t, RAW)
        zz = g("sub", t, t); g("eq", t, t); g("add", RAW, RAW); g("eq", z, zz); g("eq", zz, z)
    return g.case("history")


# ------------------------------------------------------------------ coefficients of very different magnitude in one operator
SPAN_MAX = 52    # bits between the lsb of any coefficient and the bound of any sum of like terms: all double arithmetic exact
HASH_SPAN = 38   # operands of ==: coefficient * 1e6 (14 more bits) must be exact in a double as well


def _scaled(rng, s, cplx=True):
    """m * 2^s with 1 <= |m| <= 2 a multiple of 1/8 (so the magnitude class is decided by s alone)"""
    k = rng.randrange(8, 17) * rng.choice([1, -1])
    l = rng.randrange(8, 17) * rng.choice([1, -1])
    r = rng.random()
    f = Fraction(2) ** s
    if not cplx or r < 0.6:
        return Fraction(k, 8) * f, Fraction(0)
    if r < 0.8:
        return Fraction(0), Fraction(k, 8) * f
    return Fraction(k, 8) * f, Fraction(l, 8) * f


def _strings(rng, pool, n):
    """n distinct non-empty Pauli strings on the pool"""
    out, seen = [], set()
    for _ in range(200):
        if len(out) == n:
            break
        ops = [[q, rng.choice(LETTERS)] for q in rng.sample(pool, rng.randrange(1, len(pool) + 1))]
        key = tuple(sorted(map(tuple, ops)))
        if key not in seen:
            seen.add(key); out.append(ops)
    while len(out) < n:  # a one-qubit pool has three strings only
        out.append(list(rng.choice(out)))
    return out


class _Tracked:
    """program builder that tracks, per register, the kind and bounds on the binary exponents of its coefficients:
    every coefficient is a multiple of 2^L and every sum of like terms stays below 2^H; a step is only emitted when
    H - L <= SPAN_MAX afterwards, so Python's double arithmetic is exact and the exact model must agree to the last bit"""

    def __init__(self, span_max=None, hmax=None):
        self.vals, self.steps, self.info = [], [], []
        # span_max: bits the arithmetic of the narrowest coefficient type of the program carries (52 for doubles, 20 for float32 /
        # complex64, 9 for float16); hmax: bound on log2 of every like-term sum (integer types: no overflow)
        self.span_max = SPAN_MAX if span_max is None else span_max
        self.hmax = hmax

    def _fits(self, f):
        return f["H"] - f["L"] <= self.span_max and (self.hmax is None or f["H"] <= self.hmax)

    def val(self, v, L, H, n=1, lin=False):
        assert not self.steps
        self.vals.append(v)
        self.info.append({"k": v["k"], "L": L, "H": H, "n": n, "lin": lin})
        return len(self.vals) - 1

    def _push(self, step, info):
        self.steps.append(step)
        self.info.append(info)
        return len(self.info) - 1

    def span(self, i):
        return self.info[i]["H"] - self.info[i]["L"]

    def ops(self):
        return [i for i, f in enumerate(self.info) if f is not None and f["k"] != "num"]

    def live(self):
        return [i for i, f in enumerate(self.info) if f is not None]

    def add(self, op, a, b):
        if a is None or b is None or self.info[a] is None or self.info[b] is None:
            return None
        A, B = self.info[a], self.info[b]
        if A["k"] == "num" and B["k"] == "num":
            return None
        f = {"k": "sum", "L": min(A["L"], B["L"]), "H": max(A["H"], B["H"]) + 1, "n": A["n"] + B["n"], "lin": A["lin"] or B["lin"]}
        if not self._fits(f) or f["n"] > 24:
            return None
        return self._push(st(op, a, b), f)

    def _mulinfo(self, A, B):
        if A["k"] == "num" and B["k"] == "num":
            return None
        if (A["lin"] or B["lin"]) and "num" not in (A["k"], B["k"]):
            return None
        n = A["n"] * B["n"]
        f = {"k": "sum" if "sum" in (A["k"], B["k"]) else "term", "L": A["L"] + B["L"],
             "H": A["H"] + B["H"] + 1 + max(n, 1).bit_length(), "n": n, "lin": A["lin"] or B["lin"]}
        if not self._fits(f) or n > 16:
            return None
        return f

    def mul(self, a, b):
        if a is None or b is None or self.info[a] is None or self.info[b] is None:
            return None
        f = self._mulinfo(self.info[a], self.info[b])
        return None if f is None else self._push(st("mul", a, b), f)

    def div(self, a, d):
        """d: a register holding +-2^j or +-2^j i (its reciprocal is exact)"""
        A, D = self.info[a], self.info[d]
        if A["k"] == "num" or D["k"] != "num" or "j" not in D:
            return None
        f = dict(A, L=A["L"] - D["j"], H=A["H"] - D["j"])
        if not self._fits(f):
            return None
        return self._push(st("div", a, d), f)

    def pow(self, a, p):
        A = self.info[a]
        if A["k"] == "num" or (A["lin"] and p >= 1):
            return None
        if p == 0:
            f = {"k": A["k"], "L": 0, "H": 1, "n": 1, "lin": False}
        else:
            f = dict(A)
            for _ in range(p - 1):
                f = self._mulinfo(f, A)
                if f is None:
                    return None
        return self._push(st("pow", a, p=p), f)

    def simplify(self, a):
        A = self.info[a]
        if A["k"] != "sum":
            return None
        return self._push(st("simplify", a), dict(A))

    def eq(self, a, b):
        if a is None or b is None or self.info[a] is None or self.info[b] is None:
            return None
        A, B = self.info[a], self.info[b]
        if (A["k"] == "num" and B["k"] == "num") or self.span(a) > HASH_SPAN or self.span(b) > HASH_SPAN:
            return None
        self.steps.append(st("eq", a, b))
        self.info.append(None)
        return len(self.info) - 1

    def case(self, kind):
        return P(self.vals, self.steps, kind=kind)


def _cancel_case(rng, tier):
    """like terms with LARGE coefficients that nearly cancel: the exact sum r of the like terms is far above the 1e-8 cut-off
    although it is tiny RELATIVE to the summands (1e-8 < |r| <= 1e-8 * max|summand|) – the cut-off is absolute, so the residue
    must survive simplification, through every operation and operand mix.  All values are dyadic with < 52 significant bits,
    so the double arithmetic is exact and the exact model must agree to the last bit."""
    k = rng.randrange(28, 45)
    j = rng.randrange(0, min(21, 51 - k))
    big, r = Fraction(2) ** k, Fraction(1, 2 ** j)
    pool = _pool(rng, 3)
    strs = _strings(rng, pool, 3)
    Pops, Qops = strs[0], strs[1] if strs[1] != strs[0] else [[max(pool) + 1, "Z"]]
    imag = rng.random() < 0.3
    def co(x):
        return (0, x) if imag else (x, 0)
    sgn = rng.choice([1, -1])
    A = T(Pops, *co(sgn * (big + r)))
    B = T(list(reversed(Pops)), *co(sgn * big))
    Bn = T(Pops, *co(-sgn * big))
    R = T(Pops, *co(sgn * r))
    Q = T(Qops, 1)
    g = _Prog([A, B, Bn, R, Q, S(A, Q), S(B, T(Qops, Fraction(1, 2))), S(A, Q, Bn), N(*co(sgn * (big + r))), S(T([], *co(-sgn * big)), T(Qops, 2)),
               N(-1), S(T(Pops, 2 ** 15), Q), S(T(Pops, 2 ** 15), T(Qops, -1, 0)), S()])
    d = g("sub", 0, 1); g("eq", d, 3); g("eq", 3, d)
    a2 = g("add", 0, 2); g("eq", a2, 3)
    nb = g("mul", 10, 1); a3 = g("add", nb, 0); g("eq", a3, 3)
    h = g("sub", 5, 6)                       # H1 - H2 with a large common offset
    s7 = g("simplify", 7)                    # duplicates inside one user-built sum
    g("eq", s7, g("add", 3, 4))
    g("add", 8, 9)                           # number + sum with a large constant term
    g("add", 9, 8)
    z = g("sub", d, 3); g("eq", z, 13)        # and the residue itself cancels exactly
    # product whose cross terms nearly cancel: (2^15 P + Q)(2^15 P - Q) and with a perturbed factor
    pr = g("mul", 11, 12)
    g("mul", 12, 11)
    g("add", pr, h)
    if rng.random() < 0.5:
        g("isub", 0, 1)
        g("iadd", 0, 2)
    return g.case("cancel")


def _wide_case(rng, tier):
    """coefficients of very different magnitude inside one operator / one expression (a 2^27..2^33 ratio between the
    largest and an ordinary coefficient, at four absolute levels; plus coefficients below the 1e-8 tolerance), through
    every operation and every mix of term / sum / number: the 1e-8 cut-off is ABSOLUTE and per operator string"""
    pool = _pool(rng, 3)
    qstar = rng.choice([q for q in range(14) if q not in pool])
    semi = rng.random() < 0.3            # two moderately wide sums whose PRODUCT is wide
    delta = rng.randrange(15, 18) if semi else rng.randrange(27, 34)
    lo = rng.choice([0, -10, -12] if semi else [0, 0, -10, -20, -25])
    hi = lo + delta
    strs = _strings(rng, pool, 4)
    g = _Tracked()

    def term(si, s, ops=None):
        ops = list(strs[si]) if ops is None else ops
        rng.shuffle(ops)
        return T(ops, *_scaled(rng, s))

    def wide_sum(with_negl):
        ts = [term(0, hi), term(1, lo)]
        if rng.random() < 0.5:
            ts.append(term(2, rng.choice([lo, hi, (lo + hi) // 2])))
        if rng.random() < 0.4:
            ts.append(term(rng.choice([0, 1]), lo))          # a like term at the ordinary level
        if rng.random() < 0.25:
            ts.append(T([], *_scaled(rng, rng.choice([lo, hi]))))
        if with_negl:
            ts.append(T([[qstar, rng.choice(LETTERS)]], *_scaled(rng, -30)))
        rng.shuffle(ts)
        return S(*ts), len(ts)

    Hh = g.val(term(0, hi), hi - 3, hi + 1)
    Oo = g.val(term(1, lo), lo - 3, lo + 1)
    extra = []
    menu = ["like", "W", "W", "W2", "NH", "NO", "CH", "CO", "NEG", "WNEG", "O2", "near", "MIX", "MIX", "EDGE"]
    near = None
    for what in rng.sample(menu, rng.randrange(2, 5)):
        if what == "like":
            extra.append(g.val(term(0, lo), lo - 3, lo + 1))
        elif what == "MIX":
            # ONE coefficient whose real and imaginary part are of very different size (either way round)
            a_, b_ = _scaled(rng, hi, cplx=False)[0], _scaled(rng, lo, cplx=False)[0]
            re_, im_ = (a_, b_) if rng.random() < 0.5 else (b_, a_)
            v = rng.choice([T(list(strs[rng.randrange(3)]), re_, im_), N(re_, im_), T([], re_, im_),
                            S(T(list(strs[0]), re_, im_), T(list(strs[1]), im_, re_))])
            extra.append(g.val(v, lo - 3, hi + 1, 2 if v["k"] == "sum" else 1))
        elif what == "EDGE":
            # just above / just below the 1e-8 cut-off, on strings of their own: 2^-26 (1.5e-8) stays, 2^-27 (7.5e-9) goes
            m_ = Fraction(rng.choice([8, 9, 10]), 8) * rng.choice([1, -1])
            e_ = rng.choice([-26, -27])
            c_ = (m_ * Fraction(2) ** e_, 0) if rng.random() < 0.6 else (0, m_ * Fraction(2) ** e_)
            t_ = T([[qstar, rng.choice(LETTERS)]], *c_)
            v = t_ if rng.random() < 0.5 else S(term(0, lo), t_, term(1, lo))
            extra.append(g.val(v, lo - 3, lo + 1, 3 if v["k"] == "sum" else 1, lin=True))
        elif what == "near":
            # the huge term with its coefficient moved by 2^-14 of its size: a different operator for every tolerance
            h = g.vals[Hh]
            near = g.val(T(list(h["ops"]), unrat(h["c"][0]) + Fraction(2) ** (hi - 14), unrat(h["c"][1])), hi - 14, hi + 2)
        elif what == "O2":
            extra.append(g.val(term(2, lo), lo - 3, lo + 1))
        elif what in ("W", "W2"):
            v, n = wide_sum(False)
            extra.append(g.val(v, lo - 3, hi + 3, n))
        elif what == "WNEG":
            v, n = wide_sum(True)
            extra.append(g.val(v, lo - 3, hi + 3, n, lin=True))
        elif what == "NEG":
            extra.append(g.val(T([[qstar, rng.choice(LETTERS)]], *_scaled(rng, -30)), lo - 3, lo + 1, lin=True))
        elif what in ("NH", "NO"):
            s_ = hi if what == "NH" else lo
            extra.append(g.val(N(*_scaled(rng, s_)), s_ - 3, s_ + 1))
        else:
            s_ = hi if what == "CH" else lo
            extra.append(g.val(T([], *_scaled(rng, s_)), s_ - 3, s_ + 1))
    divs = []
    for _ in range(rng.randrange(0, 3)):
        j = rng.choice([-3, -1, 1, 2, 5, hi, lo - 1, -30, -40])
        sgn = rng.choice([1, -1])
        v = N(sgn * Fraction(2) ** j) if rng.random() < 0.6 else N(0, sgn * Fraction(2) ** j)
        d = g.val(v, j, j)
        g.info[d]["j"] = j
        divs.append(d)
    small = g.val(N(*rng.choice([(2, 0), (-1, 0), (Fraction(1, 2), 0), (0, 1), (0, Fraction(-1, 4)), (1, 1)])), -2, 2)

    nsteps = rng.randrange(4, 10 if tier == "thorough" else 8)
    for _ in range(4 * nsteps):
        if len(g.steps) >= nsteps:
            break
        live, opr = g.live(), g.ops()
        a = rng.choice(opr if rng.random() < 0.8 else live)
        r = rng.random()
        if r < 0.22:
            g.add("add", *rng.sample(live, 2)) if rng.random() < 0.85 else g.add("add", a, a)
        elif r < 0.42:
            g.add("sub", *rng.sample(live, 2)) if rng.random() < 0.85 else g.add("sub", a, a)
        elif r < 0.62:
            b = rng.choice(live)
            g.mul(a, b) if rng.random() < 0.5 else g.mul(b, a)
        elif r < 0.70:
            if divs:
                g.div(a, rng.choice(divs))
        elif r < 0.78:
            g.pow(a, rng.choice([0, 1, 2, 2, 3]))
        elif r < 0.88:
            ss = [i for i in live if g.info[i]["k"] == "sum"]
            if ss:
                g.simplify(rng.choice(ss))
        else:
            g.eq(a, rng.choice(live))
    if near is not None:
        g.eq(Hh, near); g.eq(near, Hh)
        x = g.add("add", Hh, Oo); y = g.add("add", Oo, near)
        g.eq(x, y); g.eq(y, x)
    if rng.random() < 0.3:
        # a sum against a NUMBER: huge constant + an ordinary term is not the huge constant
        nh = next((i for i in extra if g.info[i]["k"] == "num" and g.info[i]["H"] == hi + 1), None)
        if nh is not None:
            x = g.add("add", nh, Oo); y = g.add("add", Oo, nh)
            g.eq(x, nh); g.eq(nh, x); g.eq(x, y)
            z = g.add("sub", x, Oo)
            g.eq(z, nh); g.eq(nh, z)
    # what the tolerance must and must not do, written as comparisons (a significant term next to a huge one)
    r = rng.random()
    if r < 0.4:
        x = g.add("add", Hh, Oo); y = g.add("add", Oo, Hh)
        if x is not None and y is not None:
            g.eq(x, y); g.eq(x, Hh); g.eq(Hh, x)
            z = g.add("sub", x, Hh)
            if z is not None:
                g.eq(z, Oo); g.eq(Oo, z)
    elif r < 0.7 and extra:
        w = rng.choice(extra)
        x = g.add("add", w, Oo); y = g.add("sub", x, Oo) if x is not None else None
        if y is not None:
            g.eq(x, y); g.eq(y, x)
            if g.info[w]["k"] == "sum":
                sw = g.simplify(w)
                g.eq(y, sw); g.eq(sw, y)
    elif r < 0.85:
        x = g.mul(Hh, small); y = g.mul(small, Hh); g.eq(x, y)
        sO = g.add("add", Hh, Oo)
        if sO is not None:
            x = g.mul(sO, small); y = g.mul(small, sO)
            if x is not None and y is not None:
                g.eq(x, y); g.eq(x, g.mul(Hh, small))
    if not g.steps:
        g.add("add", Hh, Oo)
    return g.case("wide")


# ------------------------------------------------------------------ sibling operands: one component changed, same session
def _sibling_case(rng, tier):
    """the same expression evaluated again and again on operands that differ from the first ones in exactly ONE component
    (a coefficient moved by 2^-22 - inside the same 1e-6 hash bucket -, the same operator with another dict order, an
    equal but not identical object, one letter changed, the same value as int / float / complex, a written-out identity,
    a sum with its terms permuted / one term split in two / a zero term added), interleaved with repeats of the first
    call; all on the same second operand object.  Every result must denote the matrix operation on ITS operands
    (a result remembered from a similar-looking earlier call is wrong)"""
    pool = _pool(rng, 3)
    strs = _strings(rng, pool, 4)
    nud = Fraction(1, 2 ** rng.choice([21, 22])) * rng.choice([1, -1])
    g = _Tracked()

    def reg(v, L=-4):
        n = len(v["terms"]) if v["k"] == "sum" else 1
        return g.val(v, (-22 if L is True else -4) if isinstance(L, bool) else L, 2 + (1 if v["k"] == "sum" else 0), max(n, 1))

    ka = rng.choice([7, 10, 12, 14])
    apart = Fraction(1, 2 ** ka) * rng.choice([1, -1])     # well outside the library's tolerances: == must be False
    kw = rng.choice([28, 30])
    within = Fraction(1, 2 ** kw) * rng.choice([1, -1])    # well inside 1e-8: == must be True

    re, im = _coeff(rng, allow_zero=False)
    sums = rng.random() < 0.45
    if not sums:
        ops0 = list(strs[0])
        base = T(ops0, re, im)
        sib = [(T(list(ops0), re + nud, im), True),                        # coefficient, same hash bucket
               (T(list(ops0), re + apart, im), -ka) if rng.random() < 0.5 else (T(list(ops0), re, im + apart), -ka),
               (T(list(reversed(ops0)), re + within, im), -kw),
               (T(list(reversed(ops0)), re, im), False),                   # dict order
               (T(list(ops0), re, im), False),                             # equal, not identical
               (T([[ops0[0][0], LETTERS[(LETTERS.index(ops0[0][1]) + 1) % 3]]] + ops0[1:], re, im), False),  # one letter
               (T(ops0 + [[max(pool) + 1, "I"]], re, im), False),          # written-out identity
               (S(T(list(ops0), re, im)), False)]                          # the one-term sum
        if im == 0:
            sib.append((T(list(ops0), re, 0, "int" if re.denominator == 1 else "complex"), False))
        if rng.random() < 0.3:
            # numbers Python hashes alike: hash(-1) == hash(-2), hash(-1.0) == hash(-2.0)
            re, im = Fraction(-1), Fraction(0)
            ty_ = rng.choice(["int", None])
            base = T(ops0, -1, 0, ty_)
            sib = sib[:3] + [(T(list(ops0), -2, 0, ty_), False), (T(list(ops0), -2, 0, "int" if ty_ is None else None), False),
                             (T(list(reversed(ops0)), -1, 0, "complex"), False)]
        else:
            sib.append((T(list(ops0), re, -im), False))                    # conjugate coefficient
    else:
        cs = [_coeff(rng, allow_zero=False) for _ in range(3)]
        ts = [T(list(strs[i]), *cs[i]) for i in range(3)]
        base = S(*ts)
        half = (cs[1][0] / 2, cs[1][1] / 2)
        sib = [(S(T(list(strs[0]), cs[0][0] + nud, cs[0][1]), ts[1], ts[2]), True),
               (S(ts[0], T(list(strs[1]), cs[1][0] + apart, cs[1][1]), ts[2]), -ka),
               (S(ts[1], ts[0], T(list(strs[2]), cs[2][0], cs[2][1] + within)), -kw),
               (S(ts[2], ts[0], ts[1]), False),                                                 # term order
               (S(ts[0], T(list(strs[1]), *half), ts[2], T(list(reversed(strs[1])), *half)), False),  # one term split in two
               (S(ts[0], ts[1], T(list(strs[3]), 0), ts[2]), False),                            # a zero term added
               (S(ts[0], ts[1]), False),                                                        # one term fewer
               (S(ts[0], ts[1], T(list(strs[2]), -cs[2][0], -cs[2][1])), False),                # one sign flipped
               (S(*[dict(t) for t in ts]), False)]                                              # equal, not identical
    A = reg(base)
    rng.shuffle(sib)
    sib = sib[: rng.randrange(3, 6)]
    V = [reg(v, nd) for v, nd in sib]
    B = reg(_term(rng, pool, allow_zero=False, const_p=0.05))
    nre, nim = rng.choice([(2, 0), (-1, 0), (Fraction(1, 2), 0), (0, 1), (3, 0), (1, 1), (Fraction(-3, 4), Fraction(1, 4))])
    Nn = reg(N(nre, nim))
    Nn2 = reg(N(nre + nud, nim), True)        # the sibling of the number
    D = reg(N(2)); g.info[D]["j"] = 1
    D2 = reg(N(rng.choice([4, -2, Fraction(1, 2)])))
    g.info[D2]["j"] = {4: 2, -2: 1, Fraction(1, 2): -1}[unrat(g.vals[D2]["c"][0])]
    for v in V:                               # the comparison itself, both ways round
        g.eq(A, v)
        if rng.random() < 0.6:
            g.eq(v, A)
    order = [A]
    for v in V:
        order += [v] + ([A] if rng.random() < 0.5 else [])
    fams = ["add", "radd", "sub", "rsub", "mul", "rmul", "nmul", "nrmul", "nadd", "nsub", "div", "pow", "simplify", "eq"]
    for fam in rng.sample(fams, 3 if tier == "quick" else 4):
        res = []
        p = rng.choice([2, 2, 3, 4])
        for x in order:
            if fam in ("add", "sub", "mul"):
                r = g.add(fam, x, B) if fam != "mul" else g.mul(x, B)
            elif fam in ("radd", "rsub"):
                r = g.add(fam[1:], B, x)
            elif fam == "rmul":
                r = g.mul(B, x)
            elif fam == "nmul":
                r = g.mul(x, Nn)
            elif fam == "nrmul":
                r = g.mul(Nn, x)
            elif fam == "nadd":
                r = g.add("add", Nn, x)
            elif fam == "nsub":
                r = g.add("sub", Nn, x)
            elif fam == "div":
                r = g.div(x, D)
            elif fam == "pow":
                r = g.pow(x, p)
            elif fam == "simplify":
                r = g.simplify(x)
            else:
                r = g.eq(x, B)
                g.eq(B, x)
                r = None
            res.append(r)
        # the sibling of the OTHER operand: the number / the divisor changed, the operator kept
        if fam == "nmul":
            res += [g.mul(A, Nn2), g.mul(A, Nn)]
        elif fam == "nrmul":
            res += [g.mul(Nn2, A), g.mul(Nn, A)]
        elif fam == "nadd":
            res += [g.add("add", Nn2, A), g.add("add", Nn, A)]
        elif fam == "nsub":
            res += [g.add("sub", Nn2, A), g.add("sub", A, Nn2), g.add("sub", Nn, A)]
        elif fam == "div":
            res += [g.div(A, D2), g.div(A, D)]
        elif fam == "pow":
            res += [g.pow(A, p + 1), g.pow(A, p)]
        res = [r for r in res if r is not None]
        for r in res[1:1 + (3 if tier == "quick" else 6)]:
            g.eq(res[0], r)
            if rng.random() < 0.5:
                g.eq(r, res[0])
    if not g.steps:
        g.add("add", A, B)
    return g.case("sibling")


# ------------------------------------------------------------------ the caller changes what it holds, then asks again
def _poke_value(rng, zero_p=0.0):
    if rng.random() < zero_p:
        return _c(0)
    k = rng.randrange(33, 64) * rng.choice([1, -1])
    return _c(Fraction(k, 8), rng.choice([0, 0, Fraction(rng.randrange(17, 32), 8)]))


def _poison_case(rng, tier):
    """call - assign the public `coefficient` of (a term of) the RESULT, or of an OPERAND - call again.  Whatever the
    objects hold at the time of a call is what the call must compute with: a result handed out twice, a shared identity /
    zero object, a value remembered per object (hash, key, matrix) without noticing the assignment all show up as a later
    call that does not denote the matrix operation on its operands.  (Objects the library legitimately shares between an
    operand and a result are re-read after every assignment, so sharing by itself is never reported.)"""
    pool = _pool(rng, 3)
    strs = _strings(rng, pool, 3)
    ca, cb, cc = [_coeff(rng, allow_zero=False) for _ in range(3)]
    a = T(list(strs[0]), *ca)
    b = T(list(strs[1]), *cb)
    raw = S(T(list(strs[0]), *cc), T(list(strs[2]), *cb), T(list(reversed(strs[0])), *ca))   # holds a duplicate string
    simp = S(T(list(strs[1]), *cc), T(list(strs[2]), *ca))
    nre, nim = rng.choice([(2, 0), (-1, 0), (Fraction(1, 2), 0), (0, 1), (4, 0), (0, -2)])
    A, B, RAW, SIMP, NUM = range(5)
    g = _Prog([a, b, raw, simp, N(nre, nim)])

    def poke(r, j=None):
        how = rng.choice(["coef", "coef", "coef", "append", "delete", "replace"])
        st_ = {"op": "poke", "a": r, "j": rng.randrange(4) if j is None else j, "c": _poke_value(rng)}
        if how != "coef":
            # through the public `terms` list of a sum (no effect on a term / a sum built from a tuple: then the coefficient)
            st_["how"] = how
            st_["t"] = T(list(rng.choice(strs)), *[unrat(x) for x in _poke_value(rng)])
        g.steps.append(st_)
        return len(g.vals) + len(g.steps) - 1

    def call(kind):
        x = rng.choice([A, RAW, SIMP]); y = rng.choice([B, SIMP, RAW, A])
        if kind == "bin":
            op = rng.choice(["add", "sub", "mul"])
            return lambda: g(op, x, y)
        if kind == "num":
            op = rng.choice(["add", "sub", "mul", "div"])
            if op == "div" or rng.random() < 0.5:
                return lambda: g(op, x, NUM)
            return lambda: g(op, NUM, x)
        if kind == "pow":
            p = rng.choice([0, 0, 1, 2, 3])
            return lambda: g("pow", x, p=p)
        z = rng.choice([RAW, SIMP])
        return lambda: g("simplify", z)

    r = rng.random()
    if r < 0.2:
        # assign an operand INTO equality with another operator and out of it again (== must follow, both ways round,
        # also through results computed before and after)
        j = rng.randrange(2)
        v = _poke_value(rng)
        simp2 = S(*[dict(t) for t in simp["terms"]])
        simp2["terms"][j] = dict(simp2["terms"][j], c=v)
        g.vals.append(simp2)
        SIMP2 = 5
        g("eq", SIMP, SIMP2); g("eq", SIMP2, SIMP); s0 = g("add", SIMP, B); t0 = g("add", SIMP2, B); g("eq", s0, t0)
        g.steps.append({"op": "poke", "a": SIMP, "j": j, "c": v})
        g("eq", SIMP, SIMP2); g("eq", SIMP2, SIMP); s1 = g("add", SIMP, B); g("eq", s1, t0); g("eq", t0, s1); g("eq", s1, s0)
        g("sub", SIMP, SIMP2)
        g.steps.append({"op": "poke", "a": SIMP2, "j": 1 - j, "c": _poke_value(rng)})
        g("eq", SIMP, SIMP2); g("eq", SIMP2, SIMP); g("sub", SIMP, SIMP2); g("mul", SIMP, SIMP2)
    elif r < 0.45:
        # poison the result
        for _ in range(rng.randrange(1, 3)):
            f = call(rng.choice(["bin", "bin", "num", "pow", "simplify"]))
            r1 = f(); poke(r1); r2 = f()
            if rng.random() < 0.5:
                poke(r2, 0); f()
            g("eq", r1, r2)
            # the changed result goes on as an operand (a sum that was simplified when handed out need not be any more)
            u = g("add", r1, B); g("mul", r1, A); g("sub", r1, r1); g("eq", u, r1)
            w = g("add", r1, NUM)
            g.steps.append({"op": "poke", "a": w, "j": rng.randrange(3), "c": _poke_value(rng, zero_p=0.5)})
            g("simplify", w); g("add", w, B); g("mul", w, NUM); g("pow", w, p=2); g("eq", w, w)
    elif r < 0.7:
        # identities and zeros handed out by the library: a ** 0, s ** 0, s * number (built on identity()), a - a
        x = rng.choice([A, RAW, SIMP]); y = rng.choice([A, RAW, SIMP])
        r1 = g("pow", x, p=0); poke(r1, 0); g("pow", y, p=0); g("mul", SIMP, NUM); g("mul", NUM, RAW); g("pow", y, p=2)
        g("add", x, NUM); g("div", SIMP, NUM); g("eq", A, NUM)
        z = g("sub", A, A); g("eq", z, SIMP); r2 = g("pow", SIMP, p=1); poke(r2); g("pow", SIMP, p=1); g("pow", SIMP, p=3)
    else:
        # change an OPERAND between two identical calls (values remembered per object must not survive the assignment)
        x = rng.choice([A, RAW, SIMP]); y = rng.choice([B, SIMP])
        f = call("bin")
        g("eq", x, y); g("eq", x, x); e0 = g("add", x, y); g("mul", x, y); g("pow", x, p=2); f()
        if x != A:
            g("simplify", x)
        poke(x)
        g("eq", x, y); g("eq", x, x); e1 = g("add", x, y); g("mul", x, y); g("pow", x, p=2); f(); g("eq", e0, e1); g("eq", e1, e0)
        if x != A:
            sx = g("simplify", x); poke(x); g("simplify", x); g("eq", sx, x)
        g("sub", x, x)
    return g.case("poison")


def _bigpow_case(rng, tier):
    """all exponents: powers far beyond the handful of small ones (exponent bits 10000, 11111, 100001, ...), of terms
    with unit-modulus or power-of-two coefficients and of small sums, next to the neighbouring exponents"""
    pool = _pool(rng, 2)
    strs = _strings(rng, pool, 3)
    unit = rng.choice([(1, 0), (-1, 0), (0, 1), (0, -1)])
    vals = [T(list(strs[0]), *unit), T(list(strs[1]), *rng.choice([(2, 0), (0, Fraction(1, 2)), (-2, 0), (0, -2), (Fraction(-1, 2), 0),
                                                                    (1, 1), (Fraction(1, 2), Fraction(-1, 2)), (-1, 1)])),
            T([], *rng.choice([(0, 1), (2, 0), (-1, 0)])),
            S(T(list(strs[0]), 1), T(list(strs[1]), *rng.choice([(1, 0), (0, 1), (-1, 0)]))),
            S(T(list(strs[0]), Fraction(1, 2)), T([], Fraction(1, 2))),           # a projector: every power equals itself
            S(T(list(strs[0]), 1), T(list(strs[0]), -1), T(list(strs[2]), 0, 1))]  # duplicates cancelling inside
    g = _Prog(vals)
    for _ in range(rng.randrange(3, 6)):
        a = rng.randrange(len(vals))
        p = rng.choice(list(range(7, 22)) + [31, 32, 33, 34, 40, 42, 63, 64])
        if a in (0, 4) and rng.random() < 0.4:
            p = rng.choice([100, 255, 256, 257, 1000, 1023, 1024])   # unit coefficient / projector: nothing grows
        elif a in (1, 2) and rng.random() < 0.3:
            p = rng.choice([100, 127, 128, 255, 256, 257, 500, 1000])  # 2^+-1000 and (1 + i)^1000 are still doubles
        elif a == 3 and rng.random() < 0.3:
            p = rng.choice([65, 100, 128, 255, 256])                   # (X + cY)^2 = (1 + c^2) I: grows like 2^(p/2) at most
        r1 = g("pow", a, p=p); r2 = g("pow", a, p=p + 1); r3 = g("mul", r1, a); g("eq", r2, r3)
        if rng.random() < 0.5:
            g("mul", a, r1); g("eq", r1, r2)
    return g.case("bigpow")


# ------------------------------------------------------------------ operator strings that look alike
def _lookalike_case(rng, tier):
    """different operator strings that a compact like-term key, a hash or a comparison could take for one another: the same
    letters on indices shifted by 32 / 64 / 2^31 / 2^32 / 2^40 / 2^63 / 2^64, the letters of two qubits exchanged, all letters
    rotated, one qubit moved, one factor dropped.  They are different matrices: never merged, never cancelled, never equal"""
    base_q = sorted(rng.sample(range(12), rng.randrange(1, 3)))
    ops = [[q, rng.choice(LETTERS)] for q in base_q]
    if len(ops) == 2 and ops[0][1] == ops[1][1] and rng.random() < 0.7:
        ops[1][1] = LETTERS[(LETTERS.index(ops[0][1]) + 1) % 3]

    def look(kind):
        if kind == "shift":
            k = rng.choice([32, 64, 2 ** 31, 2 ** 32, 2 ** 40, 2 ** 63, 2 ** 64])
            return [[q + k, p_] for q, p_ in ops]
        if kind == "shift1":
            k = rng.choice([32, 64, 2 ** 32, 2 ** 64])
            return [[ops[0][0] + k, ops[0][1]]] + [list(o) for o in ops[1:]]
        if kind == "swap" and len(ops) == 2:
            return [[ops[0][0], ops[1][1]], [ops[1][0], ops[0][1]]]
        if kind == "rot":
            return [[q, LETTERS[(LETTERS.index(p_) + 1) % 3]] for q, p_ in ops]
        if kind == "move":
            return [[ops[0][0] + 1 if len(ops) == 1 or ops[0][0] + 1 != ops[1][0] else ops[0][0] + 13, ops[0][1]]] + [list(o) for o in ops[1:]]
        return [list(o) for o in ops[1:]] if len(ops) == 2 else [[ops[0][0], LETTERS[(LETTERS.index(ops[0][1]) + 2) % 3]]]

    kinds = rng.sample(["shift", "shift1", "swap", "rot", "move", "drop"], 3)
    if not any(k.startswith("shift") for k in kinds):
        kinds[0] = "shift"
    ca = _coeff(rng, allow_zero=False)
    a = T(list(ops), *ca)
    looks = []
    for kd in kinds:
        o = look(kd)
        rng.shuffle(o)
        c_ = ca if rng.random() < 0.5 else _coeff(rng, allow_zero=False)   # often the SAME coefficient: a - a' must not vanish
        looks.append(T(o, *c_))
    nq = len({q for t in [a] + looks for q, _ in t["ops"]})
    while nq > 7:
        looks.pop()
        nq = len({q for t in [a] + looks for q, _ in t["ops"]})
    raw = [a] + looks + [dict(a)] + [dict(t) for t in looks[:1]]
    rng.shuffle(raw)
    g = _Prog([a] + looks + [S(*raw), S(a), S(*[dict(t) for t in looks])])
    A = 0
    L = list(range(1, 1 + len(looks)))
    RAW, SA, SL = 1 + len(looks), 2 + len(looks), 3 + len(looks)
    sr = g("simplify", RAW); g("eq", sr, SA); g("add", RAW, RAW)
    tot = g("add", SA, SL); g("eq", tot, SL); g("eq", SL, tot)
    for l in L:
        g("eq", A, l); g("eq", l, A)
        s_ = g("add", A, l); d_ = g("sub", A, l); g("eq", d_, l); g("eq", s_, A); g("eq", A, d_)
        if rng.random() < 0.6:
            g("mul", A, l); g("mul", l, A)
        if rng.random() < 0.4:
            g("pow", s_, p=2)
    g("sub", tot, SL); g("sub", SL, SA); g("mul", SA, SL)
    return g.case("lookalike")


# ------------------------------------------------------------------ sizes: long terms, long sums
def _longterm_case(rng, tier):
    """terms acting on 9 .. 70 qubits (more than any table of small cases, more than a machine word of two-bit codes),
    indices up to 80 and beyond, dictionaries in arbitrary insertion order: products both ways, sums, powers, like terms
    that differ in dict order only.  (Judged on sampled rows of the 2^n x 2^n matrices and, exactly, by the model.)"""
    n = rng.choice([9, 10, 12, 16, 17, 31, 32, 33, 40, 64, 65, 70])
    universe = rng.sample(range(80), n)
    if rng.random() < 0.3:
        universe[rng.randrange(n)] = rng.choice(HUGE_INDEX[3:])
        universe = list(dict.fromkeys(universe))

    def long_ops(k=None, base=None):
        k = rng.randrange(9, len(universe) + 1) if k is None else k
        qs = rng.sample(universe, min(k, len(universe)))
        if base is not None and rng.random() < 0.7:
            # mostly the letters of `base`, a few changed: many common qubits, a handful of clashes
            d = dict(map(tuple, base))
            return [[q, (d[q] if q in d and rng.random() < 0.8 else rng.choice(LETTERS))] for q in qs]
        return [[q, rng.choice(LETTERS)] for q in qs]

    oa = long_ops()
    ca, cl = _coeff(rng, allow_zero=False), _coeff(rng, allow_zero=False)
    if (ca[0] + cl[0], ca[1] + cl[1]) == (0, 0):
        cl = (cl[0] + Fraction(1, 8), cl[1])
    a = T(oa, *ca)
    b = T(long_ops(base=oa), *_coeff(rng, allow_zero=False))
    a2 = list(oa); rng.shuffle(a2)
    alike = T(a2, *cl)                                                   # the string of a in another dict order
    merged = T(sorted(oa), ca[0] + cl[0], ca[1] + cl[1])                 # a + alike written down directly
    short = T(long_ops(k=rng.randrange(1, 4)), *_coeff(rng, allow_zero=False))
    c = T(long_ops(k=len(oa), base=oa), *_coeff(rng, allow_zero=False))
    raw = S(dict(a), b, alike, short, T(list(reversed(oa)), *_coeff(rng, allow_zero=False)))
    A, B, ALIKE, SHORT, C, RAW, NUM, MERGED = range(8)
    g = _Prog([a, b, alike, short, c, raw, N(*rng.choice([(2, 0), (0, 1), (Fraction(-1, 2), 0), (1, 1)])), merged])
    ab = g("mul", A, B); ba = g("mul", B, A); g("add", ab, ba); g("sub", ab, ba); g("eq", ab, ba)
    sr = g("simplify", RAW); g("eq", sr, RAW)
    m = g("add", A, ALIKE); g("sub", A, ALIKE); g("eq", A, ALIKE); g("eq", m, MERGED); g("eq", MERGED, m)
    m2 = g("add", ALIKE, A); g("eq", m, m2)
    pool_ops = [A, B, ALIKE, SHORT, C, RAW, sr, m, ab]
    for _ in range(rng.randrange(3, 7)):
        x, y = rng.choice(pool_ops), rng.choice(pool_ops)
        r = rng.random()
        if r < 0.4:
            g("mul", x, y)
        elif r < 0.55:
            g(rng.choice(["add", "sub"]), x, y)
        elif r < 0.7:
            t_ = rng.choice([A, B, C, SHORT])
            g("pow", t_, p=rng.choice([2, 3, 4, 5]))
        elif r < 0.8:
            g("mul", x, NUM) if rng.random() < 0.5 else g("mul", NUM, x)
        elif r < 0.9:
            g("div", x, NUM)
        else:
            g("eq", x, y)
    s2 = g("add", A, C); g("pow", s2, p=2)
    return g.case("longterm")


def _longsum_case(rng, tier, ladder=False):
    """(ladder: 255 .. 1025 terms on 5 qubits, linear operations only – the number of terms is unbounded in the property, the sizes
    cross the round numbers where a chunked / block-wise merge of like terms would sit)
    sums of 9 .. 130 terms (on 2 - 4 qubits, so with many like terms in every order): simplify, + - *, == of the same
    terms in another order, against short operands of every kind"""
    pool = _pool(rng, 4)
    if len(pool) < 2:
        pool = sorted(set(pool + [pool[0] + 1]))
    L = rng.choice([9, 12, 17, 33, 63, 64, 65, 70, 129] if tier == "quick" else [9, 16, 33, 63, 64, 65, 100, 128, 129, 200])
    if ladder:
        pool = list(range(5))
        L = rng.choice([255, 256, 257, 511, 512, 513, 1023, 1024, 1025])
    ts = [_term(rng, pool, allow_zero=(rng.random() < 0.3), const_p=0.05) for _ in range(L)]
    for t in ts:
        t.pop("ty", None)
    perm = [dict(t, ops=rng.sample(t["ops"], len(t["ops"]))) for t in ts]
    rng.shuffle(perm)
    short = _sum(rng, pool)
    LONG, PERM, SHORT, TERM, NUM, EMPTY = range(6)
    g = _Prog([S(*ts), S(*perm, ty="tuple" if rng.random() < 0.3 else None), short, _term(rng, pool, allow_zero=False),
               N(*rng.choice([(2, 0), (0, 1), (Fraction(-1, 2), 0), (1, -1)])), S()])
    s1 = g("simplify", LONG); s2 = g("simplify", PERM); g("eq", s1, s2); g("eq", s2, s1)
    a1 = g("add", LONG, EMPTY); g("eq", a1, s1); d = g("sub", LONG, PERM); g("eq", d, EMPTY); g("eq", EMPTY, d)
    g("add", LONG, PERM); g("add", LONG, TERM); g("sub", TERM, LONG); g("add", NUM, LONG); g("sub", LONG, NUM)
    g("mul", LONG, TERM); g("mul", TERM, LONG); g("mul", LONG, NUM); g("mul", NUM, LONG); g("div", LONG, NUM)
    if ladder:
        return g.case("longsum")
    g("mul", LONG, SHORT); m2 = g("mul", SHORT, PERM); g("eq", LONG, PERM)
    if L <= 20:
        g("pow", LONG, p=2); g("mul", LONG, PERM)
    g("pow", s1, p=2); g("mul", s1, s2)
    return g.case("longsum")


# ------------------------------------------------------------------ number types, augmented assignment
def _types_case(rng, tier):
    """the same values carried by every legal Python type: int / float / complex / bool, numpy's float64 and complex128
    (which ARE float / complex); as coefficients and as plain numbers (numpy scalars on the right only: on the left numpy's
    own operator takes over before the library is asked); int / int division that is not exact in integers"""
    pool = _pool(rng, 3)
    strs = _strings(rng, pool, 3)
    k1 = rng.choice([1, 3, -1, 5, -7, 2, -6])
    a_int = T(list(strs[0]), k1, 0, "int")
    a_np = T(list(strs[1]), Fraction(rng.randrange(-16, 17) or 3, 8), 0, "npfloat")
    cz = _coeff(rng, allow_zero=False)
    a_npc = T(list(strs[2]), cz[0], cz[1] or Fraction(3, 8), "npcomplex")
    a_bool = T(list(strs[0]), 1, 0, "bool")
    su = S(dict(a_int), a_np, a_npc, T(list(strs[0]), k1 + 1, 0, "int"))
    d_int = N(rng.choice([2, 4, -2, 8, -4]), 0, "int")
    n_npf = N(Fraction(rng.choice([2, -4, 1, -1]), rng.choice([1, 2, 4])), 0, "npfloat")     # +-2^k: exact reciprocal
    n_npc = N(*rng.choice([(0, 1), (1, 1), (Fraction(1, 2), Fraction(-1, 2)), (0, -2)]), "npcomplex")
    n_true, n_false = N(1, 0, "bool"), N(0, 0, "bool")
    AI, ANP, ANPC, AB, SU, DI, NF, NC, TRUE, FALSE = range(10)
    g = _Prog([a_int, a_np, a_npc, a_bool, su, d_int, n_npf, n_npc, n_true, n_false])
    ops = [AI, ANP, ANPC, AB, SU]
    g("div", AI, DI); g("div", SU, DI); g("mul", AI, DI); g("mul", DI, AI); g("add", AI, DI); g("sub", DI, AI)
    for _ in range(rng.randrange(6, 12)):
        x = rng.choice(ops)
        r = rng.random()
        if r < 0.45:
            g(rng.choice(["mul", "add", "sub", "div", "eq"]), x, rng.choice([NF, NC]))       # numpy scalar on the right
        elif r < 0.65:
            nb = rng.choice([TRUE, FALSE, DI])
            op = rng.choice(["mul", "add", "sub", "eq"])
            g(op, x, nb) if rng.random() < 0.5 else g(op, nb, x)
        elif r < 0.8:
            g(rng.choice(["mul", "add", "sub", "eq"]), x, rng.choice(ops))
        elif r < 0.9:
            g("pow", x, p=rng.choice([0, 1]), pbool=True)
        else:
            g("pow", x, p=rng.choice([2, 3]))
    g("div", ANPC, TRUE); g("simplify", SU); g("mul", SU, SU); g("eq", AB, TRUE); g("eq", TRUE, AB)
    c = g.case("types")
    return c


# ------------------------------------------------------------------ the type ladder of a coefficient / scalar operand
# (name, coefficient tags, complex values, bits carried by the narrowest type, bound on log2 |like-term sum| (integer overflow),
#  value grid, where == is defined on the unchanged library: "all" / "terms" (PauliTerm == PauliTerm or number only) / None)
LADDER_FAMILIES = [
    ("complex64", ("c64",), True, 20, None, "eighths", "terms"),
    ("clongdouble", ("clg", "flg"), True, 52, None, "eighths", "terms"),
    ("float32", ("f32",), False, 20, None, "eighths", "terms"),
    ("float16", ("f16",), False, 9, None, "halves", "terms"),
    ("longdouble", ("flg",), False, 52, None, "eighths", "terms"),
    ("numpy-mixed", ("c64", "f32", "flg", "clg", "i16", "i32", "nb", "pb"), True, 20, None, "eighths", "terms"),
    ("int8", ("i8", "u8", "nb", "pb"), False, 30, 6, "ints", "all"),
    ("ints", ("i16", "i32", "i64", "u16", "nb", "pb"), False, 30, 14, "ints", "all"),
    ("exact-objects", ("fr", "si", "sr", "sf"), False, 52, None, "eighths", None),
]
SCALAR_INT_TAGS = ("i8", "i16", "i32", "i64", "u8", "nb")


def _ladder_case(rng, tier, family=None):
    """the NUMBER TYPE of a coefficient: the same exact values carried by numpy complex64 / clongdouble / float32 / float16 /
    longdouble / int8..int64 / uint8 / uint16 / bool_, Python bool, fractions.Fraction and sympy Integer / Rational / Float
    (a complex-valued type that is not a subclass of `complex`, a real one that is not a `float`, an integer one that is not an
    `int`), mixed with plain Python numbers, through every operation and operand-kind mix; scalar operands of the types the
    unchanged library accepts there (numpy integers / Fraction as divisor and as right operand of `-`; Fraction / sympy numbers as
    LEFT operand of + and - on a term).  A generator-side bound on the binary exponents (`_Tracked`, with the mantissa of the
    narrowest type of the family and, for integer types, a magnitude bound) keeps every intermediate exact IN THAT TYPE, so the
    exact model must agree to the last bit.  == is only asked where the unchanged library defines it (see ASSUMPTIONS)."""
    name, tags, cplx, span, hmax, grid, eqmode = family or rng.choice(LADDER_FAMILIES)
    sym = name == "exact-objects"
    pool = _pool(rng, 3)
    strs = _strings(rng, pool, 4)
    g = _Tracked(span_max=span, hmax=hmax)
    L0, H0 = {"eighths": (-3, 2), "halves": (-1, 2), "ints": (0, 3)}[grid]

    def value():
        if grid == "eighths":
            re = Fraction(rng.randrange(1, 17) * rng.choice([1, -1]), 8)
            im = Fraction(rng.randrange(-16, 17), 8) if cplx and rng.random() < 0.6 else Fraction(0)
        elif grid == "halves":
            re, im = Fraction(rng.randrange(1, 5) * rng.choice([1, -1]), 2), Fraction(0)
        else:
            re, im = Fraction(rng.choice([1, 1, 2, 3, 5, 7, -1, -2, -3])), Fraction(0)
        return re, im

    def typed(re, im, p=0.8):
        fits = [t for t in tags if ladder_value(t, re, im) is not None]
        if fits and rng.random() < p:
            return rng.choice(fits)
        # plain Python next to it (never a Python int next to unsigned numpy types: numpy refuses uint + negative int; sympy refuses bool)
        return rng.choice([None, "complex"]) if (im != 0 or "u8" in tags or "u16" in tags or rng.random() < 0.7) else "int" if re.denominator == 1 else None

    def term(ops, p=0.8):
        re, im = value()
        return T(list(ops), re, im, typed(re, im, p))

    def reg(v):
        n = len(v["terms"]) if v["k"] == "sum" else 1
        return g.val(v, L0, H0 + (max(n, 1).bit_length() if v["k"] == "sum" else 0), max(n, 1))

    A = reg(term(strs[0], 1.0))
    B = reg(term(strs[1]))
    Cc = reg(term(strs[2]) if rng.random() < 0.7 else term([]))
    PL = reg(term(strs[rng.randrange(3)], 0.0))                                  # a plain Python coefficient next to them
    a0 = g.vals[A]
    TW = reg(T(list(reversed(a0["ops"])), unrat(a0["c"][0]), unrat(a0["c"][1]), rng.choice([None, "complex"])))  # A's value, plain type
    # the same operator string with ONE part of the coefficient moved by a grid step, carried by A's type where it fits
    step = {"eighths": Fraction(1, 8), "halves": Fraction(1, 2), "ints": Fraction(1)}[grid]
    sre, sim = unrat(a0["c"][0]), unrat(a0["c"][1])
    if cplx and rng.random() < 0.7:
        sim = -sim if sim != 0 and rng.random() < 0.5 else sim + step        # conjugate / imaginary part moved
    else:
        sre = sre + step if abs(sre + step) <= abs(sre) or grid != "ints" else sre - step
    sty = a0.get("ty") if ladder_value(a0.get("ty") or "", sre, sim) is not None else typed(sre, sim, 1.0)
    SIB = reg(T(list(a0["ops"]), sre, sim, sty))
    raw = [term(strs[0]), term(strs[1]), term(list(reversed(strs[0]))), term(strs[3])]
    if rng.random() < 0.4:
        raw.append(term([]))
    rng.shuffle(raw)
    S1 = reg(S(*raw))                                                            # holds a duplicate operator string
    S2 = reg(S(term(strs[1]), term(strs[2]), ty="tuple" if rng.random() < 0.15 else None))
    N2 = g.val(N(*rng.choice([(2, 0), (-1, 0), (Fraction(1, 2), 0), (4, 0)])), -1, 3)
    NI = g.val(N(*rng.choice([(0, 1), (0, -1), (1, 1)])), 0, 2) if grid != "ints" or rng.random() < 0.5 else N2
    dv, dj = rng.choice([(2, 1), (4, 2), (-2, 1), (1, 0)])
    dt = "fr" if sym else rng.choice([t for t in SCALAR_INT_TAGS + ("fr",) if ladder_value(t, dv, 0) is not None])
    D = g.val(N(dv, 0, dt), dj, dj)
    g.info[D]["j"] = dj
    DF = g.val(N(Fraction(1, 2), 0, "fr"), -1, -1)                              # a Fraction as divisor: 1.0 / Fraction is a float
    g.info[DF]["j"] = -1
    sv = rng.choice([1, 2, 3, 5])
    SB = g.val(N(sv, 0, "fr" if sym else rng.choice([t for t in SCALAR_INT_TAGS + ("fr",) if ladder_value(t, sv, 0) is not None])), 0, 3)
    NL = None
    if sym:
        lv = Fraction(rng.randrange(1, 17), 8) if rng.random() < 0.6 else Fraction(rng.randrange(1, 6))
        NL = g.val(N(lv, 0, rng.choice([t for t in ("fr", "sr", "sf", "si") if ladder_value(t, lv, 0) is not None])), -3, 3)
    cre, cim = value()
    CT = reg(T([], cre, cim, typed(cre, cim, 1.0)))
    NCT = g.val(N(cre, cim), L0, H0)
    terms_, sums_ = [A, B, Cc, PL], [S1, S2]

    def mark(r):
        # exact-object numbers: sympy leaves a product of two complex sums unexpanded and numpy cannot test it against zero --
        # products of RESULTS are not asked (products of the operands, their sums and differences, are)
        if sym and r is not None:
            g.info[r]["lin"] = True
        return r

    menu = [
        lambda: mark(g.mul(A, B)), lambda: mark(g.mul(B, A)), lambda: g.add("add", A, B), lambda: g.add("sub", A, B), lambda: g.add("sub", B, PL),
        lambda: mark(g.mul(A, PL)), lambda: mark(g.mul(PL, A)), lambda: g.add("add", PL, A), lambda: g.add("add", A, TW), lambda: g.add("sub", A, TW),
        lambda: g.add("sub", A, SIB), lambda: g.add("add", SIB, A),
        lambda: g.add("iadd", A, B), lambda: g.add("isub", S1, A), lambda: g.add("iadd", S2, PL), lambda: g.add("isub", A, SB),   # x = a; x += b
        lambda: mark(g.mul(A, S1)), lambda: mark(g.mul(S1, A)), lambda: mark(g.mul(S1, S2)), lambda: mark(g.mul(S2, S1)), lambda: mark(g.mul(S2, S2)),
        lambda: g.add("add", S1, A), lambda: g.add("add", A, S1), lambda: g.add("sub", S1, Cc), lambda: g.add("sub", Cc, S1), lambda: g.add("add", S1, S2),
        lambda: g.add("sub", S2, S1), lambda: g.add("sub", S1, S1), lambda: g.simplify(S1), lambda: g.simplify(S2),
        lambda: g.mul(A, N2), lambda: g.mul(N2, A), lambda: g.mul(S1, N2), lambda: g.mul(N2, S1), lambda: g.mul(A, NI), lambda: g.mul(NI, S2),
        lambda: g.add("add", A, N2), lambda: g.add("add", N2, S1), lambda: g.add("sub", N2, A), lambda: g.add("sub", S1, N2),
        lambda: g.div(A, D), lambda: g.div(S1, D), lambda: g.div(A, DF), lambda: g.div(S2, DF), lambda: g.div(B, N2) if "j" in g.info[N2] else None,
        lambda: g.add("sub", A, SB), lambda: g.add("sub", S1, SB), lambda: g.add("sub", Cc, SB),
        lambda: mark(g.pow(A, rng.choice([2, 3]))), lambda: mark(g.pow(B, 2)), lambda: g.pow(A, 0), lambda: g.pow(S1, 0), lambda: g.pow(S2, 1),
        lambda: mark(g.pow(S2, 2)), lambda: mark(g.pow(S1, 2)),
    ]
    if sym:
        menu += [lambda: g.add("add", NL, A), lambda: g.add("sub", NL, A), lambda: g.add("add", NL, Cc), lambda: g.add("sub", NL, B)] * 2
    want = rng.randrange(8, 14 if tier == "thorough" else 12)
    results = []
    for f in rng.sample(menu, len(menu)):
        if len(g.steps) >= want:
            break
        r = f()
        if r is not None:
            results.append(r)
    # second generation: the results (of whatever type the library gave them) go on as operands
    for _ in range(rng.randrange(2, 5)):
        if not results:
            break
        x = rng.choice(results)
        y = rng.choice(results + terms_ + sums_)
        h = rng.random()
        if h < 0.3:
            r = g.add(rng.choice(["add", "sub"]), x, y)
        elif h < 0.55:
            r = mark(g.mul(x, y) if rng.random() < 0.5 else g.mul(y, x))
        elif h < 0.7:
            r = g.mul(x, rng.choice([N2, NI]))
        elif h < 0.8:
            r = g.div(x, rng.choice([D, DF]))
        elif h < 0.9 and g.info[x]["k"] == "sum":
            r = g.simplify(x)
        else:
            r = g.add("sub", x, SB)
        if r is not None:
            results.append(r)
    # == where the unchanged library defines it
    if eqmode is not None:
        g.eq(A, TW); g.eq(TW, A); g.eq(A, B); g.eq(A, PL); g.eq(A, A); g.eq(A, SIB); g.eq(SIB, A); g.eq(SIB, TW)
        g.eq(CT, NCT); g.eq(NCT, CT); g.eq(CT, N2); g.eq(A, NCT)     # a constant term against the plain number of its value
        if eqmode == "all":
            x = g.add("add", A, B); y = g.add("add", B, A)
            g.eq(x, y); g.eq(y, x); g.eq(x, A); g.eq(A, x)
            sx = g.simplify(S1); g.eq(sx, S2); g.eq(sx, sx)
            for r in rng.sample(results, min(3, len(results))):
                g.eq(r, rng.choice(results)); g.eq(r, r)
            g.eq(S2, B)
    if not g.steps:
        g.add("add", A, B)
    c = g.case("ladder")
    c["family"] = name
    if eqmode != "all":
        c["no_selfeq"] = True     # == between sums is undefined for this family on the unchanged library (ASSUMPTIONS)
    return c


def _inplace_case(rng, tier):
    """augmented assignment `x = a; x += b` (also -= *= /= **=) gives the value of the plain operation and must leave the
    object `a` (still held under its own name) alone; the plain operation on the same objects follows"""
    pool = _pool(rng, 3)
    strs = _strings(rng, pool, 3)
    a = T(list(strs[0]), *_coeff(rng, allow_zero=False))
    b = T(list(rng.choice(strs[:2])), *_coeff(rng, allow_zero=False))
    raw = S(dict(a), T(list(strs[1]), *_coeff(rng)), T(list(reversed(strs[0])), *_coeff(rng, allow_zero=False)))
    simp = S(T(list(strs[1]), *_coeff(rng, allow_zero=False)), T(list(strs[2]), *_coeff(rng, allow_zero=False)),
             ty="tuple" if rng.random() < 0.2 else None)
    nre, nim = rng.choice([(2, 0), (-1, 0), (Fraction(1, 2), 0), (0, 1), (4, 0), (0, -2)])
    A, B, RAW, SIMP, NUM = range(5)
    g = _Prog([a, b, raw, simp, N(nre, nim)])
    for _ in range(rng.randrange(3, 7)):
        x = rng.choice([A, RAW, SIMP, A, SIMP]); y = rng.choice([B, RAW, SIMP, NUM, A])
        fam = rng.choice(["add", "sub", "mul", "div", "pow"])
        if fam == "div":
            y = NUM
        if fam == "pow":
            p = rng.choice([0, 1, 2, 3])
            r1 = g("ipow", x, p=p); r2 = g("pow", x, p=p)
        else:
            r1 = g("i" + fam, x, y); r2 = g(fam, x, y)
        g("eq", r1, r2)
        if rng.random() < 0.4:
            g("i" + rng.choice(["add", "sub", "mul"]), r1, x)      # the result of the first goes on, the operand is used again
            g("eq", x, x)
    return g.case("inplace")


# ------------------------------------------------------------------ one value reached along two floating-point routes
def _routes_case(rng, tier):
    """the same operator computed along two routes whose doubles differ in the last bits ((a / 3) * 3 vs a, (a + b) * n vs
    a * n + b * n, ten times a * 0.1 vs a, a * n1 * n2 vs a * (n1 n2)): both are simplified operators denoting the same
    matrix to 1e-16, so == must be True (and every step the matrix operation, to double rounding)"""
    pool = _pool(rng, 3)
    strs = _strings(rng, pool, 3)
    a = T(list(strs[0]), *_coeff(rng, allow_zero=False))
    b = T(list(strs[1]), *_coeff(rng, allow_zero=False))
    su = S(T(list(strs[0]), *_coeff(rng, allow_zero=False)), T(list(strs[2]), *_coeff(rng, allow_zero=False)),
           T(list(strs[1]), *_coeff(rng, allow_zero=False)))
    n1 = rng.choice([3, 7, Fraction(0.1), Fraction(0.3), 5, Fraction(1.7)])
    n2 = rng.choice([3, Fraction(0.7), 9, Fraction(1.1), 6])
    n12 = Fraction(float(n1) * float(n2))
    A, B, SU, N1, N2, N12, TENTH, TEN = range(8)
    g = _Prog([a, b, su, N(n1), N(n2), N(n12), N(Fraction(0.1)), N(10)])
    x = rng.choice([A, SU])
    for _ in range(rng.randrange(2, 5)):
        r = rng.random()
        if r < 0.25:
            d = g("div", x, N1); m = g("mul", d, N1); g("eq", m, x); g("eq", x, m)
            sx = g("add", x, B); sm = g("add", m, B); g("eq", sx, sm); g("eq", sm, sx)
        elif r < 0.5:
            s_ = g("add", x, B); l = g("mul", s_, N1); xa = g("mul", x, N1); xb = g("mul", B, N1); r_ = g("add", xa, xb)
            g("eq", l, r_); g("eq", r_, l)
        elif r < 0.7:
            t = g("mul", x, TENTH); acc = g("add", t, t)
            for _k in range(8):
                acc = g("add", acc, t)
            sx = g("add", x, B); sa = g("add", acc, B); g("eq", sx, sa); g("eq", sa, sx)
            back = g("mul", t, TEN); sb = g("add", back, B); g("eq", sb, sx)
        elif r < 0.85:
            u = g("mul", x, N1); u = g("mul", u, N2); v = g("mul", x, N12)
            su_ = g("add", u, B); sv = g("add", v, B); g("eq", su_, sv); g("eq", sv, su_)
        else:
            d1 = g("div", x, N1); d2 = g("div", d1, N2); e = g("div", x, N12)
            s1 = g("add", d1, B); g("sub", s1, d1)
            sd = g("add", d2, B); se = g("add", e, B); g("eq", sd, se); g("eq", se, sd)
        x = rng.choice([A, SU])
    c = g.case("routes")
    c["exact"] = False
    return c


# ---- many negligible contributions to ONE operator string that add up (class of C03_r9m3) / division by an exact zero (C03_r9m1)
ACC_BAND = (0.6e-8, 1.6e-8)   # no merged total is generated this close to the 1e-8 cut-off (the exact model and doubles could disagree)


def _acc_strings(rng, nq, kind):
    """2^nq operator strings closed under the product (one fixed letter per qubit: every pair of strings lands on a string
    of the family, 2^nq pairs per string), or with all four letters on the first qubit (phases i / -i among the pairs)"""
    qs = rng.sample(range(0, 6), nq)
    letters = {q: rng.choice(LETTERS) for q in qs}
    out = []
    for mask in range(2 ** nq):
        out.append(sorted([q, letters[q]] for k, q in enumerate(qs) if mask >> k & 1))
    if kind == "full1":
        q0 = qs[0]
        rest = [[o for o in s_ if o[0] != q0] for s_ in out if not any(o[0] == q0 for o in s_)]
        out = [sorted(r_ + ([[q0, l]] if l else [])) for r_ in rest for l in (None, "X", "Y", "Z")]
    return out


def _acc_terms(rng, strings, m, eps, phase=(1, 0), sign=1):
    """m terms on the given strings (round robin: every string m / len(strings) times), coefficients eps * u, u in [0.5, 1.5]"""
    ts = []
    for j in range(m):
        u = Fraction(rng.randrange(32, 97), 64) * sign
        e = Fraction(eps)
        ts.append(T(strings[j % len(strings)], e * u * phase[0], e * u * phase[1]))
    rng.shuffle(ts)
    return ts


def _acc_totals(case):
    """merged totals of the last result of an accumulation case (oracle arithmetic, exact expected table)"""
    c = case
    regs = list(c["vals"])
    tab = None
    for s in c["steps"]:
        va = regs[s["a"]]
        vb = regs[s["b"]] if "b" in s else None
        if s["op"] == "eq":
            regs.append(None); continue
        tab = _exp_table(s["op"], s, va, vb)
        if tab is None:
            return None
        if s["op"] == "sub" and vb["k"] == "sum":
            if any(ACC_BAND[0] <= abs(x) <= ACC_BAND[1] for x in _coeff_table(vb).values()):
                return None
        regs.append({"k": "sum", "terms": [{"k": "term", "ops": [list(o) for o in k], "c": _c(Fraction(z.real), Fraction(z.imag))}
                                          for k, z in tab.items()]})
        if any(ACC_BAND[0] <= abs(x) <= ACC_BAND[1] for x in tab.values()):
            return None
    return tab


ACC_ROUTES = ["sum*sum", "sum*sum-asym", "square", "A*A", "term*sum", "sum*term", "sum*num", "num*sum", "sum/num", "pow3", "pow4",
              "add", "sub", "term+sum", "sum+term", "num+sum", "sum-term", "term-sum", "simplify", "imul", "iadd"]


def _accum_case(rng, tier, route=None, mode=None):
    """MANY (8..64) contributions to one operator string, each of modulus in [1e-10, 1e-8] -- at or below the library's cut-off --
    whose total is well above 1e-8 (mode `above`) or, as a control, well below (mode `below`): through sum*sum, term*sum, sum*term,
    sum*number, number*sum, sum/number, **2 / **3 / **4, + and - in every operand order, simplify() of a hand-built list, augmented
    assignment.  The cut-off is per RESULTING string, after the like terms are merged."""
    route = route or rng.choice(ACC_ROUTES)
    mode = mode or ("above" if rng.random() < 0.75 else "below")
    for attempt in range(30):
        per = rng.choice([8, 8, 16, 16, 32, 64])                      # contributions per resulting string
        if mode == "above":
            p = rng.uniform(2.5e-8, 3e-7) / per                        # typical single contribution (u*v averages 1)
            p = min(max(p, 4.5e-10), 4.2e-9)
        else:
            p = rng.uniform(5e-10, 4e-9) / per
            p = max(p, 1.1e-10) if per <= 16 else p                    # (with 32 / 64 contributions the control goes below 1e-10 each)
        ph = rng.choice([(1, 0), (1, 0), (-1, 0), (0, 1), (Fraction(3, 4), Fraction(-1, 2))])
        kind = "full1" if rng.random() < 0.25 else "abelian"
        g = None
        if route in ("sum*sum", "sum*sum-asym", "square", "A*A", "pow3", "pow4", "imul"):
            nq = {8: 3, 16: 4, 32: 5, 64: 6}[per] if route in ("square", "A*A", "pow3", "pow4") else rng.choice([1, 2, 3])
            if route in ("pow3", "pow4") and nq > 4:
                nq, per = 3, 8
                p = min(max(p, 4.5e-10), 4.2e-9)
            strs = _acc_strings(rng, nq - 1, kind) if (kind == "full1" and nq >= 3) else _acc_strings(rng, nq, "abelian")
            ns = len(strs)
            if route in ("square", "A*A", "pow3", "pow4"):
                per = ns
                eps = {"square": p ** 0.5, "A*A": p ** 0.5, "pow3": (p / ns) ** (1 / 3), "pow4": (p ** 0.5 / ns) ** 0.5}[route]
                A = S(*_acc_terms(rng, strs, ns, eps, ph))
                g = _Prog([A])
                if route == "A*A":
                    g("mul", 0, 0)
                else:
                    g("pow", 0, p={"square": 2, "pow3": 3, "pow4": 4}[route])
            else:
                # hand-built operands holding every string several times: ma * mb pairs on ns strings
                ma = ns * rng.choice([1, 2]); mb = max(ns, per * ns // ma)
                ea, eb = (p ** 0.5, p ** 0.5) if route != "sum*sum-asym" else rng.choice([(1.0, p), (p, 1.0), (p * 64, 1 / 64)])
                A = S(*_acc_terms(rng, strs, ma, ea, ph)); B = S(*_acc_terms(rng, strs, mb, eb))
                g = _Prog([A, B])
                if route == "imul":
                    g("imul", 0, 1)
                else:
                    g("mul", 0, 1); g("mul", 1, 0)
        elif route in ("term*sum", "sum*term", "sum*num", "num*sum", "sum/num"):
            strs = _acc_strings(rng, rng.choice([1, 2]), "abelian")[1:] or [[]]
            scale = rng.choice([1.0, 1 / 1024, 1 / 2 ** 20, p])     # the sum's own coefficients may be large or themselves negligible
            B = S(*_acc_terms(rng, strs, per * len(strs), p / scale, ph))
            if route in ("term*sum", "sum*term"):
                other = T(rng.choice(_acc_strings(rng, 2, "abelian")), Fraction(scale))
            elif route == "sum/num":
                other = N(Fraction(1 / scale))
            else:
                other = N(Fraction(scale))
            g = _Prog([B, other])
            g({"sum/num": "div"}.get(route, "mul"), *((1, 0) if route in ("term*sum", "num*sum") else (0, 1)))
        else:
            strs = _acc_strings(rng, rng.choice([1, 2]), "abelian")
            if route in ("num+sum",):
                strs = [[]] + strs[1:2]
            m1 = per // 2 if route in ("add", "sub", "iadd") else per - 1
            A = S(*_acc_terms(rng, strs, max(1, m1) * len(strs), p, ph))
            sgn = -1 if route in ("sub", "sum-term", "term-sum") else 1
            if route in ("add", "sub", "iadd"):
                B = S(*_acc_terms(rng, strs, (per - m1) * len(strs), p, ph, sign=sgn))
            elif route == "num+sum":
                B = N(Fraction(p) * ph[0], Fraction(p) * ph[1])
            elif route == "simplify":
                B = None
            else:
                B = T(strs[-1], Fraction(p) * ph[0] * sgn, Fraction(p) * ph[1] * sgn)
            g = _Prog([A] + ([B] if B is not None else []))
            if route == "simplify":
                g("simplify", 0)
            elif route == "iadd":
                g("iadd", 0, 1)
            elif route in ("add",):
                g("add", 0, 1); g("add", 1, 0)
            elif route == "sub":
                g("sub", 0, 1)
            elif route in ("term+sum", "num+sum"):
                g("add", 1, 0)
            elif route == "sum+term":
                g("add", 0, 1)
            elif route == "sum-term":
                g("sub", 0, 1)
            else:  # term-sum: B - A with B = -p * string: -(p + sum of A)
                g("sub", 1, 0)
        case = g.case("accum")
        tab = _acc_totals(case)
        if tab is None:
            continue
        top = max([abs(x) for x in tab.values()], default=0.0)
        if (mode == "above" and top >= 2e-8) or (mode == "below" and top <= ACC_BAND[0]):
            break
    case["exact"] = False
    case["route"] = route
    case["mode"] = mode
    case["per_string"] = per
    return case


DIV_ZEROS = [("int", "0"), (None, "0.0"), ("complex", "0j"), ("negzero", "-0.0"), ("negzeroj", "complex(-0.0, -0.0)"), ("bool", "False"),
             ("fr", "Fraction(0)"), ("npfloat", "np.float64(0)"), ("npcomplex", "np.complex128(0)")]
# numpy zeros as divisors were not generated while the library returned operators with inf / nan coefficients for them (1.0 / <numpy
# zero> is inf with a RuntimeWarning); repaired in /repo (609ad0a), np.float64(0) / np.complex128(0) are generated like every other zero


def _divzero_case(rng, tier, zero=None, operand=None):
    """op / z for an exact zero z of every number type the library accepts as a divisor, op a term / a sum / the empty sum / an
    all-cancelling sum, with Python, numpy-typed and Fraction coefficients, as a first step and on a result of the arithmetic,
    through / and /=: there is no matrix M / 0, so no operator may come back"""
    zty, _ = zero or rng.choice(DIV_ZEROS)
    operand = operand or rng.choice(["term", "term-np", "term-narrow", "term-int", "sum", "sum-np", "empty", "cancelled", "zero-term",
                                     "result-sum", "result-term", "term-fr"])
    pool = _pool(rng, 3)
    ops1 = rng.choice(_acc_strings(rng, 2, "abelian")[1:])
    ops2 = rng.choice(_acc_strings(rng, 2, "abelian"))
    k, l = rng.randrange(1, 17), rng.randrange(-16, 17)
    Z = N(0, 0, zty)
    steps_before = []
    if operand == "term":
        vals = [T(ops1, Fraction(k, 8), Fraction(l, 8) if rng.random() < 0.5 else 0)]
    elif operand == "term-np":
        vals = [T(ops1, Fraction(k, 8), Fraction(l, 8), "npcomplex") if rng.random() < 0.5 else T(ops1, Fraction(k, 8), 0, "npfloat")]
    elif operand == "term-narrow":
        vals = [T(ops1, Fraction(k, 8), 0, rng.choice(["f32", "c64", "f16", "flg", "clg"]))]
    elif operand == "term-int":
        vals = [T(ops1, k, 0, rng.choice(["int", "i8", "i64", "u8"]))]
    elif operand == "term-fr":
        vals = [T(ops1, Fraction(k, 8), 0, "fr")]
    elif operand == "sum":
        vals = [S(T(ops1, Fraction(k, 8)), T(ops2, Fraction(l or 3, 8), Fraction(k, 8)))]
    elif operand == "sum-np":
        vals = [S(T(ops1, Fraction(k, 8), 0, "npfloat"), T(ops2, Fraction(l or 3, 8), 0, rng.choice(["npfloat", "f32", "i8"])))]
    elif operand == "empty":
        vals = [S(ty=rng.choice([None, "tuple"]))]
    elif operand == "cancelled":
        vals = [S(T(ops1, Fraction(k, 8)), T(ops1, Fraction(-k, 8)))]
    elif operand == "zero-term":
        vals = [T(ops1, 0, 0, rng.choice([None, "int", "npfloat"]))]
    elif operand == "result-sum":
        vals = [T(ops1, Fraction(k, 8)), T(ops2, Fraction(l or 3, 8))]
        steps_before = [rng.choice([st("add", 0, 1), st("sub", 0, 0), st("mul", 0, 1), st("sub", 0, 1)])]
        if steps_before[0]["op"] == "mul":
            steps_before.append(st("add", 2, 0))
    else:
        vals = [T(ops1, Fraction(k, 8)), T(ops2, Fraction(l or 3, 8), 0, rng.choice([None, "npfloat"]))]
        steps_before = [st("mul", 0, 1)]
    g = _Prog(vals + [Z])
    zi = len(vals)
    target = 0
    for s in steps_before:
        target = g(s["op"], s["a"], s.get("b"))
    g(rng.choice(["div", "div", "idiv"]), target, zi)
    c = g.case("divzero")
    c["zero"] = zty or "float"
    c["operand"] = operand
    if any(t.get("ty") in LADDER_ALL for v in vals for t in ([v] if v["k"] == "term" else v["terms"])):
        c["no_selfeq"] = True
    return c


def _malformed(rng):
    pool = [0, 1, 2]
    a = _term(rng, pool)
    r = rng.random()
    if r < 0.25:
        return P([a, N(0)], [st("div", 0, 1)], kind="malformed")
    if r < 0.5:
        return P([_sum(rng, pool)], [st("pow", 0, p=-rng.randrange(1, 5))], kind="malformed")
    if r < 0.7:
        return P([a], [st("pow", 0, pf=rng.choice(["2.0", "1.5", "1j"]))], kind="malformed")
    if r < 0.85:
        return P([a, _sum(rng, pool)], [st("div", 0, 1)], kind="malformed")
    return P([N(2), a], [st("div", 0, 1)], kind="malformed")


def generate(rng, tier):
    big = tier == "thorough"
    cases = []
    # exhaustive products of Pauli strings, both orders: <= 2 qubits (quick), <= 3 qubits (thorough: 64 x 64 x 2)
    for n in ([1, 2, 3] if big else [1, 2]):
        for left in pauli_strings(n):
            re, im = _coeff(rng, allow_zero=False)
            re2, im2 = _coeff(rng, allow_zero=False)
            cases.append({"kind": "pairs", "n": n, "left": left, "cl": _c(re, im), "cr": _c(re2, im2)})
    if not big:  # a seeded slice of the 3-qubit table
        for left in rng.sample(pauli_strings(3), 12):
            cases.append({"kind": "pairs", "n": 3, "left": left, "cl": _c(1), "cr": _c(0, 1)})
    for _ in range(1500 if big else 260):
        cases.append(_program(rng, tier))
    for _ in range(400 if big else 80):
        cases.append(_eq_case(rng, tier))
    for _ in range(100 if big else 30):
        cases.append(_malformed(rng))
    for _ in range(60 if big else 14):
        cases.append(_eq_zero_case(rng, tier))
    for _ in range(20 if big else 6):
        cases.append(_eq_negligible_case(rng))
    for _ in range(200 if big else 40):
        cases.append(_history_case(rng, tier))
    for _ in range(400 if big else 70):
        cases.append(_wide_case(rng, tier))
    for _ in range(120 if big else 24):
        cases.append(_cancel_case(rng, tier))
    for _ in range(250 if big else 50):
        cases.append(_sibling_case(rng, tier))
    for _ in range(200 if big else 40):
        cases.append(_poison_case(rng, tier))
    for _ in range(60 if big else 20):
        cases.append(_bigpow_case(rng, tier))
    for _ in range(120 if big else 24):
        cases.append(_lookalike_case(rng, tier))
    for _ in range(120 if big else 24):
        cases.append(_longterm_case(rng, tier))
    for _ in range(50 if big else 14):
        cases.append(_longsum_case(rng, tier))
    for _ in range(12 if big else 4):
        cases.append(_longsum_case(rng, tier, ladder=True))
    for _ in range(100 if big else 24):
        cases.append(_types_case(rng, tier))
    for _ in range(100 if big else 24):
        cases.append(_inplace_case(rng, tier))
    for _ in range(100 if big else 24):
        cases.append(_routes_case(rng, tier))
    # the type ladder: every family on every run, then seeded extra ones
    for fam in LADDER_FAMILIES:
        for _ in range(4 if big else 2):
            cases.append(_ladder_case(rng, tier, fam))
    for _ in range(60 if big else 12):
        cases.append(_ladder_case(rng, tier))
    # many negligible contributions adding up: every route once above the cut-off on every run, then seeded ones (incl. controls)
    for route in ACC_ROUTES:
        cases.append(_accum_case(rng, tier, route, "above"))
    for _ in range(120 if big else 24):
        cases.append(_accum_case(rng, tier))
    # division by an exact zero: every zero type on every run, then seeded (zero, operand) combinations
    for z in DIV_ZEROS:
        cases.append(_divzero_case(rng, tier, zero=z))
    for _ in range(120 if big else 30):
        cases.append(_divzero_case(rng, tier))
    return cases


def _support(v):
    if v["k"] == "term":
        return {q for q, p in v["ops"] if p != "I"}
    if v["k"] == "sum":
        return set().union(*[_support(t) for t in v["terms"]]) if v["terms"] else set()
    return set()


def nontrivial(case):
    c = expand(case)
    vals = c["vals"]
    for v in vals:
        if v["k"] == "sum":
            keys = [tuple(sorted((q, p) for q, p in t["ops"] if p != "I")) for t in v["terms"]]
            if len(set(keys)) < len(keys) or any(t["c"] == [0, 0] for t in v["terms"]):
                return True
    for s in c["steps"]:
        if "b" in s and s["a"] < len(vals) and s["b"] < len(vals) and s["op"] != "eq":
            sa, sb = _support(vals[s["a"]]), _support(vals[s["b"]])
            if sa and sb and sa & sb:
                return True
    return False


# ---------------------------------------------------------------------------------------------- implementation
def _num(c, ty=None):
    re, im = unrat(c[0]), unrat(c[1])
    if ty in LADDER_ALL:
        # a rung of the type ladder (harness/ladder.py): numpy complex64 / clongdouble / float32 / float16 / longdouble / int8..int64 /
        # uint8 / bool_, Python bool, Fraction, sympy number -- only where the type carries the value exactly
        v = ladder_value(ty, re, im)
        if v is not None:
            return v
        ty = None
    if ty == "negzero" and re == 0 and im == 0:
        return -0.0
    if ty == "negzeroj" and re == 0 and im == 0:
        return complex(-0.0, -0.0)
    if ty == "int":
        return int(re)
    if ty == "bool":
        return bool(re)
    if ty == "complex":
        return complex(float(re), float(im))
    if ty == "npfloat":    # numpy scalars that ARE Python floats / complexes (subclasses)
        import numpy as np
        return np.float64(float(re))
    if ty == "npcomplex":
        import numpy as np
        return np.complex128(complex(float(re), float(im)))
    if im == 0:
        return float(re)
    return complex(float(re), float(im))


def _build(v):
    common.use_repo()
    from orquestra.quantum.operators import PauliSum, PauliTerm

    if v["k"] == "num":
        return _num(v["c"], v.get("ty"))
    if v["k"] == "term":
        return PauliTerm({int(q): p for q, p in v["ops"]}, _num(v["c"], v.get("ty")))
    ts = [_build(t) for t in v["terms"]]
    return PauliSum(tuple(ts) if v.get("ty") == "tuple" else ts)


def _cnum(x):
    z = complex(x)
    return [rat(Fraction(z.real)), rat(Fraction(z.imag))]


def _canon(o):
    from orquestra.quantum.operators import PauliSum, PauliTerm

    if isinstance(o, bool):
        return o
    if isinstance(o, PauliTerm):
        return {"k": "term", "ops": sorted([int(q), str(p)] for q, p in o._ops.items()), "c": _cnum(o.coefficient)}
    if isinstance(o, PauliSum):
        return {"k": "sum", "terms": [_canon(t) for t in o.terms]}
    if isinstance(o, (int, float, complex)):
        return {"k": "num", "c": _cnum(o)}
    from ..ladder import tclass
    if tclass(o) in ("fraction", "sympy") or tclass(o).startswith("np:"):
        return {"k": "num", "c": _cnum(o)}        # a number of the type ladder handed in as a scalar operand
    return {"k": "other", "type": type(o).__name__}


def _expo(s):
    if "p" in s:
        return bool(s["p"]) if s.get("pbool") else int(s["p"])
    return complex(s["pf"]) if "j" in s["pf"] else float(s["pf"])


def _fp(o):
    """cheap fingerprint of the value an object holds now (to notice objects that changed under an operation)"""
    from orquestra.quantum.operators import PauliSum, PauliTerm

    if isinstance(o, PauliTerm):
        c = o.coefficient
        return (tuple(sorted(o._ops.items())), complex(c))
    if isinstance(o, PauliSum):
        return tuple(_fp(t) for t in o.terms)
    return None


def _nonfinite(r):
    import cmath
    from orquestra.quantum.operators import PauliSum, PauliTerm

    if isinstance(r, (PauliTerm, PauliSum)):
        for t in r.terms:
            try:
                z = complex(t.coefficient)
            except Exception:  # noqa: BLE001
                continue
            if not cmath.isfinite(z):
                return repr(r)[:200]
    return None


IOPS = {"iadd": "add", "isub": "sub", "imul": "mul", "idiv": "div", "ipow": "pow"}


def _one_term_per_string(r):
    """the operator held by the sum r written down afresh with ONE term per operator string (exact merge of r's own
    coefficients, strings whose merged coefficient is within 1e-8 of zero left out), terms in sorted order"""
    from orquestra.quantum.operators import PauliSum, PauliTerm

    table = {}
    for t in r.terms:
        z = complex(t.coefficient)
        key = tuple(sorted(t._ops.items()))
        re, im = table.get(key, (Fraction(0), Fraction(0)))
        table[key] = (re + Fraction(z.real), im + Fraction(z.imag))
    terms = []
    for key in sorted(table):
        z = complex(float(table[key][0]), float(table[key][1]))
        if abs(z) > 1e-8:
            terms.append(PauliTerm(dict(key), z))
    return PauliSum(terms)


def run_impl(case):
    from orquestra.quantum.operators import PauliSum

    c = expand(case)
    regs = [_build(v) for v in c["vals"]]
    init = [_canon(int(r) if isinstance(r, bool) else r) for r in regs]   # True / False as operands are the numbers 1 / 0
    fps = [_fp(r) for r in regs]
    results, changed, selfeq = [], [], {}
    for i, s in enumerate(c["steps"]):
        a = regs[s["a"]]
        b = regs[s["b"]] if "b" in s else None
        try:
            op = s["op"]
            if op == "add":
                r = a + b
            elif op == "sub":
                r = a - b
            elif op == "mul":
                r = a * b
            elif op == "div":
                r = a / b
            elif op == "pow":
                r = a ** _expo(s)
            elif op == "simplify":
                r = a.simplify()
            elif op == "eq":
                r = (a == b)
                r = bool(r)
            elif op in IOPS:
                # augmented assignment on a second name for the operand object: `x = a; x += b` must leave `a` alone
                x = a
                if op == "iadd":
                    x += b
                elif op == "isub":
                    x -= b
                elif op == "imul":
                    x *= b
                elif op == "idiv":
                    x /= b
                else:
                    x **= _expo(s)
                r = x
            elif op == "poke":
                # the CALLER changes an object it holds through its public attributes: assigns the `coefficient` of one
                # term, or appends to / deletes from / replaces the `terms` list of a sum
                how = s.get("how", "coef")
                ts = a.terms
                if how == "coef":
                    if len(ts):
                        ts[int(s["j"]) % len(ts)].coefficient = _num(s["c"], s.get("ty"))
                elif isinstance(a, PauliSum) and how == "append" and isinstance(ts, list):
                    ts.append(_build(s["t"]))
                elif isinstance(a, PauliSum) and how == "delete" and isinstance(ts, list) and len(ts):
                    del ts[int(s["j"]) % len(ts)]
                elif isinstance(a, PauliSum) and how == "replace":
                    a.terms = [t.copy() for t in list(ts)[1:]] + [_build(s["t"])]
                r = None
            else:
                raise AssertionError("unknown step")
        except TypeError:
            results.append("err:type"); break
        except ValueError:
            results.append("err:value"); break
        except ZeroDivisionError:
            results.append("err:zerodiv"); break
        # which of the objects held so far denote something else now?  (none may, except through a poke)
        for j, o in enumerate(regs):
            if fps[j] is not None:
                f = _fp(o)
                if f != fps[j]:
                    fps[j] = f
                    changed.append([i, j, _canon(o)])
        bad = _nonfinite(r)
        if bad is not None:
            # an operator with an inf / nan coefficient denotes no matrix: reported as it is, the program ends here
            results.append({"k": "nonfinite", "repr": bad}); break
        regs.append(r)
        fps.append(_fp(r))
        results.append("poke" if op == "poke" else _canon(r))
        if isinstance(r, PauliSum) and not c.get("no_selfeq"):
            # every sum the library hands out is at once compared, both ways round, with the same operator written with one
            # term per string (an operator returned by the arithmetic / by simplify() is a simplified operator)
            ref = _one_term_per_string(r)
            try:
                selfeq[str(i)] = [bool(r == ref), bool(ref == r)]
            except Exception as e:  # noqa: BLE001
                selfeq[str(i)] = "raised " + type(e).__name__
    return {"init": init, "results": results, "changed": changed, "selfeq": selfeq}


# ---------------------------------------------------------------------------------------------- model requests
def _strip(v):
    if v["k"] == "sum":
        return {"k": "sum", "terms": [_strip(t) for t in v["terms"]]}
    d = {k: x for k, x in v.items() if k in ("k", "ops", "c")}
    if "ops" in d:  # the model's terms hold X / Y / Z only (PauliTerm.__init__ drops written-out identities)
        d["ops"] = [o for o in d["ops"] if o[1] != "I"]
    return d


def _first_term_mul(c):
    for i, s in enumerate(c["steps"]):
        if s["op"] == "mul" and s["a"] < len(c["vals"]) and s["b"] < len(c["vals"]) \
                and c["vals"][s["a"]]["k"] == "term" and c["vals"][s["b"]]["k"] == "term":
            return i, s
    return None


def _denote_target(c, out):
    """last operator-valued result of a program on a register of <= 4 qubits"""
    if c["kind"] == "pairs" or "results" not in out:
        return None
    width = 0
    for v in out["init"] + [r for r in out["results"] if isinstance(r, dict)]:
        for t in ([v] if v.get("k") == "term" else v.get("terms", [])):
            for q, _ in t["ops"]:
                width = max(width, q + 1)
    if width > 4:
        return None
    for r in reversed(out["results"]):
        if isinstance(r, dict) and r.get("k") in ("term", "sum"):
            return r, max(width, 1)
    return None


def requests(case, out):
    c = expand(case)
    if any(s["op"] == "poke" for s in c["steps"]):
        return []  # assignments by the caller are outside the model (values, no object identity): oracle only
    steps = [dict(s, op=IOPS[s["op"]]) if s["op"] in IOPS else s for s in c["steps"]]
    reqs = [("program", {"vals": [_strip(v) for v in c["vals"]], "steps": steps})]
    if not isinstance(out, dict) or "results" not in out:
        return reqs
    ftm = _first_term_mul(c)
    if ftm is not None:
        i, s = ftm
        u = _strip(c["vals"][s["b"]])
        order = [q for q, _ in u["ops"]][::-1]  # a different iteration order of the right factor's qubits
        if len(order) > 2:
            order = order[1:] + order[:1]
        reqs.append(("mul_order", {"t": _strip(c["vals"][s["a"]]), "u": _strip(u), "order": order}))
    dt = _denote_target(c, out)
    if dt is not None:
        reqs.append(("denote", {"v": dt[0], "n": dt[1]}))
    return reqs


def _cfr(c):
    return unrat(c[0]), unrat(c[1])


def _same_coeff(ci, cm, exact):
    a, b = _cfr(ci), _cfr(cm)
    if exact:
        return a == b
    return abs(complex(a[0] - b[0], a[1] - b[1])) <= 1e-9 * max(1.0, abs(complex(b[0], b[1])))


def _same_val(ri, rm, exact):
    if isinstance(ri, (bool, str)) or isinstance(rm, (bool, str)):
        return ri == rm and type(ri) is type(rm)
    if ri.get("k") != rm.get("k"):
        return False
    if ri["k"] == "num":
        return _same_coeff(ri["c"], rm["c"], exact)
    if ri["k"] == "term":
        return ri["ops"] == rm["ops"] and _same_coeff(ri["c"], rm["c"], exact)
    if ri["k"] == "sum":
        return len(ri["terms"]) == len(rm["terms"]) and all(_same_val(x, y, exact) for x, y in zip(ri["terms"], rm["terms"]))
    return False


def compare(case, out, resp):
    c = expand(case)
    for r in resp:
        if isinstance(r, dict) and "driver_error" in r:
            return "driver error: " + r["driver_error"]
    if not isinstance(out, dict) or "results" not in out:
        return f"implementation raised unexpectedly: {out}"
    exact = c.get("exact", True)
    mres = resp[0]["results"]
    ires = out["results"]
    for i, (ri, rm) in enumerate(zip(ires, mres)):
        if not _same_val(ri, rm, exact):
            return f"step {i} {c['steps'][i]}: impl {common.canon(ri)[:300]} model {common.canon(rm)[:300]}"
    if len(ires) != len(mres):
        return f"program length: impl produced {len(ires)} results, model {len(mres)}"
    k = 1
    ftm = _first_term_mul(c)
    if ftm is not None:
        i, _ = ftm
        if i < len(ires) and not _same_val(ires[i], resp[k], exact):
            return f"term product with another iteration order of the right factor: impl {ires[i]} model {resp[k]}"
        k += 1
    dt = _denote_target(c, out)
    if dt is not None and k < len(resp):
        import numpy as np
        want = _matrix(dt[0], list(range(dt[1])))
        got = np.array([[complex(float(unrat(e[0])), float(unrat(e[1]))) for e in row] for row in resp[k]])
        if got.shape != want.shape or np.max(np.abs(got - want)) > 1e-9 * max(1.0, float(np.max(np.abs(want)))):
            return f"model denote of {common.canon(dt[0])[:200]} on {dt[1]} qubits differs from the numpy Kronecker matrix"
    return None


# ---------------------------------------------------------------------------------------------- oracle (numpy, no model code)
def _paulis():
    import numpy as np
    return {"I": np.eye(2, dtype=complex), "X": np.array([[0, 1], [1, 0]], dtype=complex),
            "Y": np.array([[0, -1j], [1j, 0]]), "Z": np.array([[1, 0], [0, -1]], dtype=complex)}


def _term_matrix(t, qubits):
    import numpy as np
    pm = _paulis()
    ops = {int(q): p for q, p in t["ops"]}
    m = np.eye(1, dtype=complex)
    for q in qubits:  # qubit 0 (lowest index) leftmost
        m = np.kron(m, pm[ops.get(q, "I")])
    re, im = _cfr(t["c"])
    return complex(float(re), float(im)) * m


def _matrix(v, qubits):
    import numpy as np
    d = 2 ** len(qubits)
    if v["k"] == "num":
        re, im = _cfr(v["c"])
        return complex(float(re), float(im)) * np.eye(d, dtype=complex)
    if v["k"] == "term":
        return _term_matrix(v, qubits)
    m = np.zeros((d, d), dtype=complex)
    for t in v["terms"]:
        m = m + _term_matrix(t, qubits)
    return m


def _coeff_table(v):
    """operator string -> coefficient (for == : only used on simplified operands, numbers are c*I)"""
    out = {}
    if v["k"] == "num":
        items = [((), v["c"])]
    elif v["k"] == "term":
        items = [(tuple(map(tuple, v["ops"])), v["c"])]
    else:
        items = [(tuple(map(tuple, t["ops"])), t["c"]) for t in v["terms"]]
    for key, c in items:
        re, im = _cfr(c)
        out[key] = out.get(key, 0) + complex(float(re), float(im))
    return out


def _spec_table(v):
    """operator string -> coefficient of a value as the CALLER wrote it (written-out identities act on nothing)"""
    out = {}
    for t in ([v] if v["k"] == "term" else v["terms"]):
        key = tuple(sorted((int(q), p_) for q, p_ in t["ops"] if p_ != "I"))
        re, im = _cfr(t["c"])
        out[key] = out.get(key, 0) + complex(float(re), float(im))
    return out


def _is_simplified(v):
    if v["k"] != "sum":
        return True
    keys = [tuple(map(tuple, t["ops"])) for t in v["terms"]]
    if len(set(keys)) != len(keys):
        return False
    return all(abs(complex(*map(float, _cfr(t["c"])))) > 1e-8 for t in v["terms"])


def _keys(v):
    """operator strings of the terms of a value (a plain number is a multiple of the empty string)"""
    if v["k"] == "num":
        return [()]
    if v["k"] == "term":
        return [tuple(map(tuple, v["ops"]))]
    return [tuple(map(tuple, t["ops"])) for t in v["terms"]]


def _n1(v):
    """sum of |coefficient| : bounds every entry of the denoted matrix"""
    cs = [v["c"]] if v["k"] in ("num", "term") else [t["c"] for t in v["terms"]]
    return sum(abs(complex(float(re), float(im))) for re, im in map(_cfr, cs))


def _prod_key(ka, kb):
    """the operator string of a product of two Pauli strings (which string, not which phase: per qubit, equal letters
    cancel and two different letters give the third)"""
    d = dict(ka)
    for q, p in kb:
        if q not in d:
            d[q] = p
        elif d[q] == p:
            del d[q]
        else:
            d[q] = ({"X", "Y", "Z"} - {d[q], p}).pop()
    return tuple(sorted(d.items()))


# ---- registers of more than 7 qubits: the same matrices, row by row (a Pauli string has one non-zero entry per row)
_I4 = [1, 1j, -1, -1j]


def _sp_terms(v, pos):
    """(flip mask, Y mask, Z mask, coefficient) of every term; bit pos[q] of a basis index is qubit q (lowest qubit index =
    most significant position, as in the dense Kronecker product - irrelevant for the comparison, fixed for definiteness)"""
    if v["k"] == "num":
        re, im = _cfr(v["c"])
        return [(0, 0, 0, complex(float(re), float(im)))]
    out = []
    for t in ([v] if v["k"] == "term" else v["terms"]):
        f = ym = zm = 0
        for q, p_ in t["ops"]:
            b = 1 << pos[int(q)]
            if p_ in ("X", "Y"):
                f |= b
            if p_ == "Y":
                ym |= b
            if p_ == "Z":
                zm |= b
        re, im = _cfr(t["c"])
        out.append((f, ym, zm, complex(float(re), float(im))))
    return out


def _sp_row(terms, y):
    """row y of the denoted matrix as {column: entry}: <y| X |y^1> = 1, <1| Y |0> = i, <0| Y |1> = -i, <b| Z |b> = (-1)^b"""
    out = {}
    for f, ym, zm, c in terms:
        ny = ym.bit_count()
        sign = (ny - (ym & y).bit_count() + (zm & y).bit_count()) & 1
        val = c * _I4[ny & 3] * (-1 if sign else 1)
        col = y ^ f
        out[col] = out.get(col, 0) + val
    return out


def _sp_vecmat(row, terms):
    out = {}
    for x, a in row.items():
        for col, v in _sp_row(terms, x).items():
            out[col] = out.get(col, 0) + a * v
    return out


def _sp_distance(op, s, va, vb, r, pos, rows):
    """largest entry-wise distance, over the sampled rows, between the matrix of the result and the matrix operation"""
    A = _sp_terms(va, pos)
    B = _sp_terms(vb, pos) if vb is not None else None
    R = _sp_terms(r, pos)
    worst = 0.0
    for y in rows:
        got = _sp_row(R, y)
        if op == "add":
            want = _sp_row(A + B, y)
        elif op == "sub":
            want = _sp_row(A + [(f, ym, zm, -c) for f, ym, zm, c in B], y)
        elif op == "mul":
            want = _sp_vecmat(_sp_row(A, y), B)
        elif op == "div":
            d = B[0][3]
            want = {k2: x / d for k2, x in _sp_row(A, y).items()}
        elif op == "pow":
            want = {y: 1.0}
            for _ in range(int(s["p"])):
                want = _sp_vecmat(want, A)
        else:
            want = _sp_row(A, y)
        for k2 in set(got) | set(want):
            worst = max(worst, abs(got.get(k2, 0) - want.get(k2, 0)))
    return worst


def _sp_moved(v0, v1, pos, rows):
    A, B = _sp_terms(v0, pos), _sp_terms(v1, pos)
    worst = 0.0
    for y in rows:
        a, b = _sp_row(A, y), _sp_row(B, y)
        for k2 in set(a) | set(b):
            worst = max(worst, abs(a.get(k2, 0) - b.get(k2, 0)))
    return worst


_PHASE = {("X", "Y"): 1j, ("Y", "Z"): 1j, ("Z", "X"): 1j, ("Y", "X"): -1j, ("Z", "Y"): -1j, ("X", "Z"): -1j}


def _prod_phase(ka, kb):
    """the phase of the product of two Pauli strings: XY = iZ, YZ = iX, ZX = iY (and -i the other way round), per qubit"""
    d = dict(ka)
    ph = 1
    for q, p in kb:
        if q in d and d[q] != p:
            ph *= _PHASE[(d[q], p)]
    return ph


def _tab_mul(ta, tb):
    out = {}
    for x, cx in ta.items():
        for y, cy in tb.items():
            k = _prod_key(x, y)
            out[k] = out.get(k, 0) + _prod_phase(x, y) * cx * cy
    return out


def _exp_table(op, s, va, vb):
    """operator string -> coefficient of the matrix operation on the operands, like terms merged, nothing left out
    (Pauli strings are linearly independent: this IS the matrix operation, written in the Pauli basis); None: not computed"""
    op = IOPS.get(op, op)
    ta = _coeff_table(va)
    if op == "simplify":
        return ta
    if op == "pow":
        p = int(s["p"])
        if p > 8 or len(ta) ** min(p, 3) > 20000:
            return None
        out = {(): 1}
        for _ in range(p):
            out = _tab_mul(ta, out)
        return out
    tb = _coeff_table(vb)
    if op in ("add", "sub"):
        sg = 1 if op == "add" else -1
        out = dict(ta)
        for k, x in tb.items():
            out[k] = out.get(k, 0) + sg * x
        return out
    if op == "mul":
        if len(ta) * len(tb) > 20000:
            return None
        return _tab_mul(ta, tb)
    if op == "div":
        z = tb[()]
        return {k: x / z for k, x in ta.items()}
    return None


def _pow_slack(p, n1a, nstr):
    """what the 1e-8 cut-off applied after EVERY product of square-and-multiply can move one coefficient of a ** p by"""
    N_ = max(1.0, n1a)
    if p <= 1:
        return 0.0
    if p % 2:
        return N_ * _pow_slack(p - 1, n1a, nstr) + DROP
    e = _pow_slack(p // 2, n1a, nstr)
    return 2 * N_ ** (p // 2) * e + nstr * e * e + DROP


def _string_check(op, s, va, vb, r, nq):
    """the 1e-8 cut-off is per RESULTING operator string, after like terms are merged: (string, expected, got, allowed) of the first
    string whose coefficient in the result is further from the coefficient of the matrix operation than the cut-off explains"""
    exp = _exp_table(op, s, va, vb)
    if exp is None:
        return None
    got = _coeff_table(r)
    rkeys = set(_keys(r))
    n1a = _n1(va)
    slack, per = 0.0, {}
    if op in ("add", "sub"):
        scale = n1a + _n1(vb)
        if op == "sub" and vb["k"] == "sum":   # a - b is a + (-1.0 * b): -1.0 * b leaves out b's own negligible groups first
            per = {k: DROP for k, x in _coeff_table(vb).items() if abs(x) <= DROP}
    elif op == "simplify":
        scale = n1a
    elif op == "mul":
        scale = n1a * _n1(vb)
    elif op == "div":
        re, im = _cfr(vb["c"])
        scale = n1a / abs(complex(float(re), float(im)))
    else:
        p = int(s["p"])
        scale = max(1.0, n1a) ** max(p, 1)
        tab = _coeff_table(va)
        if any(abs(x) <= DROP for x in tab.values()):
            return None      # a ** p starts from a * identity, which leaves out a's own negligible groups: judged on the matrix only
        if p >= 2:
            slack = _pow_slack(p, n1a, 4 ** nq) - DROP
    nops = max(1, int(s["p"])) if op == "pow" else 1
    for k in set(exp) | set(got):
        e, g_ = exp.get(k, 0), got.get(k, 0)
        allowed = ROUND * nops * scale + slack + per.get(k, 0.0) + (DROP if (r["k"] == "sum" and k not in rkeys) else 0.0)
        if not abs(g_ - e) <= allowed:
            return k, e, g_, allowed
    return None


DROP = 1.000001e-8   # a like-term group whose merged coefficient has modulus <= 1e-8 is what "simplified" leaves out
ROUND = 1e-13        # double rounding of a handful of operations, relative to the size of the operands


def _finite_scale(op, s, va, vb):
    """bound on the entries of the matrix operation on the operands (is the true result representable at all?)"""
    try:
        n1a = _n1(va)
        if op in ("add", "sub"):
            return n1a + _n1(vb)
        if op == "mul":
            return n1a * _n1(vb)
        if op == "div":
            re, im = _cfr(vb["c"])
            return n1a / abs(complex(float(re), float(im)))
        if op == "pow":
            return max(1.0, n1a) ** int(s["p"])
        return n1a
    except (OverflowError, ZeroDivisionError):
        return float("inf")


def _allowance(op, s, va, vb, r, nq):
    """largest entry-wise distance between the matrix of the result and the matrix operation on the operands that the
    library's 1e-8 coefficient tolerance (+ double rounding) explains:  DROP per like-term group of the exact result that
    is absent from the returned sum, nothing for results that are single terms"""
    n1a = _n1(va)
    ka = _keys(va)
    rkeys = set(_keys(r)) if r.get("k") == "sum" else None
    groups, extra = None, 0.0
    if op in ("add", "sub"):
        scale = n1a + _n1(vb)
        groups = set(ka) | set(_keys(vb))
        if op == "sub" and vb["k"] == "sum":
            # a - b is a + (-1.0 * b): the groups of b alone that -1.0 * b already leaves out
            extra = DROP * sum(1 for x in _coeff_table(vb).values() if abs(x) <= DROP)
    elif op == "simplify":
        scale = n1a
        groups = set(ka)
    elif op == "mul":
        scale = n1a * _n1(vb)
        if rkeys is not None:
            groups = {_prod_key(x, y) for x in ka for y in _keys(vb)}
    elif op == "div":
        re, im = _cfr(vb["c"])
        scale = n1a / abs(complex(float(re), float(im)))
        if rkeys is not None:
            groups = set(ka)
    else:  # pow
        p = int(s["p"])
        scale = max(1.0, n1a) ** max(p, 1)
        if rkeys is not None and p >= 1:
            tab = _coeff_table(va)
            g1 = sum(1 for x in tab.values() if abs(x) <= DROP)  # groups of the operand itself that a**1 leaves out
            if p == 1:
                groups = set(ka)
            elif p == 2:
                groups = {_prod_key(x, y) for x in ka for y in ka}
                extra = DROP * 2 * g1 * max(1.0, n1a)
            else:
                # square-and-multiply: <= p products, each leaves out at most one DROP per string, and what was left
                # out is multiplied by at most p - 1 further factors
                g = min(4 ** nq, max(1, len(ka)) ** p)
                extra = 2 * DROP * p * g * max(1.0, n1a) ** (p - 1)
    ndrop = len(groups - rkeys) if (groups is not None and rkeys is not None) else 0
    nops = max(1, int(s["p"])) if op == "pow" else 1   # double rounding accumulates over the factors of a power
    return DROP * ndrop + extra + ROUND * nops * scale


def oracle(case, out):
    import numpy as np
    c = expand(case)
    if not isinstance(out, dict) or "results" not in out:
        return ("raise:" + str(out.get("exc") if isinstance(out, dict) else out), f"implementation raised unexpectedly: {out}")
    regs = list(out["init"])
    # a term built from (operator string, coefficient) denotes coefficient * string, a sum built from terms their sum -- whatever
    # the TYPE of the number the caller handed over: the freshly built operands are read back and compared with what was passed in
    for i, (spec, got) in enumerate(zip(c["vals"], regs)):
        if spec["k"] == "num" or not isinstance(got, dict) or got.get("k") != spec["k"]:
            continue
        want, have = _spec_table(spec), _coeff_table(got)
        for key in set(want) | set(have):
            if abs(want.get(key, 0) - have.get(key, 0)) > 1e-12 * max(1.0, abs(want.get(key, 0))):
                return ("operand-misread:" + spec["k"],
                        f"the {spec['k']} built from {common.canon(spec)[:200]} holds {have.get(key, 0)} on the string {key}, not the "
                        f"coefficient {want.get(key, 0)} it was given (reads back as {common.canon(got)[:200]})")
    qubits = set()
    vals_seen = regs + [r for r in out["results"] if isinstance(r, dict)] + [ch[2] for ch in out.get("changed", [])]
    for v in vals_seen:
        for t in ([v] if v.get("k") == "term" else v.get("terms", [])):
            qubits |= {int(q) for q, _ in t["ops"]}
    qubits = sorted(qubits)
    sparse = len(qubits) > 7   # > 128 x 128: the same comparison on sampled rows of the matrices (_sp_*)
    if sparse:
        import random as _random
        pos = {q: len(qubits) - 1 - k for k, q in enumerate(qubits)}
        rr = _random.Random(len(qubits))
        full = (1 << len(qubits)) - 1
        rows = [0, full, full // 3, (full // 3) << 1 & full] + [rr.getrandbits(len(qubits)) for _ in range(6)]
    mats = {}
    lib_simplified = set()  # registers holding a sum RETURNED by + - * / ** simplify(): simplified operators by construction
    changes = {}
    for i, j, v in out.get("changed", []):
        changes.setdefault(i, []).append((j, v))

    def M(i):
        if i not in mats:
            mats[i] = _matrix(regs[i], qubits)
        return mats[i]

    def kind(i):
        return regs[i]["k"] if isinstance(regs[i], dict) else "bool"

    eq_seen = {}
    pending = []
    for i, s in enumerate(c["steps"]):
        for j, v in pending:  # objects re-arranged (same matrix) by the previous step: read them as they are now
            regs[j] = v
            mats.pop(j, None)
        pending = []
        if i >= len(out["results"]):
            break
        r = out["results"][i]
        op = s["op"]
        if op == "poke":
            # the caller changed an object it holds: from here on the objects denote what they hold now
            regs.append(None)
            for j, v in changes.get(i, []):
                regs[j] = v
                mats.pop(j, None)
                lib_simplified.discard(j)
            eq_seen.clear()
            continue
        op = IOPS.get(op, op)   # `x = a; x += b`: the plain operation (and `a` must still denote what it did, see below)
        ka = kind(s["a"])
        kb = kind(s["b"]) if "b" in s else None
        if "bool" in (ka, kb) or regs[s["a"]] is None or ("b" in s and regs[s["b"]] is None):
            break  # not generated: a comparison result / a poke used as an operand
        sig = f"{s['op']}:{ka}" + (f"-{kb}" if kb else "")
        desc = f"step {i} {s} on {common.canon(regs[s['a']])[:160]}" + (f" and {common.canon(regs[s['b']])[:160]}" if "b" in s else "")
        indomain = (op in ("add", "sub", "mul", "eq") and not (ka == "num" and kb == "num")) or op == "simplify" \
            or (op == "div" and kb == "num" and ka != "num" and _cfr(regs[s["b"]]["c"]) != (0, 0)) \
            or (op == "pow" and "p" in s and s["p"] >= 0 and ka != "num")
        divzero = op == "div" and kb == "num" and ka != "num" and _cfr(regs[s["b"]]["c"]) == (0, 0)
        if divzero and not isinstance(r, str):
            # scalar division denotes the division of the matrix by the scalar: there is no matrix M / 0 (and an operator with
            # inf / nan coefficients denotes no matrix), so a division by an exact zero must not hand back an operator
            return ("div-by-zero-returns:" + sig, f"{desc}: division by the exact zero returned "
                                                  f"{common.canon(r)[:200]} instead of raising: there is no matrix M / 0")
        if isinstance(r, str):
            if indomain:
                return ("raise-in-domain:" + sig, f"{desc}: raised {r} on an in-domain operation")
            break
        if isinstance(r, dict) and r.get("k") == "nonfinite":
            if indomain and _finite_scale(op, s, regs[s["a"]], regs[s["b"]] if "b" in s else None) < 1e300:
                return ("nonfinite-coefficient:" + sig, f"{desc}: the result {r['repr']} has a non-finite coefficient although the "
                                                        f"matrix operation on these (finite) operands is a finite matrix")
            break
        pending = []
        for j, v in (changes.get(i, []) if indomain else []):
            # + - * / ** simplify() == are value operations: the objects they were given (and every other object the
            # caller holds) must denote the same matrix afterwards, otherwise every later expression on them is wrong.
            # (Re-arranging an object without changing what it denotes - merging its like terms in place - is not reported.)
            if sparse:
                moved = _sp_moved(regs[j], v, pos, rows)
            else:
                before, after = M(j), _matrix(v, qubits)
                moved = float(np.max(np.abs(after - before))) if before.size else 0.0
            if not moved <= DROP * len(set(_keys(regs[j]))) + ROUND * (_n1(regs[j]) + _n1(v)):
                return ("operand-changed:" + sig,
                        f"{desc}: the operation changed the matrix denoted by an object the caller holds (by {moved:.3g}): "
                        f"register {j} was {common.canon(regs[j])[:160]} and is now {common.canon(v)[:160]}")
            pending.append((j, v))
        regs.append(r)
        if not indomain:
            continue
        if op == "eq":
            if not isinstance(r, bool):
                return ("eq-not-bool:" + sig, f"{desc}: == returned {r!r}")
            va, vb = regs[s["a"]], regs[s["b"]]
            if not ((s["a"] in lib_simplified or _is_simplified(va)) and (s["b"] in lib_simplified or _is_simplified(vb))):
                continue
            ta, tb = _coeff_table(va), _coeff_table(vb)
            keys = set(ta) | set(tb)
            diffs = {k2: abs(ta.get(k2, 0) - tb.get(k2, 0)) for k2 in keys}
            diff = max(diffs.values(), default=0.0)
            # the coefficient of one operator string differs by more than the library's tolerances explain
            # (np.allclose on the two coefficients of that string: 1e-8 + 1e-5 |c|)
            apart = [k2 for k2 in keys if diffs[k2] > 1e-8 + 1.1e-5 * max(abs(ta.get(k2, 0)), abs(tb.get(k2, 0)))]
            if diff <= 0.9e-8 and r is False:
                if diff == 0 and "num" in (ka, kb) and "sum" in (ka, kb) and len((va if ka == "sum" else vb)["terms"]) == 0:
                    return ("eq-empty-sum-vs-zero-number",
                            f"{desc}: == is False although both sides denote the zero matrix")
                if diff > 0:
                    # the known finding is about coefficients on the two sides of a round(c * 1e6) boundary (sums are
                    # compared as sets, through __hash__); any other False inside the tolerance is a different failure
                    def bucket(z):
                        return (round(z.real * 1e6), round(z.imag * 1e6))
                    straddle = any(bucket(complex(ta.get(k2, 0))) != bucket(complex(tb.get(k2, 0))) for k2 in keys)
                    if straddle and "sum" in (ka, kb):
                        return ("eq-hash-rounding-boundary",
                                f"{desc}: == is False although every coefficient differs by {diff:.3g} <= 1e-8")
                    return ("eq-false-within-tolerance:" + sig,
                            f"{desc}: == is False although every coefficient differs by {diff:.3g} <= 1e-8")
                return ("eq-false-on-equal:" + sig, f"{desc}: == is False although the denoted matrices are equal")
            if apart and r is True:
                return ("eq-true-on-different:" + sig,
                        f"{desc}: == is True although the coefficient of {apart[0]} differs by {diffs[apart[0]]:.3g}")
            # a == b iff b == a (matrix equality is symmetric); only outside the tolerance band, where the verdict is fixed
            if diff <= 0.9e-8 or apart:
                other = eq_seen.get((s["b"], s["a"]))
                if other is not None and other != r:
                    return ("eq-asymmetric:" + sig, f"{desc}: a == b is {r} but b == a is {other}")
                eq_seen[(s["a"], s["b"])] = r
            continue
        if not (isinstance(r, dict) and r.get("k") in ("term", "sum")):
            return ("result-kind:" + sig, f"{desc}: result {r!r} is not a PauliTerm / PauliSum")
        if r["k"] == "sum":
            lib_simplified.add(len(regs) - 1)
        if sparse:
            err = _sp_distance(op, s, regs[s["a"]], regs[s["b"]] if "b" in s else None, r, pos, rows)
        else:
            got = _matrix(r, qubits)
            if op == "add":
                want = M(s["a"]) + M(s["b"])
            elif op == "sub":
                want = M(s["a"]) - M(s["b"])
            elif op == "mul":
                want = M(s["a"]) @ M(s["b"])
            elif op == "div":
                re, im = _cfr(regs[s["b"]]["c"])
                want = M(s["a"]) / complex(float(re), float(im))
            elif op == "pow":
                want = np.linalg.matrix_power(M(s["a"]), int(s["p"]))
            else:
                want = M(s["a"])
            mats[len(regs) - 1] = got
            err = float(np.max(np.abs(got - want))) if got.size else 0.0
        allowed = _allowance(op, s, regs[s["a"]], regs[s["b"]] if "b" in s else None, r, len(qubits))
        if not err <= allowed:
            return (sig, f"{desc}: result {common.canon(r)[:200]} denotes a matrix that differs from the matrix "
                         f"{op} of the operands by {err:.3g} (the 1e-8 coefficient tolerance explains at most {allowed:.3g})")
        if not sparse:
            bad = _string_check(op, s, regs[s["a"]], regs[s["b"]] if "b" in s else None, r, len(qubits))
            if bad is not None:
                k2, e_, g_, al_ = bad
                return ("string-coefficient:" + sig,
                        f"{desc}: in the result {common.canon(r)[:200]} the operator string {list(k2)} has the coefficient {g_:.6g}"
                        f"{'' if (r['k'] != 'sum' or k2 in set(_keys(r))) else ' (left out)'}, the matrix {op} of the operands has "
                        f"{e_:.6g} there: off by {abs(g_ - e_):.3g}, the 1e-8 cut-off per resulting string explains at most {al_:.3g}")
        se = out.get("selfeq", {}).get(str(i))
        if r["k"] == "sum" and se is not None and se != [True, True]:
            # equality between simplified operators coincides with equality of the denoted matrices: the returned sum and
            # the same operator with one term per string differ at most by merged coefficients within 1e-8 of zero
            tab = _coeff_table(r)
            if not any(0.9e-8 < abs(x) <= 1.1e-8 for x in tab.values()):
                ks = _keys(r)
                why = ("it holds an operator string twice" if len(set(ks)) < len(ks) else
                       "it holds a coefficient within 1e-8 of zero" if any(abs(complex(*map(float, _cfr(t["c"])))) <= 1e-8 for t in r["terms"])
                       else "although it has one term per string already")
                return ("result-not-simplified:" + sig,
                        f"{desc}: the returned sum {common.canon(r)[:200]} does not compare equal ({se}) to the same operator "
                        f"written with one term per operator string: {why}")
    return None


def distribution(cases, outs):
    ops, errs, kinds, width, nterms = {}, {}, {}, 0, 0
    for case, out in zip(cases, outs):
        c = expand(case)
        for v in c["vals"]:
            kinds[v["k"]] = kinds.get(v["k"], 0) + 1
            for t in ([v] if v["k"] == "term" else v.get("terms", [])):
                for q, _ in t["ops"]:
                    width = max(width, q + 1)
            if v["k"] == "sum":
                nterms = max(nterms, len(v["terms"]))
        for i, s in enumerate(c["steps"]):
            ops[s["op"]] = ops.get(s["op"], 0) + 1
        if isinstance(out, dict):
            for r in out.get("results", []):
                if isinstance(r, str):
                    errs[r] = errs.get(r, 0) + 1
    import math
    mags = [abs(complex(float(unrat(t["c"][0])), float(unrat(t["c"][1]))))
            for case in cases for v in expand(case)["vals"]
            for t in ([v] if v["k"] in ("term", "num") else v.get("terms", []))]
    mags = [m for m in mags if m > 0]
    objects_changed = sum(len(o.get("changed", [])) for o in outs if isinstance(o, dict))
    fams, tys = {}, {}
    for case in cases:
        if case.get("kind") == "ladder":
            fams[case.get("family", "?")] = fams.get(case.get("family", "?"), 0) + 1
        for v in expand(case)["vals"]:
            for t in ([v] if v["k"] in ("term", "num") else v.get("terms", [])):
                key = ("scalar:" if v["k"] == "num" else "coefficient:") + str(t.get("ty") or "float/complex")
                tys[key] = tys.get(key, 0) + 1
    acc, dz = {}, {}
    for case, out in zip(cases, outs):
        if case.get("kind") == "accum" and "route" in case:
            kept = None
            if isinstance(out, dict):
                last = [r for r in out.get("results", []) if isinstance(r, dict)]
                kept = bool(last) and len(last[-1].get("terms", [0])) > 0
            key = f"{case['route']}:{case['mode']}:{case['per_string']}/string:{'kept' if kept else 'empty'}"
            acc[key] = acc.get(key, 0) + 1
        if case.get("kind") == "divzero" and "zero" in case:
            res = out.get("results", ["?"])[-1] if isinstance(out, dict) else "?"
            key = f"{case['operand']}/{case['zero']}:{res if isinstance(res, str) else 'RETURNED'}"
            dz[key] = dz.get(key, 0) + 1
    return {"accumulating_negligible_contributions": dict(sorted(acc.items())), "division_by_exact_zero": dict(sorted(dz.items())),
            "step_ops": ops, "errors_hit": errs, "initial_value_kinds": kinds, "max_qubit_index_plus_1": width,
            "log2_coefficient_magnitude_range": [round(math.log2(min(mags)), 1), round(math.log2(max(mags)), 1)] if mags else None,
            "objects_changed_under_a_step(pokes)": objects_changed,
            "max_initial_sum_terms": nterms, "inexact_cases": sum(1 for c in cases if c.get("exact") is False),
            "type_ladder_families": dict(sorted(fams.items())), "number_types": dict(sorted(tys.items()))}
