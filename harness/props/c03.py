"""C03 — Pauli operator arithmetic is faithful to matrix arithmetic."""
import itertools
from fractions import Fraction

from .. import common
from ..common import rat, unrat

PROP = "C03"
RULE = ("[== matrices: every ordered pair of zero / negligible / non-zero terms, numbers and sums; histories re-using the "
        "same operand objects] op-sequence programs over terms / sums / numbers (+ - * / ** simplify ==, numbers on either side) and the "
        "exhaustive table of products of all Pauli strings on <=3 qubits in both orders; non-trivial: a binary step "
        "whose two operands are initial operators that are both non-constant with overlapping qubit supports, or an "
        "initial sum containing a duplicate operator string or a zero coefficient; distinct = distinct canonical JSON")
TRUSTED = [
    "np.isclose(c, 0.0) is |c| <= 1e-8 and np.allclose(a, b) is |a-b| <= 1e-8 + 1e-5|b| (parameters negl / close of the model; "
    "the theorems hold for every negl, exactly when negl c <-> c = 0, and for == when close a b <-> a = b)",
    "Python float/complex + and * are exact on the dyadic coefficients used for the exact model comparison (other inputs: 1e-9 relative tolerance)",
    "1.0 / x is the exact reciprocal (parameter recip with law x * recip x = 1; ZeroDivisionError iff x == 0)",
    "Python set / dict semantics: `for i in set(keys)` yields every key exactly once in some order (the theorems hold for every order); "
    "frozenset(dict.items()) equality is equality of the dicts; hash() of the (round, round, frozenset) tuple does not collide on distinct tuples",
    "round() is round-half-to-even on the exactly representable products coefficient * 1e6",
    "np.kron / @ / np.linalg.matrix_power used by the oracle are the Kronecker / matrix product / power",
]
ASSUMPTIONS = [
    "theorems are stated for every commutative ring R with an element i, i*i = -1 (C, Q(i), and the driver's Q(zeta8), which is "
    "given a CommRing instance on its executable operations); the == theorems additionally assume R has no 2-torsion",
    "qubit 0 is the leftmost Kronecker factor (OQ.Pauli.denote); an operator on qubits q1<...<qm is compared on the compressed "
    "register of its used qubits (tensoring with identities is injective and multiplicative)",
    "the float part of == (np.allclose rtol vs hash rounding at 1e-6) is modelled exactly in the driver but the theorem eq_iff is "
    "for exact coefficients (close a b <-> a = b)",
]

LETTERS = ["X", "Y", "Z"]
TOL = 1e-7


# ---------------------------------------------------------------------------------------------- case construction
def _c(re, im=0):
    return [rat(Fraction(re)), rat(Fraction(im))]


def T(ops, re=1, im=0, ty=None):
    d = {"k": "term", "ops": [[int(q), p] for q, p in ops], "c": _c(re, im)}
    if ty:
        d["ty"] = ty
    return d


def S(*terms):
    return {"k": "sum", "terms": list(terms)}


def N(re, im=0, ty=None):
    d = {"k": "num", "c": _c(re, im)}
    if ty:
        d["ty"] = ty
    return d


def P(vals, steps, kind="program", **kw):
    d = {"kind": kind, "vals": vals, "steps": steps}
    d.update(kw)
    return d


def st(op, a, b=None, **kw):
    d = {"op": op, "a": a}
    if b is not None:
        d["b"] = b
    d.update(kw)
    return d


def pauli_strings(n):
    out = []
    for combo in itertools.product(["I"] + LETTERS, repeat=n):
        out.append([[q, p] for q, p in enumerate(combo) if p != "I"])
    return out


def expand(case):
    """every case kind is an op-sequence program"""
    if case["kind"] != "pairs":
        return case
    rights = pauli_strings(case["n"])
    vals = [{"k": "term", "ops": case["left"], "c": case["cl"]}]
    vals += [{"k": "term", "ops": r, "c": case["cr"]} for r in rights]
    steps = []
    for j in range(1, len(vals)):
        steps.append(st("mul", 0, j))
        steps.append(st("mul", j, 0))
    return {"kind": "pairs", "vals": vals, "steps": steps, "exact": True}


def corpus():
    X0, Y0, Z1 = T([[0, "X"]]), T([[0, "Y"]]), T([[1, "Z"]])
    return [
        # the sixteen single-qubit products in one go
        {"kind": "pairs", "n": 1, "left": [[0, "X"]], "cl": _c(1), "cr": _c(1)},
        {"kind": "pairs", "n": 1, "left": [[0, "Y"]], "cl": _c(1), "cr": _c(1)},
        {"kind": "pairs", "n": 1, "left": [[0, "Z"]], "cl": _c(1), "cr": _c(1)},
        {"kind": "pairs", "n": 1, "left": [], "cl": _c(1), "cr": _c(1)},
        # mixed kinds on either side
        P([X0, T([[0, "Y"], [1, "Z"]], Fraction(1, 2), Fraction(1, 8)), N(2)],
          [st("mul", 0, 1), st("add", 0, 1), st("mul", 4, 4), st("pow", 4, p=3), st("eq", 4, 4), st("sub", 4, 4),
           st("div", 0, 2), st("mul", 2, 4), st("mul", 4, 2), st("sub", 2, 4), st("sub", 2, 0), st("add", 2, 0)]),
        # duplicates, zero coefficients, the empty sum
        P([S(X0, T([[0, "X"]], -1), Y0, T([[1, "Z"]], 0)), S(), N(0)],
          [st("simplify", 0), st("add", 0, 1), st("mul", 0, 0), st("mul", 1, 0), st("pow", 1, p=0), st("pow", 1, p=2),
           st("eq", 3, 1), st("mul", 0, 2), st("eq", 10, 1)]),
        # errors: zero division, negative / non-int exponent, division by an operator
        P([X0, N(0)], [st("div", 0, 1)]),
        P([X0], [st("pow", 0, p=-1)]),
        P([S(X0, Y0)], [st("pow", 0, pf="2.0")]),
        P([X0, Y0], [st("div", 0, 1)]),
        P([N(2), Y0], [st("div", 0, 1)]),
        # term order does not matter for ==
        P([X0, Y0, Z1], [st("add", 0, 1), st("add", 1, 0), st("eq", 3, 4), st("add", 3, 2), st("add", 2, 3), st("eq", 6, 7),
                         st("eq", 6, 3)]),
        # == with numbers and between kinds
        P([S(T([], 2)), N(2), T([], 2), T([[0, "X"]], 0), S()],
          [st("simplify", 0), st("eq", 5, 1), st("eq", 1, 5), st("eq", 2, 1), st("eq", 5, 2), st("eq", 2, 5), st("eq", 3, 4),
           st("eq", 4, 3)]),
        # regression input of the FIXED defect eq-empty-sum-vs-zero-number (4f25fdd): PauliSum() == 0 was False
        P([S(), N(0)], [st("eq", 0, 1)]),
        P([S(), N(0, ty="int")], [st("eq", 1, 0)]),
        # FINDING eq-hash-rounding-boundary: coefficients 2e-9 apart on the two sides of a round(c*1e6) boundary
        P([S(T([[0, "X"]], Fraction(1.5e-6 - 1e-9))), S(T([[0, "X"]], Fraction(1.5e-6 + 1e-9)))], [st("eq", 0, 1)], exact=False),
        # zero coefficients on either side of == against non-zero operands of every kind, all ordered pairs
        _eq_matrix([T([[0, "X"]], 0), T([[1, "Z"]], 3), T([], 0, ty="int"), N(1), N(0), S(), T([], 1), S(T([[1, "Z"]], 3)),
                    T([[0, "X"]], 3), S(T([[0, "X"]], 3), T([[1, "Z"]], 3))],
                   [st("mul", 1, 4), st("mul", 4, 8)]),
        # an operation, then the same operands again (like terms in two dict orders; un-simplified sum with duplicates)
        P([T([[0, "Z"], [2, "X"]], 1), T([[2, "X"], [0, "Z"]], 2), S(T([[0, "Z"]], 1), T([[0, "Z"]], 2))],
          [st("add", 0, 1), st("add", 0, 1), st("sub", 0, 1), st("simplify", 2), st("simplify", 2), st("eq", 6, 7),
           st("mul", 0, 0), st("eq", 3, 4)], kind="history"),
        # indices up to 12, gap, descending dict order
        P([T([[12, "Y"], [3, "X"], [7, "Z"]], Fraction(3, 8), Fraction(-5, 8)), T([[7, "X"], [12, "Y"], [0, "Z"]], 0, 1)],
          [st("mul", 0, 1), st("mul", 1, 0), st("add", 2, 3), st("sub", 2, 3), st("pow", 0, p=5), st("pow", 1, p=4)]),
    ]


# ---------------------------------------------------------------------------------------------- generators
def _coeff(rng, allow_zero=True):
    r = rng.random()
    k = rng.randrange(-16, 17)
    l = rng.randrange(-16, 17)
    if allow_zero and r < 0.08:
        return Fraction(0), Fraction(0)
    if r < 0.45:
        return Fraction(k or 1, 8), Fraction(0)
    if r < 0.6:
        return Fraction(0), Fraction(l or 1, 8)
    return Fraction(k, 8), Fraction(l or -3, 8)


def _term(rng, pool, allow_zero=True, const_p=0.1):
    if rng.random() < const_p:
        ops = []
    else:
        qs = rng.sample(pool, rng.randrange(1, len(pool) + 1))
        ops = [[q, rng.choice(LETTERS)] for q in qs]  # dict order = sample order (not sorted)
    re, im = _coeff(rng, allow_zero)
    ty = None
    if im == 0 and re.denominator == 1 and rng.random() < 0.5:
        ty = "int"
    return T(ops, re, im, ty)


def _sum(rng, pool):
    r = rng.random()
    if r < 0.1:
        return S()
    terms = [_term(rng, pool) for _ in range(rng.randrange(1, 5))]
    if terms and rng.random() < 0.5:  # duplicates: same string again, sometimes cancelling exactly
        src = rng.choice(terms)
        dup = dict(src)
        dup["ops"] = list(src["ops"])
        rng.shuffle(dup["ops"])
        if rng.random() < 0.4:
            dup["c"] = [rat(-unrat(src["c"][0])), rat(-unrat(src["c"][1]))]
        else:
            re, im = _coeff(rng)
            dup["c"] = _c(re, im)
        dup.pop("ty", None)
        terms.insert(rng.randrange(len(terms) + 1), dup)
    return S(*terms)


DIVISORS_EXACT = [(1, 0), (-1, 0), (2, 0), (-4, 0), (Fraction(1, 2), 0), (0, 1), (0, -2), (1, 1), (1, -1), (-2, 2),
                  (Fraction(1, 2), Fraction(1, 2)), (8, 0), (0, Fraction(-1, 4))]
DIVISORS_INEXACT = [(3, 0), (Fraction(5, 8), 0), (1, 2), (Fraction(3, 8), Fraction(-1, 8)), (0, 3)]


def _program(rng, tier):
    big = tier == "thorough"
    pool = sorted(rng.sample(range(13), rng.randrange(1, (5 if big else 4) + 1)))
    if rng.random() < 0.3:
        pool = list(range(len(pool)))  # dense low indices
    vals, kinds, bits, divisor = [], [], [], {}
    for _ in range(rng.randrange(2, 5)):
        r = rng.random()
        if r < 0.45:
            vals.append(_term(rng, pool)); kinds.append("term")
        elif r < 0.8:
            vals.append(_sum(rng, pool)); kinds.append("sum")
        else:
            re, im = _coeff(rng)
            ty = "int" if (im == 0 and re.denominator == 1 and rng.random() < 0.5) else None
            vals.append(N(re, im, ty)); kinds.append("num")
        bits.append(3)
    if all(k == "num" for k in kinds):
        vals.append(_term(rng, pool)); kinds.append("term"); bits.append(3)
    for _ in range(rng.randrange(0, 3)):  # designated divisors: (mostly) exactly invertible in doubles
        ex = rng.random() < 0.85
        re, im = rng.choice(DIVISORS_EXACT if ex else DIVISORS_INEXACT)
        ty = "int" if (im == 0 and Fraction(re).denominator == 1 and rng.random() < 0.5) else None
        divisor[len(vals)] = ex
        vals.append(N(re, im, ty)); kinds.append("num"); bits.append(3)
    steps, exact = [], True
    nsteps = rng.randrange(1, (8 if big else 6))
    for _ in range(nsteps):
        live = [i for i, k in enumerate(kinds) if k is not None]
        ops_ = [i for i in live if kinds[i] != "num"]
        a = rng.choice(live)
        r = rng.random()
        if r < 0.30:
            op = "mul"
        elif r < 0.45:
            op = "add"
        elif r < 0.58:
            op = "sub"
        elif r < 0.68:
            op = "pow"
        elif r < 0.80:
            op = "div"
        elif r < 0.87:
            op = "simplify"
        else:
            op = "eq"
        if op in ("mul", "add", "sub", "eq"):
            b = rng.choice(live)
            if kinds[a] == "num" and kinds[b] == "num":
                b = rng.choice(ops_)
            if op == "eq" and rng.random() < 0.35 and kinds[a] != "num":
                b = a
            nb = bits[a] + bits[b] if op == "mul" else max(bits[a], bits[b])
            if nb > 24:
                continue
            steps.append(st(op, a, b))
            if op == "eq":
                kinds.append(None); bits.append(0)
            elif op == "mul":
                kinds.append("sum" if "sum" in (kinds[a], kinds[b]) else "term"); bits.append(nb)
            else:
                kinds.append("sum"); bits.append(nb)
        elif op == "pow":
            a = rng.choice(ops_)
            r2 = rng.random()
            if r2 < 0.05:
                steps.append(st("pow", a, p=-rng.randrange(1, 4))); break
            if r2 < 0.09:
                steps.append(st("pow", a, pf=rng.choice(["2.0", "0.5", "1j"]))); break
            p = rng.randrange(0, 7 if kinds[a] == "term" else 4)
            if bits[a] * max(p, 1) > 24:
                continue
            steps.append(st("pow", a, p=p))
            kinds.append(kinds[a]); bits.append(bits[a] * max(p, 1))
        elif op == "div":
            a = rng.choice(ops_)
            r2 = rng.random()
            if r2 < 0.05:
                steps.append(st("div", a, rng.choice(ops_))); break          # TypeError: 1.0 / operator
            nums = [i for i in live if kinds[i] == "num"]
            if not nums:
                continue
            b = rng.choice(list(divisor) if (divisor and rng.random() < 0.85) else nums)
            if b < len(vals) and vals[b]["c"] == [0, 0]:
                steps.append(st("div", a, b)); break                           # ZeroDivisionError
            if not divisor.get(b, False):
                exact = False
            if bits[a] + 4 > 24:
                continue
            steps.append(st("div", a, b))
            kinds.append(kinds[a]); bits.append(bits[a] + 4)
        elif op == "simplify":
            ss = [i for i in live if kinds[i] == "sum"]
            if not ss:
                continue
            a = rng.choice(ss)
            steps.append(st("simplify", a))
            kinds.append("sum"); bits.append(bits[a])
    if not steps:
        a = next(i for i, k in enumerate(kinds) if k != "num")
        steps.append(st("mul", a, a))
    case = P(vals, steps)
    if not exact:
        case["exact"] = False
    return case


def _eq_case(rng, tier):
    """equalities that should hold (commuted sums / products, re-simplification) and near misses"""
    pool = sorted(rng.sample(range(13), rng.randrange(1, 4)))
    a, b, c = _term(rng, pool, allow_zero=False), _term(rng, pool, allow_zero=False), _sum(rng, pool)
    r = rng.random()
    if r < 0.25:
        return P([a, b, c], [st("add", 0, 1), st("add", 1, 0), st("eq", 3, 4), st("add", 3, 2), st("add", 2, 3), st("eq", 6, 7)],
                 kind="eq")
    if r < 0.45:
        return P([a, b, c], [st("add", 0, 1), st("mul", 3, 2), st("mul", 0, 2), st("mul", 1, 2), st("add", 5, 6), st("eq", 4, 7),
                             st("eq", 7, 4)], kind="eq")
    if r < 0.6:
        # a sum against itself with one coefficient moved by 1/8
        a2 = dict(a)
        a2["c"] = [rat(unrat(a["c"][0]) + Fraction(1, 8)), a["c"][1]]
        a2.pop("ty", None)
        return P([a, a2, b], [st("add", 0, 2), st("add", 1, 2), st("eq", 3, 4), st("eq", 0, 1), st("eq", 3, 3)], kind="eq")
    if r < 0.8:
        # operator against number / constant term / constant sum
        re, im = _coeff(rng)
        return P([N(re, im), T([], re, im), S(T([], re, im)), a, S()],
                 [st("simplify", 2), st("eq", 0, 1), st("eq", 1, 0), st("eq", 5, 0), st("eq", 0, 5), st("eq", 5, 1), st("eq", 1, 5),
                  st("eq", 3, 0), st("eq", 3, 5), st("eq", 4, 3), st("eq", 3, 4)], kind="eq")
    # same operator string, different letters / supports
    b2 = dict(a)
    b2["ops"] = [[q, rng.choice(LETTERS)] for q, _ in a["ops"]]
    return P([a, b2], [st("eq", 0, 1), st("eq", 1, 0), st("sub", 0, 1), st("sub", 1, 0), st("eq", 4, 5)], kind="eq")


def _eq_matrix(vals, derived=(), kind="eqmatrix", skip=()):
    """every ORDERED pair of the operands (initial values and derived registers) compared with ==, both argument orders"""
    steps = list(derived)
    n = len(vals) + len(steps)
    kinds = [v["k"] for v in vals] + ["op"] * len(steps)
    for i in range(n):
        for j in range(n):
            if i == j or (kinds[i] == "num" and kinds[j] == "num") or (i, j) in skip:
                continue
            steps.append(st("eq", i, j))
    return P(vals, steps, kind=kind)


def _eq_zero_case(rng, tier):
    """zero (and negligible) coefficients on EITHER side of == against non-zero operands of every kind (term on the same /
    another string, constant term, number, one-term / many-term / empty sum), all ordered pairs"""
    pool = sorted(rng.sample(range(13), rng.randrange(1, 4)))
    opsA = [[q, rng.choice(LETTERS)] for q in rng.sample(pool, rng.randrange(1, len(pool) + 1))]
    opsB = [[q, rng.choice(LETTERS)] for q in rng.sample(pool, rng.randrange(1, len(pool) + 1))]
    if sorted(opsB) == sorted(opsA):
        opsB = [[opsA[0][0], LETTERS[(LETTERS.index(opsA[0][1]) + 1) % 3]]] + opsA[1:]
    re, im = _coeff(rng, allow_zero=False)
    re2, im2 = _coeff(rng, allow_zero=False)
    zero_ty = rng.choice([None, "int"])
    cands = [
        T(opsA, 0, 0, zero_ty),                  # zero term on string A
        T(opsB, 0),                              # zero term on string B
        T([], 0, 0, rng.choice([None, "int"])),  # zero constant term
        N(0, 0, rng.choice([None, "int"])),      # the number zero
        S(),                                     # the empty sum
        T(opsA, re, im), T(opsB, re2, im2),      # non-zero terms on both strings
        T(list(reversed(opsA)), re, im),         # same operator, other dict order
        T([], re, im), N(re, im),                # non-zero constant term / number (equal to each other)
        S(T(opsA, re, im)), S(T(opsB, re2, im2), T(opsA, re, im)), S(T([], re, im)),
    ]
    k = len(cands) if tier == "thorough" else 8
    idx = sorted(rng.sample(range(len(cands)), k))
    if not any(i < 3 for i in idx):
        idx[0] = rng.randrange(0, 3)
    vals = [cands[i] for i in sorted(set(idx))]
    derived = []
    ti = [i for i, v in enumerate(vals) if v["k"] == "term"]
    zi = [i for i, v in enumerate(vals) if v["k"] == "num" and v["c"] == [0, 0]]
    if ti and zi and rng.random() < 0.7:        # a zero produced BY the arithmetic: term * 0, 0 * term
        derived.append(st("mul", rng.choice(ti), zi[0]))
        derived.append(st("mul", zi[0], rng.choice(ti)))
    return _eq_matrix(vals, derived)


def _eq_negligible_case(rng):
    """a coefficient the library treats as zero (1e-9) on either side of == against non-zero operands"""
    q = rng.randrange(0, 4)
    a, b = rng.sample(LETTERS, 2)
    eps = Fraction(1e-9) * rng.choice([1, -1])
    re, im = _coeff(rng, allow_zero=False)
    vals = [T([[q, a]], eps), T([[q, b]], re, im), T([], re, im), N(re, im), T([], eps), S(T([[q, b]], re, im)), N(0), S()]
    c = _eq_matrix(vals)
    c["exact"] = False
    return c


class _Prog:
    """builder: registers are the initial values followed by one register per step"""

    def __init__(self, vals):
        self.vals, self.steps = list(vals), []

    def __call__(self, op, a, b=None, **kw):
        self.steps.append(st(op, a, b, **kw))
        return len(self.vals) + len(self.steps) - 1

    def case(self, kind):
        return P(self.vals, self.steps, kind=kind)


def _history_case(rng, tier):
    """multi-step histories on the SAME objects: an operation is evaluated, then the very same operands are used again
    (operands changed in place, results cached on an operand, temporaries) – every repeat must denote the same matrix;
    results that must merge like terms are compared (==) with the merged operator written down directly"""
    pool = sorted(rng.sample(range(13), rng.randrange(1, 4)))
    ops = [[q, rng.choice(LETTERS)] for q in rng.sample(pool, rng.randrange(1, len(pool) + 1))]
    re, im = _coeff(rng, allow_zero=False)
    re2, im2 = _coeff(rng, allow_zero=False)
    if (re + re2, im + im2) == (0, 0) or (re - re2, im - im2) == (0, 0):
        re2 += Fraction(1, 8)
        if (re + re2, im + im2) == (0, 0) or (re - re2, im - im2) == (0, 0):
            re2 += Fraction(1, 8)
    a = T(ops, re, im)
    b = T(list(reversed(ops)), re2, im2)          # like term, other dict order
    c = _term(rng, pool, allow_zero=False)
    raw = S(a, c, b, dict(a))                      # un-simplified sum holding duplicates
    merged = T(sorted(ops), re + re2, im + im2)    # a + b written down directly
    diffab = T(sorted(ops), re - re2, im - im2)    # a - b
    A, B, C, RAW, MERGED, DIFF = range(6)
    g = _Prog([a, b, c, raw, merged, diffab])
    r = rng.random()
    if r < 0.35:
        s1 = g("add", A, B); s2 = g("add", A, B); d1 = g("sub", A, B); d2 = g("sub", B, A)
        g("mul", A, B); g("eq", A, A); s3 = g("add", B, A); g("pow", A, p=2)
        g("eq", s1, s2); g("eq", s1, s3); g("eq", s1, MERGED); g("eq", MERGED, s2); g("eq", d1, DIFF); g("eq", DIFF, d1)
        g("add", d1, d2)
    elif r < 0.6:
        x1 = g("simplify", RAW); x2 = g("simplify", RAW); g("eq", x1, x2); g("add", RAW, RAW); g("mul", RAW, A)
        x3 = g("simplify", RAW); g("sub", RAW, x1); p1 = g("pow", RAW, p=2); p2 = g("pow", RAW, p=2); g("eq", p1, p2)
        g("eq", x3, x1); m = g("add", A, B); g("eq", m, MERGED)
    elif r < 0.8:
        m1 = g("mul", A, C); m2 = g("mul", C, A); m3 = g("mul", A, C); g("eq", m1, m3)
        ac = g("add", m1, m2); g("sub", m1, m2); s1 = g("add", A, C); s2 = g("add", A, C); g("eq", s1, s2)
        p1 = g("pow", A, p=3); p2 = g("pow", A, p=3); g("eq", p1, p2)
        # anticommutator / commutator written both ways: like terms meet in different dict orders
        ca = g("add", m2, m1); g("eq", ac, ca); g("eq", ca, ac)
        bc = g("mul", B, C); abc = g("add", m1, bc); mc = g("mul", MERGED, C); g("eq", abc, mc); g("eq", mc, abc)
    else:
        # the same object on both sides, and a result fed back together with its own operand
        d = g("add", A, A); z = g("sub", A, A); g("mul", RAW, RAW); t = g("add", RAW, A); g("add", d, A); g("mul", t, RAW)
        zz = g("sub", t, t); g("eq", t, t); g("add", RAW, RAW); g("eq", z, zz); g("eq", zz, z)
    return g.case("history")


def _malformed(rng):
    pool = [0, 1, 2]
    a = _term(rng, pool)
    r = rng.random()
    if r < 0.25:
        return P([a, N(0)], [st("div", 0, 1)], kind="malformed")
    if r < 0.5:
        return P([_sum(rng, pool)], [st("pow", 0, p=-rng.randrange(1, 5))], kind="malformed")
    if r < 0.7:
        return P([a], [st("pow", 0, pf=rng.choice(["2.0", "1.5", "1j"]))], kind="malformed")
    if r < 0.85:
        return P([a, _sum(rng, pool)], [st("div", 0, 1)], kind="malformed")
    return P([N(2), a], [st("div", 0, 1)], kind="malformed")


def generate(rng, tier):
    big = tier == "thorough"
    cases = []
    # exhaustive products of Pauli strings, both orders: <= 2 qubits (quick), <= 3 qubits (thorough: 64 x 64 x 2)
    for n in ([1, 2, 3] if big else [1, 2]):
        for left in pauli_strings(n):
            re, im = _coeff(rng, allow_zero=False)
            re2, im2 = _coeff(rng, allow_zero=False)
            cases.append({"kind": "pairs", "n": n, "left": left, "cl": _c(re, im), "cr": _c(re2, im2)})
    if not big:  # a seeded slice of the 3-qubit table
        for left in rng.sample(pauli_strings(3), 12):
            cases.append({"kind": "pairs", "n": 3, "left": left, "cl": _c(1), "cr": _c(0, 1)})
    for _ in range(1500 if big else 260):
        cases.append(_program(rng, tier))
    for _ in range(400 if big else 80):
        cases.append(_eq_case(rng, tier))
    for _ in range(100 if big else 30):
        cases.append(_malformed(rng))
    for _ in range(60 if big else 14):
        cases.append(_eq_zero_case(rng, tier))
    for _ in range(20 if big else 6):
        cases.append(_eq_negligible_case(rng))
    for _ in range(200 if big else 40):
        cases.append(_history_case(rng, tier))
    return cases


def _support(v):
    if v["k"] == "term":
        return {q for q, _ in v["ops"]}
    if v["k"] == "sum":
        return set().union(*[{q for q, _ in t["ops"]} for t in v["terms"]]) if v["terms"] else set()
    return set()


def nontrivial(case):
    c = expand(case)
    vals = c["vals"]
    for v in vals:
        if v["k"] == "sum":
            keys = [tuple(sorted(map(tuple, t["ops"]))) for t in v["terms"]]
            if len(set(keys)) < len(keys) or any(t["c"] == [0, 0] for t in v["terms"]):
                return True
    for s in c["steps"]:
        if "b" in s and s["a"] < len(vals) and s["b"] < len(vals) and s["op"] != "eq":
            sa, sb = _support(vals[s["a"]]), _support(vals[s["b"]])
            if sa and sb and sa & sb:
                return True
    return False


# ---------------------------------------------------------------------------------------------- implementation
def _num(c, ty=None):
    re, im = unrat(c[0]), unrat(c[1])
    if ty == "int":
        return int(re)
    if im == 0:
        return float(re)
    return complex(float(re), float(im))


def _build(v):
    common.use_repo()
    from orquestra.quantum.operators import PauliSum, PauliTerm

    if v["k"] == "num":
        return _num(v["c"], v.get("ty"))
    if v["k"] == "term":
        return PauliTerm({int(q): p for q, p in v["ops"]}, _num(v["c"], v.get("ty")))
    return PauliSum([_build(t) for t in v["terms"]])


def _cnum(x):
    z = complex(x)
    return [rat(Fraction(z.real)), rat(Fraction(z.imag))]


def _canon(o):
    from orquestra.quantum.operators import PauliSum, PauliTerm

    if isinstance(o, bool):
        return o
    if isinstance(o, PauliTerm):
        return {"k": "term", "ops": sorted([int(q), str(p)] for q, p in o._ops.items()), "c": _cnum(o.coefficient)}
    if isinstance(o, PauliSum):
        return {"k": "sum", "terms": [_canon(t) for t in o.terms]}
    if isinstance(o, (int, float, complex)):
        return {"k": "num", "c": _cnum(o)}
    return {"k": "other", "type": type(o).__name__}


def _expo(s):
    if "p" in s:
        return int(s["p"])
    return complex(s["pf"]) if "j" in s["pf"] else float(s["pf"])


def run_impl(case):
    c = expand(case)
    regs = [_build(v) for v in c["vals"]]
    init = [_canon(r) for r in regs]
    results = []
    for s in c["steps"]:
        a = regs[s["a"]]
        b = regs[s["b"]] if "b" in s else None
        try:
            op = s["op"]
            if op == "add":
                r = a + b
            elif op == "sub":
                r = a - b
            elif op == "mul":
                r = a * b
            elif op == "div":
                r = a / b
            elif op == "pow":
                r = a ** _expo(s)
            elif op == "simplify":
                r = a.simplify()
            elif op == "eq":
                r = (a == b)
                r = bool(r)
            else:
                raise AssertionError("unknown step")
        except TypeError:
            results.append("err:type"); break
        except ValueError:
            results.append("err:value"); break
        except ZeroDivisionError:
            results.append("err:zerodiv"); break
        regs.append(r)
        results.append(_canon(r))
    return {"init": init, "results": results}


# ---------------------------------------------------------------------------------------------- model requests
def _strip(v):
    if v["k"] == "sum":
        return {"k": "sum", "terms": [_strip(t) for t in v["terms"]]}
    return {k: x for k, x in v.items() if k in ("k", "ops", "c")}


def _first_term_mul(c):
    for i, s in enumerate(c["steps"]):
        if s["op"] == "mul" and s["a"] < len(c["vals"]) and s["b"] < len(c["vals"]) \
                and c["vals"][s["a"]]["k"] == "term" and c["vals"][s["b"]]["k"] == "term":
            return i, s
    return None


def _denote_target(c, out):
    """last operator-valued result of a program on a register of <= 4 qubits"""
    if c["kind"] == "pairs" or "results" not in out:
        return None
    width = 0
    for v in out["init"] + [r for r in out["results"] if isinstance(r, dict)]:
        for t in ([v] if v.get("k") == "term" else v.get("terms", [])):
            for q, _ in t["ops"]:
                width = max(width, q + 1)
    if width > 4:
        return None
    for r in reversed(out["results"]):
        if isinstance(r, dict) and r.get("k") in ("term", "sum"):
            return r, max(width, 1)
    return None


def requests(case, out):
    c = expand(case)
    reqs = [("program", {"vals": [_strip(v) for v in c["vals"]], "steps": c["steps"]})]
    if not isinstance(out, dict) or "results" not in out:
        return reqs
    ftm = _first_term_mul(c)
    if ftm is not None:
        i, s = ftm
        u = c["vals"][s["b"]]
        order = [q for q, _ in u["ops"]][::-1]  # a different iteration order of the right factor's qubits
        if len(order) > 2:
            order = order[1:] + order[:1]
        reqs.append(("mul_order", {"t": _strip(c["vals"][s["a"]]), "u": _strip(u), "order": order}))
    dt = _denote_target(c, out)
    if dt is not None:
        reqs.append(("denote", {"v": dt[0], "n": dt[1]}))
    return reqs


def _cfr(c):
    return unrat(c[0]), unrat(c[1])


def _same_coeff(ci, cm, exact):
    a, b = _cfr(ci), _cfr(cm)
    if exact:
        return a == b
    return abs(complex(a[0] - b[0], a[1] - b[1])) <= 1e-9 * max(1.0, abs(complex(b[0], b[1])))


def _same_val(ri, rm, exact):
    if isinstance(ri, (bool, str)) or isinstance(rm, (bool, str)):
        return ri == rm and type(ri) is type(rm)
    if ri.get("k") != rm.get("k"):
        return False
    if ri["k"] == "num":
        return _same_coeff(ri["c"], rm["c"], exact)
    if ri["k"] == "term":
        return ri["ops"] == rm["ops"] and _same_coeff(ri["c"], rm["c"], exact)
    if ri["k"] == "sum":
        return len(ri["terms"]) == len(rm["terms"]) and all(_same_val(x, y, exact) for x, y in zip(ri["terms"], rm["terms"]))
    return False


def compare(case, out, resp):
    c = expand(case)
    for r in resp:
        if isinstance(r, dict) and "driver_error" in r:
            return "driver error: " + r["driver_error"]
    if not isinstance(out, dict) or "results" not in out:
        return f"implementation raised unexpectedly: {out}"
    exact = c.get("exact", True)
    mres = resp[0]["results"]
    ires = out["results"]
    for i, (ri, rm) in enumerate(zip(ires, mres)):
        if not _same_val(ri, rm, exact):
            return f"step {i} {c['steps'][i]}: impl {common.canon(ri)[:300]} model {common.canon(rm)[:300]}"
    if len(ires) != len(mres):
        return f"program length: impl produced {len(ires)} results, model {len(mres)}"
    k = 1
    ftm = _first_term_mul(c)
    if ftm is not None:
        i, _ = ftm
        if i < len(ires) and not _same_val(ires[i], resp[k], exact):
            return f"term product with another iteration order of the right factor: impl {ires[i]} model {resp[k]}"
        k += 1
    dt = _denote_target(c, out)
    if dt is not None and k < len(resp):
        import numpy as np
        want = _matrix(dt[0], list(range(dt[1])))
        got = np.array([[complex(float(unrat(e[0])), float(unrat(e[1]))) for e in row] for row in resp[k]])
        if got.shape != want.shape or np.max(np.abs(got - want)) > 1e-9 * max(1.0, float(np.max(np.abs(want)))):
            return f"model denote of {common.canon(dt[0])[:200]} on {dt[1]} qubits differs from the numpy Kronecker matrix"
    return None


# ---------------------------------------------------------------------------------------------- oracle (numpy, no model code)
def _paulis():
    import numpy as np
    return {"I": np.eye(2, dtype=complex), "X": np.array([[0, 1], [1, 0]], dtype=complex),
            "Y": np.array([[0, -1j], [1j, 0]]), "Z": np.array([[1, 0], [0, -1]], dtype=complex)}


def _term_matrix(t, qubits):
    import numpy as np
    pm = _paulis()
    ops = {int(q): p for q, p in t["ops"]}
    m = np.eye(1, dtype=complex)
    for q in qubits:  # qubit 0 (lowest index) leftmost
        m = np.kron(m, pm[ops.get(q, "I")])
    re, im = _cfr(t["c"])
    return complex(float(re), float(im)) * m


def _matrix(v, qubits):
    import numpy as np
    d = 2 ** len(qubits)
    if v["k"] == "num":
        re, im = _cfr(v["c"])
        return complex(float(re), float(im)) * np.eye(d, dtype=complex)
    if v["k"] == "term":
        return _term_matrix(v, qubits)
    m = np.zeros((d, d), dtype=complex)
    for t in v["terms"]:
        m = m + _term_matrix(t, qubits)
    return m


def _coeff_table(v):
    """operator string -> coefficient (for == : only used on simplified operands, numbers are c*I)"""
    out = {}
    if v["k"] == "num":
        items = [((), v["c"])]
    elif v["k"] == "term":
        items = [(tuple(map(tuple, v["ops"])), v["c"])]
    else:
        items = [(tuple(map(tuple, t["ops"])), t["c"]) for t in v["terms"]]
    for key, c in items:
        re, im = _cfr(c)
        out[key] = out.get(key, 0) + complex(float(re), float(im))
    return out


def _is_simplified(v):
    if v["k"] != "sum":
        return True
    keys = [tuple(map(tuple, t["ops"])) for t in v["terms"]]
    if len(set(keys)) != len(keys):
        return False
    return all(abs(complex(*map(float, _cfr(t["c"])))) > 1e-8 for t in v["terms"])


def oracle(case, out):
    import numpy as np
    c = expand(case)
    if not isinstance(out, dict) or "results" not in out:
        return ("raise:" + str(out.get("exc") if isinstance(out, dict) else out), f"implementation raised unexpectedly: {out}")
    regs = list(out["init"])
    qubits = set()
    for v in regs + [r for r in out["results"] if isinstance(r, dict)]:
        for t in ([v] if v.get("k") == "term" else v.get("terms", [])):
            qubits |= {int(q) for q, _ in t["ops"]}
    qubits = sorted(qubits)
    if len(qubits) > 7:
        return None  # not generated; the dense oracle would need > 128 x 128 matrices
    mats = {}
    lib_simplified = set()  # registers holding a sum RETURNED by + - * / ** simplify(): simplified operators by construction

    def M(i):
        if i not in mats:
            mats[i] = _matrix(regs[i], qubits)
        return mats[i]

    def kind(i):
        return regs[i]["k"] if isinstance(regs[i], dict) else "bool"

    eq_seen = {}
    for i, s in enumerate(c["steps"]):
        if i >= len(out["results"]):
            break
        r = out["results"][i]
        op = s["op"]
        ka = kind(s["a"])
        kb = kind(s["b"]) if "b" in s else None
        if "bool" in (ka, kb):
            break  # not generated: a comparison result used as an operand
        sig = f"{op}:{ka}" + (f"-{kb}" if kb else "")
        desc = f"step {i} {s} on {common.canon(regs[s['a']])[:160]}" + (f" and {common.canon(regs[s['b']])[:160]}" if "b" in s else "")
        indomain = (op in ("add", "sub", "mul", "eq") and not (ka == "num" and kb == "num")) or op == "simplify" \
            or (op == "div" and kb == "num" and ka != "num" and _cfr(regs[s["b"]]["c"]) != (0, 0)) \
            or (op == "pow" and "p" in s and s["p"] >= 0 and ka != "num")
        if isinstance(r, str):
            if indomain:
                return ("raise-in-domain:" + sig, f"{desc}: raised {r} on an in-domain operation")
            break
        regs.append(r)
        if not indomain:
            continue
        if op == "eq":
            if not isinstance(r, bool):
                return ("eq-not-bool:" + sig, f"{desc}: == returned {r!r}")
            va, vb = regs[s["a"]], regs[s["b"]]
            if not ((s["a"] in lib_simplified or _is_simplified(va)) and (s["b"] in lib_simplified or _is_simplified(vb))):
                continue
            ta, tb = _coeff_table(va), _coeff_table(vb)
            keys = set(ta) | set(tb)
            diff = max([abs(ta.get(k2, 0) - tb.get(k2, 0)) for k2 in keys], default=0.0)
            big = max([abs(x) for x in list(ta.values()) + list(tb.values())], default=0.0)
            if diff <= 0.9e-8 and r is False:
                if diff == 0 and "num" in (ka, kb) and "sum" in (ka, kb) and len((va if ka == "sum" else vb)["terms"]) == 0:
                    return ("eq-empty-sum-vs-zero-number",
                            f"{desc}: == is False although both sides denote the zero matrix")
                if diff > 0:
                    return ("eq-hash-rounding-boundary",
                            f"{desc}: == is False although every coefficient differs by {diff:.3g} <= 1e-8")
                return ("eq-false-on-equal:" + sig, f"{desc}: == is False although the denoted matrices are equal")
            if diff > 1e-8 + 1.1e-5 * big and r is True:
                return ("eq-true-on-different:" + sig, f"{desc}: == is True although coefficients differ by {diff:.3g}")
            # a == b iff b == a (matrix equality is symmetric); only outside the tolerance band, where the verdict is fixed
            if diff <= 0.9e-8 or diff > 1e-8 + 1.1e-5 * big:
                other = eq_seen.get((s["b"], s["a"]))
                if other is not None and other != r:
                    return ("eq-asymmetric:" + sig, f"{desc}: a == b is {r} but b == a is {other}")
                eq_seen[(s["a"], s["b"])] = r
            continue
        if not (isinstance(r, dict) and r.get("k") in ("term", "sum")):
            return ("result-kind:" + sig, f"{desc}: result {r!r} is not a PauliTerm / PauliSum")
        got = _matrix(r, qubits)
        if op == "add":
            want = M(s["a"]) + M(s["b"])
        elif op == "sub":
            want = M(s["a"]) - M(s["b"])
        elif op == "mul":
            want = M(s["a"]) @ M(s["b"])
        elif op == "div":
            re, im = _cfr(regs[s["b"]]["c"])
            want = M(s["a"]) / complex(float(re), float(im))
        elif op == "pow":
            want = np.linalg.matrix_power(M(s["a"]), int(s["p"]))
        else:
            want = M(s["a"])
        mats[len(regs) - 1] = got
        if r["k"] == "sum":
            lib_simplified.add(len(regs) - 1)
        err = float(np.max(np.abs(got - want))) if got.size else 0.0
        if err > TOL * max(1.0, float(np.max(np.abs(want))) if want.size else 1.0):
            return (sig, f"{desc}: result {common.canon(r)[:200]} denotes a matrix that differs from the matrix "
                         f"{op} of the operands by {err:.3g}")
    return None


def distribution(cases, outs):
    ops, errs, kinds, width, nterms = {}, {}, {}, 0, 0
    for case, out in zip(cases, outs):
        c = expand(case)
        for v in c["vals"]:
            kinds[v["k"]] = kinds.get(v["k"], 0) + 1
            for t in ([v] if v["k"] == "term" else v.get("terms", [])):
                for q, _ in t["ops"]:
                    width = max(width, q + 1)
            if v["k"] == "sum":
                nterms = max(nterms, len(v["terms"]))
        for i, s in enumerate(c["steps"]):
            ops[s["op"]] = ops.get(s["op"], 0) + 1
        if isinstance(out, dict):
            for r in out.get("results", []):
                if isinstance(r, str):
                    errs[r] = errs.get(r, 0) + 1
    return {"step_ops": ops, "errors_hit": errs, "initial_value_kinds": kinds, "max_qubit_index_plus_1": width,
            "max_initial_sum_terms": nterms, "inexact_cases": sum(1 for c in cases if c.get("exact") is False)}
