"""C14 — runners validate requests, deliver enough shots and count their work correctly."""
import gc
import itertools
import json
import os
import tempfile
import warnings
from collections import Counter
from fractions import Fraction

from .. import common
from ..common import unrat

PROP = "C14"
RULE = ("seeded random call histories (single / batch / distribution calls, valid and invalid arguments) on every "
        "runner kind built on the base classes: a harness BaseCircuitRunner subclass (returns n+extra shots), the real "
        "SymbolicSimulator, a BaseWavefunctionSimulator subclass with the default is_natively_supported, each bare or "
        "under one or two MeasurementTrackingBackend wrappers; circuits include empty zero-width ones, idle qubits, "
        "non-gate operations and free symbols; counters, results and every tracker's JSON file are compared with the "
        "model after every call.  Circuits reach the ONE long-lived runner chain of a history in two ways: persistent "
        "(one object per pool entry reused by every call, repeated inside batches, sometimes grown IN PLACE between "
        "calls) or ephemeral (every call on freshly built objects that are dropped afterwards, so object ids are "
        "reused by later circuits); every record is checked against the serialisation of the circuit of ITS call, "
        "taken at call time.  non-trivial: a history with >=1 rejected and >=1 accepted call and >=2 call kinds; "
        "distinct = distinct canonical JSON of the case")
TRUSTED = [
    "abstract _run_and_measure of a BaseCircuitRunner subclass: for n>0 returns >= n shots, each a tuple as long as "
    "the circuit's register (ExecLaw; the replayed log of every run is checked against it: law_ok)",
    "rng.choice(a, size=n, p) in sample_from_wavefunction returns exactly n items of a (DrawLaw; checked on the log)",
    "to_dict(circuit) is a total, deterministic function of circuits made of gate operations (the tracker's "
    "'serialised circuit'; a circuit is represented in the model by its label)",
    "json.dumps / open('w+') write exactly self.raw_data; Measurements.get_counts / get_distribution are the "
    "histogram / relative frequencies of the returned bitstrings (modelled as countsOf / empirical, compared exactly)",
    "format(i, '0{n}b'), Wavefunction.get_outcome_probs keys + bitstring_to_tuple, itertools.groupby: modelled by "
    "formatBin / outcomeTuple / segKeys, compared directly on grids",
]
ASSUMPTIONS = [
    "circuits given to a tracker consist of gate operations only (to_dict raises AttributeError on "
    "MultiPhaseOperation/ResetOperation – serialisation of wavefunction operations is not implemented)",
    "a `grow` step appends a gate on an existing qubit to circuit.operations in place (the register width, fixed at "
    "construction, does not change); the model sees every content version of a circuit as its own label",
    "sample counts are Python ints (numpy integers make run_batch_and_measure raise TypeError on len())",
    "the harness BaseCircuitRunner subclass refuses circuits with free symbols with ValueError, like the simulators",
    "the tracker's own counters are specified by the property only as: never decrease, unchanged by a rejected call; "
    "their exact increments (+1/+1 single, +len/+1 batch, +0/+0 distribution) are compared with the model only",
]

KNOWN_SIGS = ()   # no known findings left; both former ones are fixed in /repo and kept as regression inputs


# --------------------------------------------------------------------------- real objects
def _mods():
    common.use_repo()
    import sympy
    from orquestra.quantum import circuits as C
    from orquestra.quantum.api.circuit_runner import BaseCircuitRunner
    from orquestra.quantum.api.wavefunction_simulator import BaseWavefunctionSimulator
    from orquestra.quantum.measurements import Measurements
    from orquestra.quantum.runners.symbolic_simulator import SymbolicSimulator
    from orquestra.quantum.runners.trackers import MeasurementTrackingBackend
    return dict(sympy=sympy, C=C, BaseCircuitRunner=BaseCircuitRunner, BaseWavefunctionSimulator=BaseWavefunctionSimulator,
                Measurements=Measurements, SymbolicSimulator=SymbolicSimulator, Tracker=MeasurementTrackingBackend)


_CLASSES = {}


def _classes():
    """harness subclasses of the two ABCs (created once per process)"""
    if _CLASSES:
        return _CLASSES
    m = _mods()

    class HarnessRunner(m["BaseCircuitRunner"]):
        """a plain BaseCircuitRunner: deterministic shots, n + extra of them, register-wide tuples"""

        def __init__(self, extras, seed, log, labels):
            super().__init__()
            self._extras, self._state, self._log, self._labels, self._k = list(extras) or [0], seed, log, labels, 0

        def _run_and_measure(self, circuit, n_samples):
            lbl = self._labels.get(id(circuit), -1)
            if circuit.free_symbols:
                self._log.append({"c": lbl, "n": n_samples, "err": "value"})
                raise ValueError("cannot run a circuit with unbound symbols")
            extra = self._extras[self._k % len(self._extras)]
            self._k += 1
            w = circuit.n_qubits
            shots = []
            for _ in range(n_samples + extra):
                self._state = (self._state * 1103515245 + 12345) % (2 ** 31)
                v = (self._state >> 8) % (2 ** w) if w else 0
                shots.append(tuple((v >> (w - 1 - q)) & 1 for q in range(w)))
            self._log.append({"c": lbl, "n": n_samples, "shots": [list(s) for s in shots]})
            return m["Measurements"](shots)

    class DefaultNativeSimulator(m["BaseWavefunctionSimulator"]):
        """a BaseWavefunctionSimulator keeping the default is_natively_supported (GateOperation only)"""

        def _get_wavefunction_from_native_circuit(self, circuit, initial_state):
            state = initial_state
            for op in circuit.operations:
                state = op.apply(state)
            return state

    _CLASSES.update(HarnessRunner=HarnessRunner, DefaultNativeSimulator=DefaultNativeSimulator)
    return _CLASSES


def _width(spec):
    used = [q + 1 for op in spec["ops"] if op[0] != "MP" for q in op[1:3] if isinstance(q, int)]
    return max([spec.get("n") or 0] + used)


def _abstract(spec):
    """what the model sees of a circuit – computed from the spec, not from the Circuit object"""
    return {"width": _width(spec), "ops": [op[0] != "MP" for op in spec["ops"]],
            "symbolic": any(op[0] == "RXS" for op in spec["ops"])}


def _build_circuit(spec):
    m = _mods()
    C = m["C"]
    w = _width(spec)
    ops = []
    for op in spec["ops"]:
        if op[0] == "MP":
            ops.append(C.MultiPhaseOperation(tuple(0.25 * (i % 5) for i in range(2 ** w))))
        else:
            ops.append(_gate(op))
    return C.Circuit(ops, n_qubits=spec.get("n") or None) if (spec.get("n") or ops) else C.Circuit()


def _bits(t):
    return [int(b) for b in t]


def _canon_meas(meas):
    return [_bits(t) for t in meas.bitstrings]


def _canon_dist(d):
    return {"items": sorted([_bits(k), float(v)] for k, v in d.distribution_dict.items()), "repr": repr(d)}


def _spy(obj, name, kind, sink, canon):
    orig = getattr(obj, name)

    def wrapper(*a, **kw):
        r = orig(*a, **kw)
        sink.append([kind, canon(r)])
        return r

    setattr(obj, name, wrapper)


def _build_runner(spec, td, log, labels, chain, spies):
    """returns the runner; chain = [outermost, …, leaf]; spies[i] = what chain[i+1]'s public methods returned"""
    m, cls = _mods(), _classes()
    k = spec["kind"]
    if k == "base":
        r = cls["HarnessRunner"](spec.get("extras", [0]), spec.get("seed", 1), log, labels)
    elif k == "sim":
        r = (m["SymbolicSimulator"] if spec["all_native"] else cls["DefaultNativeSimulator"])(seed=spec.get("seed", 1))
        orig = r._run_and_measure

        def logged(circuit, n_samples):
            res = orig(circuit, n_samples)
            idx = [int("".join(str(int(b)) for b in t) or "0", 2) for t in res.bitstrings]
            log.append({"c": labels.get(id(circuit), -1), "n": n_samples, "draws": idx})
            return res

        r._run_and_measure = logged
    elif k == "tracker":
        sub_chain = []
        inner = _build_runner(spec["inner"], td, log, labels, sub_chain, spies)
        sink = []
        _spy(inner, "run_and_measure", "run", sink, _canon_meas)
        _spy(inner, "run_batch_and_measure", "batch", sink, lambda ms: [_canon_meas(x) for x in ms])
        _spy(inner, "get_measurement_outcome_distribution", "dist", sink, _canon_dist)
        fn = os.path.join(td, f"tracker{len(sub_chain)}.json")
        r = m["Tracker"](inner, fn, spec["bits"])
        chain.append(r)
        chain.extend(sub_chain)
        spies.insert(0, sink)
        return r
    else:
        raise AssertionError(k)
    chain.append(r)
    return r


def _gate(op):
    m = _mods()
    C, sympy = m["C"], m["sympy"]
    k = op[0]
    if k == "H":
        return C.H(op[1])
    if k == "X":
        return C.X(op[1])
    if k == "CNOT":
        return C.CNOT(op[1], op[2])
    if k == "RX":
        return C.RX(float(unrat(op[2])))(op[1])
    if k == "RXS":
        return C.RX(sympy.Symbol("theta"))(op[1])
    raise AssertionError(k)


def _resolve(c):
    """A history may contain `grow` steps, which append a gate IN PLACE to a circuit object that earlier calls already
    used.  Every content version of a pool entry gets its own label (what the model and the oracle see):
    returns (specs by label, plan) with plan entries ("grow", pool index, gate, new label) / ("call", resolved call,
    pool indices)."""
    specs = [dict(sp) for sp in c["pool"]]
    cur = list(range(len(specs)))
    plan = []
    for call in c["calls"]:
        if call["op"] == "grow":
            i = call["c"]
            old = specs[cur[i]]
            specs.append({"n": old.get("n"), "ops": list(old["ops"]) + [list(call["gate"])]})
            cur[i] = len(specs) - 1
            plan.append(("grow", i, call["gate"], cur[i]))
        elif call["op"] == "batch":
            rc = dict(call)
            rc["cs"] = [cur[i] for i in call["cs"]]
            plan.append(("call", rc, list(call["cs"])))
        else:
            rc = dict(call)
            rc["c"] = cur[call["c"]]
            plan.append(("call", rc, [call["c"]]))
    return specs, plan


def _real_calls(c):
    return [p[1] for p in _resolve(c)[1] if p[0] == "call"]


def _apply(runner, call, circuits):
    try:
        if call["op"] == "run":
            return {"meas": _canon_meas(runner.run_and_measure(circuits[0], call["n"]))}
        if call["op"] == "batch":
            ns = list(call["ns"]) if "ns" in call else call["n"]
            return {"batch": [_canon_meas(x) for x in runner.run_batch_and_measure(circuits, ns)]}
        if call["op"] == "dist":
            return {"dist": _canon_dist(runner.get_measurement_outcome_distribution(circuits[0], call.get("n")))}
    except ValueError:
        return "err:value"
    except TypeError:
        return "err:type"
    except Exception as e:  # not an exception the runner API documents: the oracle fails the case at this call
        return f"exc:{type(e).__name__}"
    raise AssertionError(call)


def _serialise(circ):
    m = _mods()
    try:
        return json.loads(json.dumps(m["C"].to_dict(circ)))
    except AttributeError:      # wavefunction operations cannot be serialised (never given to a tracker)
        return None


def _history(c):
    """Run the history on ONE long-lived runner chain.
    persistent mode: one Circuit object per pool entry, reused by every call (the same object may occur several times
      in a batch and across calls; `grow` steps mutate it in place between calls);
    ephemeral mode: every call gets freshly built Circuit objects that are dropped right after the call, so CPython
      hands their addresses to the circuits of later calls (`runner.run_and_measure(ansatz.bind(p), n)` in a loop)."""
    m = _mods()
    specs, plan = _resolve(c)
    ephemeral = bool(c.get("ephemeral"))
    pool = None if ephemeral else [_build_circuit(sp) for sp in c["pool"]]
    labels = {}
    ser = [None] * len(specs)
    log, chain, spies = [], [], []
    with tempfile.TemporaryDirectory(prefix="oq_c14_") as td:
        runner = _build_runner(c["runner"], td, log, labels, chain, spies)
        trackers = [r for r in chain if isinstance(r, m["Tracker"])]
        steps = []
        circuits = []
        for item in plan:
            if item[0] == "grow":
                pool[item[1]].operations.append(_gate(item[2]))      # in place, on the object already submitted
                continue
            call, pool_idx = item[1], item[2]
            lbls = call["cs"] if call["op"] == "batch" else [call["c"]]
            if ephemeral:
                del circuits                                         # the previous call's temporaries die here …
                labels.clear()
                if c.get("gc"):
                    gc.collect(0)   # young generation only: a full collection costs ~30 ms with sympy loaded
                circuits = [_build_circuit(specs[lb]) for lb in lbls]   # … and these take their place
            else:
                labels.clear()
                circuits = [pool[i] for i in pool_idx]
            for obj, lb in zip(circuits, lbls):
                labels[id(obj)] = lb
            call_ser = [_serialise(obj) for obj in circuits]         # the serialised circuits of THIS call
            for lb, sr in zip(lbls, call_ser):
                ser[lb] = sr
            ns_before = list(call["ns"]) if "ns" in call else None
            for sp in spies:
                del sp[:]
            res = _apply(runner, call, circuits)
            files = []
            for t in trackers:
                if os.path.exists(t.raw_data_file_name):
                    with open(t.raw_data_file_name) as fh:
                        files.append(json.load(fh))
                else:
                    files.append(None)
            steps.append({"res": res,
                          "counters": [[r.n_circuits_executed, r.n_jobs_executed] for r in chain],
                          "files": files, "tape_len": len(log), "call_ser": call_ser,
                          "inner_returns": [list(sp) for sp in spies],
                          "pending": [len(t.raw_data) for t in trackers]})
        del circuits
        devices = [t.type for t in trackers]
        classes = [type(r).__name__ for r in chain]
    return {"steps": steps, "tape": log, "ser": ser, "devices": devices, "classes": classes}


def run_impl(c):
    with warnings.catch_warnings():
        warnings.simplefilter("ignore")
        k = c["kind"]
        if k == "history":
            return _history(c)
        if k == "format":
            return {"res": [int(ch) for ch in format(c["i"], "0" + str(c["n"]) + "b")]}
        if k == "outcome":
            import numpy as np
            from orquestra.quantum.utils import bitstring_to_tuple
            from orquestra.quantum.wavefunction import Wavefunction
            wf = Wavefunction(np.array([1.0] + [0.0] * (2 ** c["n"] - 1)))
            return {"res": [[int(b) for b in bitstring_to_tuple(key)] for key in wf.get_outcome_probs()]}
        if k == "segments":
            m, cls = _mods(), _classes()
            C = m["C"]
            ops = [C.X(0) if f else C.MultiPhaseOperation((0.0, 0.5)) for f in c["flags"]]
            circ = C.Circuit(ops, n_qubits=1)
            sim = cls["DefaultNativeSimulator"]()
            segs = list(C.split_circuit(circ, sim.is_natively_supported))
            return {"keys": [bool(kk) for kk, _ in segs], "sizes": [len(s.operations) for _, s in segs],
                    "widths": [s.n_qubits for _, s in segs]}
    raise AssertionError("unknown kind")


# --------------------------------------------------------------------------- model side
def _model_runner(spec):
    if spec["kind"] == "base":
        return {"kind": "base"}
    if spec["kind"] == "sim":
        return {"kind": "sim", "all_native": spec["all_native"]}
    return {"kind": "tracker", "bits": bool(spec["bits"]), "inner": _model_runner(spec["inner"])}


def requests(c, out):
    k = c["kind"]
    if k == "history":
        if "steps" not in out:
            return []
        calls = []
        for call in _real_calls(c):
            cc = dict(call)
            if cc["op"] == "dist" and cc.get("n") is None:
                cc.pop("n", None)
            calls.append(cc)
        return [("history", {"runner": _model_runner(c["runner"]), "pool": [_abstract(s) for s in _resolve(c)[0]],
                             "calls": calls, "tape": out["tape"]})]
    if k == "format":
        return [("format", {"i": c["i"], "n": c["n"]})]
    if k == "outcome":
        return [("outcome", {"i": i, "n": c["n"]}) for i in range(2 ** c["n"])]
    if k == "segments":
        return [("segments", {"flags": c["flags"]})]
    return []


def _canon_file(f, ser):
    """impl JSON file -> the model's record vocabulary"""
    if f is None:
        return []
    out = []
    for rec in f.get("raw-data", []):
        labels = [i for i, s in enumerate(ser) if s is not None and s == rec.get("circuit")]
        if rec.get("data_type") == "measurement":
            out.append({"type": "meas", "labels": labels,
                        "counts": [[[int(ch) for ch in key], v] for key, v in rec["counts"].items()],
                        "gates": rec["number_of_gates"], "shots": rec["number_of_shots"],
                        "bits": rec.get("bitstrings")})
        else:
            out.append({"type": "dist", "labels": labels, "repr": rec.get("distribution"),
                        "gates": rec["number_of_gates"], "shots": rec["number_of_shots"]})
    return out


def _dist_matches(model_dist, impl_dist, call):
    if "exact" in model_dist:
        return call.get("n") is None and model_dist["exact"] == call["c"]
    want = sorted([bits, float(unrat(p))] for bits, p in model_dist["empirical"])
    return want == impl_dist["items"]


def _res_matches(mr, ir, call):
    if isinstance(mr, str) or isinstance(ir, str):
        return mr == ir
    if "dist" in mr:
        return "dist" in ir and _dist_matches(mr["dist"], ir["dist"], call)
    return mr == ir


def compare(c, out, resp):
    r = resp[0]
    if isinstance(r, dict) and "driver_error" in r:
        return "driver error: " + r["driver_error"]
    k = c["kind"]
    if k == "format":
        return None if out["res"] == r else f"format({c['i']}, '0{c['n']}b'): impl {out['res']} model {r}"
    if k == "outcome":
        return None if out["res"] == list(resp) else f"outcome tuples of a {c['n']}-qubit register: impl {out['res']} model {list(resp)}"
    if k == "segments":
        if out["keys"] != r:
            return f"split_circuit keys {out['keys']} model segKeys {r} for flags {c['flags']}"
        return None
    if not r.get("fresh"):
        return "model runner not fresh"
    if not r.get("law_ok"):
        return "the logged external executions violate the assumed law (>= n shots of register width / exactly n draws in range)"
    if len(r["steps"]) != len(out["steps"]):
        return "step count differs"
    for i, (ms, st, call) in enumerate(zip(r["steps"], out["steps"], _real_calls(c))):
        where = f"call #{i} {call}"
        if not _res_matches(ms["res"], st["res"], call):
            return f"{where}: result differs: impl {str(st['res'])[:200]} model {str(ms['res'])[:200]}"
        if ms["counters"] != st["counters"]:
            return f"{where}: counters (outermost first) impl {st['counters']} model {ms['counters']}"
        if ms["ext_calls"] != st["tape_len"]:
            return f"{where}: external executions so far: impl {st['tape_len']} model {ms['ext_calls']}"
        if any(ms["pending"]) or any(st["pending"]):
            return f"{where}: raw_data not flushed: impl {st['pending']} model {ms['pending']}"
        for t, (mf, f) in enumerate(zip(ms["files"], st["files"])):
            cf = _canon_file(f, out["ser"])
            if len(cf) != len(mf):
                return f"{where}: tracker {t} file has {len(cf)} records, model {len(mf)}"
            for a, b in zip(mf, cf):
                if a["type"] != b["type"] or a["c"] not in b["labels"] or a["gates"] != b["gates"] or a["shots"] != b["shots"]:
                    return f"{where}: tracker {t} record differs: impl {str(b)[:200]} model {str(a)[:200]}"
                if a["type"] == "meas" and (a["counts"] != b["counts"] or a["bits"] != b["bits"]):
                    return f"{where}: tracker {t} record counts/bitstrings differ: impl {str(b)[:200]} model {str(a)[:200]}"
    return None


# --------------------------------------------------------------------------- oracle (implementation only)
def _invalid(call):
    """the invalid requests named by the property"""
    if call["op"] == "run":
        return call["n"] <= 0
    if call["op"] == "dist":
        return call.get("n") is not None and call["n"] <= 0
    if "ns" in call:
        return len(call["ns"]) != len(call["cs"]) or any(n <= 0 for n in call["ns"])
    return call["n"] <= 0


def _leaf_work(leaf_spec, circ_spec):
    """(circuits, jobs) one executed circuit adds on a base-class runner – recomputed with itertools.groupby"""
    if leaf_spec["kind"] == "base":
        return 1, 1
    flags = [bool(leaf_spec["all_native"]) or op[0] != "MP" for op in circ_spec["ops"]]
    keys = [k for k, _ in itertools.groupby(flags)]
    return sum(1 for k in keys if k), len(keys)


def _leaf_spec(spec):
    while spec["kind"] == "tracker":
        spec = spec["inner"]
    return spec


def _shape_fail(shots, n, spec, what):
    w = _width(spec)
    if len(shots) < n:
        return ("too-few-shots", f"{what}: {len(shots)} shots returned, {n} requested")
    bad = [s for s in shots if len(s) != w]
    if bad:
        sig = "zero-width-circuit-tuples" if w == 0 else "bitstring-length"
        return (sig, f"{what}: bitstring {tuple(bad[0])} has length {len(bad[0])}, the register has {w} qubits")
    return None


def _record_fail(rec, circ_ser, shots, n_ops, bits, device, what):
    if rec.get("data_type") != "measurement":
        return f"{what}: record type {rec.get('data_type')!r}"
    if rec.get("circuit") != circ_ser:
        return (f"{what}: recorded circuit {str(rec.get('circuit'))[:160]} is not the serialised circuit of this call "
                f"{str(circ_ser)[:160]}")
    want = dict(Counter("".join(str(b) for b in s) for s in shots))
    if rec.get("counts") != want:
        return f"{what}: recorded counts {rec.get('counts')} but the returned measurements have {want}"
    if rec.get("number_of_shots") != len(shots):
        return f"{what}: recorded number_of_shots {rec.get('number_of_shots')}, returned {len(shots)}"
    if rec.get("number_of_gates") != n_ops:
        return f"{what}: recorded number_of_gates {rec.get('number_of_gates')}, circuit has {n_ops}"
    if bits and rec.get("bitstrings") != [list(s) for s in shots]:
        return f"{what}: recorded bitstrings differ from the returned ones"
    if not bits and "bitstrings" in rec:
        return f"{what}: bitstrings recorded although not requested"
    if rec.get("device") != device:
        return f"{what}: device {rec.get('device')!r} is not the wrapped runner's class {device!r}"
    return None


def _oracle_history(c, out):
    fails = []
    leaf = _leaf_spec(c["runner"])
    n_trackers = len(out["devices"])
    tracker_specs, s = [], c["runner"]
    while s["kind"] == "tracker":
        tracker_specs.append(s)
        s = s["inner"]
    prev_counters = [[0, 0] for _ in out["classes"]]
    prev_files = [None] * n_trackers
    prev_tape = 0
    all_specs = _resolve(c)[0]
    for i, (call, st) in enumerate(zip(_real_calls(c), out["steps"])):
        where = (f"call #{i} {call} on {'>'.join(out['classes'])}"
                 + (" [every call on freshly built circuits that are dropped afterwards]" if c.get("ephemeral") else ""))
        res, counters = st["res"], st["counters"]
        executed = out["tape"][prev_tape:st["tape_len"]]
        # counters never decrease
        for (a, b), (a0, b0) in zip(counters, prev_counters):
            if a < a0 or b < b0:
                fails.append(("counter-decreased", f"{where}: counters went from {prev_counters} to {counters}"))
        if _invalid(call):
            empty_scalar = call["op"] == "batch" and "ns" not in call and not call["cs"]
            if res != "err:value":
                fails.append(("empty-batch-nonpositive-count-accepted" if empty_scalar else "invalid-request-accepted",
                              f"{where}: invalid request not rejected with ValueError, got {str(res)[:120]}"))
            if counters != prev_counters:
                fails.append(("empty-batch-nonpositive-count-accepted" if empty_scalar and res != "err:value"
                              else "rejected-call-changed-counters",
                              f"{where}: counters changed by an invalid request: {prev_counters} -> {counters}"))
            if executed:
                fails.append(("executed-before-rejecting", f"{where}: {len(executed)} circuit(s) executed for an invalid request"))
        elif isinstance(res, str) and res.startswith("exc:"):
            fails.append(("unexpected-exception:" + res[4:], f"{where}: valid request raised {res[4:]}"))
        elif isinstance(res, str):
            # a valid request that failed: a circuit with free symbols, or None for a runner without exact distributions
            specs = [all_specs[j] for j in (call["cs"] if call["op"] == "batch" else [call["c"]])]
            symbolic = any(op[0] == "RXS" for sp in specs for op in sp["ops"])
            none_on_base = call["op"] == "dist" and call.get("n") is None and leaf["kind"] == "base"
            if not symbolic and not none_on_base:
                fails.append(("valid-request-failed", f"{where}: valid request raised {res}"))
            if leaf["kind"] == "base":
                ran = sum(1 for e in executed if "shots" in e)
                d = [counters[-1][0] - prev_counters[-1][0], counters[-1][1] - prev_counters[-1][1]]
                if d != [ran, ran]:
                    fails.append(("counter-increment", f"{where}: {ran} circuit(s) ran before the failure, counters grew by {d}"))
        else:
            cs = call["cs"] if call["op"] == "batch" else [call["c"]]
            specs = [all_specs[j] for j in cs]
            # base-class runner / simulator counters grow by exactly the work done
            wc = sum(_leaf_work(leaf, sp)[0] for sp in specs)
            wj = sum(_leaf_work(leaf, sp)[1] for sp in specs)
            d = [counters[-1][0] - prev_counters[-1][0], counters[-1][1] - prev_counters[-1][1]]
            if d != [wc, wj]:
                fails.append(("counter-increment", f"{where}: {out['classes'][-1]} ran {wc} circuit(s) in {wj} job(s), "
                                                   f"counters grew by {d}"))
            if leaf["kind"] == "base" and len(executed) != len(cs):
                fails.append(("execution-count", f"{where}: {len(executed)} executions for {len(cs)} circuits"))
            # results: one per circuit, in order, enough shots, register-wide bitstrings
            if call["op"] == "run":
                if "meas" not in res:
                    fails.append(("result-kind", f"{where}: not a Measurements result"))
                else:
                    f = _shape_fail(res["meas"], call["n"], specs[0], where)
                    if f:
                        fails.append(f)
            elif call["op"] == "dist":
                w = _width(specs[0])
                bad = [k for k, _ in res.get("dist", {}).get("items", []) if len(k) != w]
                if "dist" not in res:
                    fails.append(("result-kind", f"{where}: not a distribution"))
                elif bad:
                    fails.append(("zero-width-circuit-tuples" if w == 0 else "bitstring-length",
                                  f"{where}: outcome {tuple(bad[0])} has length {len(bad[0])}, the register has {w} qubits"))
            if call["op"] == "batch":
                ns = call["ns"] if "ns" in call else [call["n"]] * len(cs)
                if "batch" not in res or len(res["batch"]) != len(cs):
                    fails.append(("result-count", f"{where}: {len(res.get('batch', []))} results for {len(cs)} circuits"))
                else:
                    for j, (shots, n, sp) in enumerate(zip(res["batch"], ns, specs)):
                        f = _shape_fail(shots, n, sp, f"{where} result {j}")
                        if f:
                            fails.append(f)
                    # in order: the j-th result is what the j-th execution (of the j-th circuit) produced
                    if len(executed) == len(cs):
                        for j, (e, shots) in enumerate(zip(executed, res["batch"])):
                            if e["c"] != cs[j] or e["n"] != ns[j]:
                                fails.append(("result-order", f"{where}: execution {j} was for circuit {e['c']} with {e['n']} "
                                                              f"shots, expected circuit {cs[j]} with {ns[j]}"))
                            elif "shots" in e and e["shots"] != shots:
                                fails.append(("result-order", f"{where}: result {j} is not what execution {j} returned"))
            # trackers: pass-through and record
            for t in range(n_trackers):
                kind = call["op"]
                got = [r for k, r in st["inner_returns"][t] if k == kind]
                mine = res[{"run": "meas", "batch": "batch", "dist": "dist"}[kind]]
                if got != [mine]:
                    fails.append(("tracker-passthrough", f"{where}: tracker {t} returned {str(mine)[:120]} but the wrapped "
                                                         f"runner returned {str(got)[:120]}"))
                f = st["files"][t]
                recs = (f or {}).get("raw-data") if isinstance(f, dict) else None
                want_n = len(cs) if kind == "batch" else 1
                if recs is None or len(recs) < want_n:
                    fails.append(("tracker-record", f"{where}: tracker {t} file holds {None if recs is None else len(recs)} "
                                                    f"record(s), the call must have written {want_n}"))
                    continue
                recs = recs[len(recs) - want_n:]      # the records this call wrote are the last ones
                bits = bool(tracker_specs[t]["bits"])
                if kind == "dist":
                    rec = recs[0]
                    if (rec.get("data_type") != "measurement outcome distribution" or rec.get("circuit") != st["call_ser"][0]
                            or rec.get("distribution") != mine["repr"] or rec.get("number_of_shots") != call.get("n")
                            or rec.get("number_of_gates") != len(specs[0]["ops"]) or rec.get("device") != out["devices"][t]):
                        fails.append(("tracker-record", f"{where}: tracker {t} distribution record {str(rec)[:200]} does not "
                                                        f"match the call / returned distribution"))
                else:
                    results = [mine] if kind == "run" else mine
                    for j, (rec, shots) in enumerate(zip(recs, results)):
                        msg = _record_fail(rec, st["call_ser"][j], shots, len(specs[j]["ops"]), bits, out["devices"][t],
                                           f"{where} tracker {t} record {j}")
                        if msg:
                            fails.append(("tracker-record", msg))
        prev_counters, prev_files, prev_tape = counters, st["files"], st["tape_len"]
    if not fails:
        return None
    novel = [f for f in fails if f[0] not in KNOWN_SIGS]
    return (novel or fails)[0]


def oracle(c, out):
    if not isinstance(out, dict) or "exc" in out:
        return ("unexpected-exception:" + str(out.get("exc") if isinstance(out, dict) else "?"),
                f"the implementation raised {out}")
    k = c["kind"]
    if k == "history":
        return _oracle_history(c, out)
    if k == "outcome":
        # every outcome of an n-qubit register is a tuple of n bits, all 2**n of them distinct
        res = out["res"]
        if len(res) != 2 ** c["n"] or len({tuple(t) for t in res}) != len(res) or any(len(t) != c["n"] for t in res):
            return ("zero-width-circuit-tuples" if c["n"] == 0 else "bitstring-length",
                    f"outcomes of a {c['n']}-qubit wavefunction are {res[:4]}…, not {2 ** c['n']} distinct tuples of length {c['n']}")
    if k == "segments":
        # the contract of split_circuit the simulator relies on: alternating keys, nothing lost, width kept
        want = [(kk, len(list(g))) for kk, g in itertools.groupby(c["flags"])]
        if list(zip(out["keys"], out["sizes"])) != want or any(w != 1 for w in out["widths"]):
            return ("split-circuit", f"split_circuit gave {list(zip(out['keys'], out['sizes']))}, runs are {want}")
    return None


# --------------------------------------------------------------------------- inputs
EMPTY = {"n": None, "ops": []}


def _hist(runner, pool, calls):
    return {"kind": "history", "runner": runner, "pool": pool, "calls": calls}


def _temporaries_history():
    pool = []
    for i in range(8):
        ops = [["X", 0]] if i % 2 else [["H", 0], ["X", 0]]
        ops.append(["RX", i % 3, ["1/2", "3/4", "-5/4", "2"][i % 4]])
        if i % 4 == 0:
            ops.append(["CNOT", 0, 2])
        pool.append({"n": 3 + i % 2, "ops": ops})
    calls = []
    for i in range(24):
        calls.append({"op": "run", "c": i % 8, "n": 2 + i % 3})
        if i % 3 == 2:
            calls.append({"op": "batch", "cs": [(i + k) % 8 for k in range(3)], "ns": [1, 2, 1]})
        if i % 6 == 5:
            calls.append({"op": "dist", "c": (i + 3) % 8, "n": 2})
    h = _hist({"kind": "tracker", "bits": False, "inner": {"kind": "sim", "all_native": True, "seed": 3}}, pool, calls)
    h["ephemeral"] = True
    return h


def corpus():
    sym = {"kind": "sim", "all_native": True, "seed": 7}
    dflt = {"kind": "sim", "all_native": False, "seed": 3}
    base = {"kind": "base", "extras": [0, 2, 1], "seed": 5}
    bell = {"n": 3, "ops": [["H", 0], ["CNOT", 0, 1]]}
    mp = {"n": None, "ops": [["H", 0], ["MP"], ["X", 1], ["MP"], ["MP"]]}
    symb = {"n": None, "ops": [["RXS", 0], ["H", 1]]}
    return [
        # fixed 6292974 (F8): a zero-width circuit on a simulator must give tuples () (regression input)
        _hist(sym, [EMPTY], [{"op": "run", "c": 0, "n": 3}]),
        # fixed 8d91e2e: an empty batch with a non-positive scalar count must be rejected (regression input)
        _hist(base, [bell], [{"op": "batch", "cs": [], "n": 0}, {"op": "batch", "cs": [], "n": -2}]),
        # fixed 9fda0c7: a rejected batch on the tracker must not touch its counters
        _hist({"kind": "tracker", "bits": True, "inner": sym}, [bell],
              [{"op": "batch", "cs": [0], "ns": [0]}, {"op": "batch", "cs": [0, 0], "ns": [2, 3]},
               {"op": "batch", "cs": [0], "ns": [1, 1]}, {"op": "run", "c": 0, "n": 0}, {"op": "dist", "c": 0, "n": None}]),
        _hist(dflt, [mp, bell], [{"op": "run", "c": 0, "n": 4}, {"op": "dist", "c": 0, "n": None},
                                 {"op": "batch", "cs": [1, 0], "n": 2}, {"op": "dist", "c": 1, "n": -1}]),
        _hist(base, [bell, symb, EMPTY], [{"op": "batch", "cs": [0, 1, 0], "n": 2}, {"op": "dist", "c": 0, "n": None},
                                          {"op": "dist", "c": 2, "n": 3}, {"op": "run", "c": 2, "n": 1}]),
        _hist({"kind": "tracker", "bits": False, "inner": {"kind": "tracker", "bits": True, "inner": base}}, [bell, EMPTY],
              [{"op": "batch", "cs": [0, 1], "ns": [1, 2]}, {"op": "dist", "c": 0, "n": 2}, {"op": "run", "c": 1, "n": -1},
               {"op": "batch", "cs": [], "ns": []}]),
        _hist(sym, [symb], [{"op": "run", "c": 0, "n": 2}, {"op": "dist", "c": 0, "n": None}, {"op": "dist", "c": 0, "n": 2}]),
        # one tracker, many calls on circuits that are built, run and dropped (ids get reused): every record must
        # carry the serialised circuit of ITS call (seeded C14_r2m2: to_dict cached by id(circuit))
        _temporaries_history(),
        # a circuit object grown in place between two calls on the same tracker
        _hist({"kind": "tracker", "bits": False, "inner": base}, [bell],
              [{"op": "run", "c": 0, "n": 2}, {"op": "grow", "c": 0, "gate": ["X", 2]}, {"op": "run", "c": 0, "n": 2},
               {"op": "grow", "c": 0, "gate": ["CNOT", 2, 0]}, {"op": "batch", "cs": [0, 0], "n": 1},
               {"op": "dist", "c": 0, "n": 3}]),
        {"kind": "format", "i": 0, "n": 0},
        {"kind": "outcome", "n": 0},
        {"kind": "segments", "flags": [True, False, False, True]},
    ]


def _gen_circuit(rng, maxw, allow_mp, allow_sym):
    r = rng.random()
    if r < 0.10:
        return dict(EMPTY)                                   # zero-width, no operations
    if r < 0.18:
        return {"n": rng.randrange(1, maxw + 1), "ops": []}  # only idle qubits
    w = rng.randrange(1, maxw + 1)
    ops = []
    for _ in range(rng.randrange(1, 6)):
        k = rng.random()
        if allow_mp and k < 0.3:
            ops.append(["MP"])
        elif allow_sym and k < 0.36:
            ops.append(["RXS", rng.randrange(w)])
        elif k < 0.55 and w >= 2:
            a, b = rng.sample(range(w), 2)
            ops.append(["CNOT", a, b])
        elif k < 0.7:
            ops.append(["RX", rng.randrange(w), rng.choice(["1/2", "3/4", "-5/4", "2"])])
        else:
            ops.append([rng.choice(["H", "X"]), rng.randrange(w)])
    if all(op[0] == "MP" for op in ops):
        ops.append(["X", rng.randrange(w)])
    n = w + rng.randrange(0, 2) if rng.random() < 0.5 else None     # declared width, possibly with idle qubits
    if n is None and any(op[0] == "MP" for op in ops):
        n = w                                                      # MultiPhaseOperation needs the full register
    spec = {"n": n, "ops": ops}
    if any(op[0] == "MP" for op in ops):
        spec["n"] = _width(spec)
    return spec


def _gen_n(rng, maxn, bad):
    if rng.random() < bad:
        return rng.choice([0, 0, -1, -3])
    return rng.choice([1, 1, 2, 3, rng.randrange(1, maxn + 1), maxn])


def _gen_call(rng, npool, maxn, maxbatch):
    k = rng.random()
    if k < 0.35:
        return {"op": "run", "c": rng.randrange(npool), "n": _gen_n(rng, maxn, 0.2)}
    if k < 0.75:
        m = rng.choice([0, 1, 1, 2, 2, 3, rng.randrange(0, maxbatch + 1)])
        cs = [rng.randrange(npool) for _ in range(m)]
        if rng.random() < 0.4:
            return {"op": "batch", "cs": cs, "n": _gen_n(rng, maxn, 0.2)}
        ns = [_gen_n(rng, maxn, 0.08) for _ in cs]
        r = rng.random()
        if r < 0.08:
            ns = ns + [_gen_n(rng, maxn, 0.0)]
        elif r < 0.16 and ns:
            ns = ns[:-1]
        elif r < 0.19:
            ns = []
        return {"op": "batch", "cs": cs, "ns": ns}
    n = None if rng.random() < 0.3 else _gen_n(rng, maxn, 0.2)
    return {"op": "dist", "c": rng.randrange(npool), "n": n}


def _gen_runner(rng):
    k = rng.random()
    if k < 0.3:
        leaf = {"kind": "base", "extras": [rng.randrange(0, 3) for _ in range(rng.randrange(1, 4))],
                "seed": rng.randrange(1, 2 ** 20)}
    elif k < 0.65:
        leaf = {"kind": "sim", "all_native": True, "seed": rng.randrange(2 ** 20)}
    else:
        leaf = {"kind": "sim", "all_native": False, "seed": rng.randrange(2 ** 20)}
    r = rng.random()
    if r < 0.45:
        return leaf
    t = {"kind": "tracker", "bits": rng.random() < 0.5, "inner": leaf}
    if r < 0.9:
        return t
    return {"kind": "tracker", "bits": rng.random() < 0.5, "inner": t}


def _gen_grow(rng, pool):
    """append a gate in place to a pool circuit that has at least one qubit (the register width does not change)"""
    cands = [i for i, sp in enumerate(pool) if _width(sp) >= 1]
    if not cands:
        return None
    i = rng.choice(cands)
    w = _width(pool[i])
    if w >= 2 and rng.random() < 0.3:
        a, b = rng.sample(range(w), 2)
        gate = ["CNOT", a, b]
    elif rng.random() < 0.3:
        gate = ["RX", rng.randrange(w), rng.choice(["1/2", "3/4", "-5/4", "2"])]
    else:
        gate = [rng.choice(["H", "X"]), rng.randrange(w)]
    return {"op": "grow", "c": i, "gate": gate}


def _gen_history(rng, maxw, maxn, maxbatch, maxlen):
    """one long-lived runner chain, a history of calls.  Two ways of handing circuits over:
    persistent – one object per pool entry reused by every call (repeats inside a batch and across calls, sometimes
    grown in place between calls); ephemeral – every call on freshly built temporaries that are dropped afterwards."""
    runner = _gen_runner(rng)
    tracked = runner["kind"] == "tracker"
    ephemeral = rng.random() < (0.5 if tracked else 0.25)
    pool = []
    for _ in range(rng.randrange(3, 7) if ephemeral else rng.randrange(1, 5)):
        for _try in range(5):
            sp = _gen_circuit(rng, maxw, allow_mp=not tracked, allow_sym=rng.random() < 0.3)
            if sp not in pool:
                break
        pool.append(sp)
    n_calls = rng.randrange(6, 2 * maxlen + 1) if ephemeral else rng.randrange(1, maxlen)
    calls = []
    view = [dict(sp) for sp in pool]          # current content of every pool entry
    for _ in range(n_calls):
        if not ephemeral and rng.random() < 0.12:
            g = _gen_grow(rng, view)
            if g is not None:
                view[g["c"]] = {"n": view[g["c"]].get("n"), "ops": view[g["c"]]["ops"] + [g["gate"]]}
                calls.append(g)
                continue
        calls.append(_gen_call(rng, len(pool), min(maxn, 6) if ephemeral else maxn, maxbatch))
    h = _hist(runner, pool, calls)
    if ephemeral:
        h["ephemeral"] = True
        h["gc"] = rng.random() < 0.3
    return h


def generate(rng, tier):
    big = tier == "thorough"
    cases = []
    for i in range(0, 40 if big else 12):           # format(i, "0nb") grid incl. the zero-width corner
        for n in range(0, 8 if big else 5):
            cases.append({"kind": "format", "i": i, "n": n})
    for n in range(0, 7 if big else 5):
        cases.append({"kind": "outcome", "n": n})
    for _ in range(200 if big else 40):
        cases.append({"kind": "segments", "flags": [rng.random() < 0.5 for _ in range(rng.randrange(0, 9))]})
    maxw, maxn, maxbatch = (5, 40, 6) if big else (3, 10, 4)
    for _ in range(2600 if big else 500):
        cases.append(_gen_history(rng, maxw, maxn, maxbatch, 12 if big else 8))
    # the malformed stream: histories made of invalid requests only (nothing may ever change)
    for _ in range(300 if big else 80):
        runner = _gen_runner(rng)
        pool = [_gen_circuit(rng, maxw, allow_mp=False, allow_sym=False) for _ in range(rng.randrange(1, 3))]
        calls = []
        for _ in range(rng.randrange(1, 6)):
            k = rng.randrange(5)
            cs = [rng.randrange(len(pool)) for _ in range(rng.randrange(1, 4))]
            if k == 0:
                calls.append({"op": "run", "c": cs[0], "n": rng.choice([0, -1, -7])})
            elif k == 1:
                calls.append({"op": "batch", "cs": cs, "n": rng.choice([0, -1])})
            elif k == 2:
                calls.append({"op": "batch", "cs": cs, "ns": [1] * (len(cs) + rng.choice([-1, 1, 2]))})
            elif k == 3:
                ns = [rng.randrange(1, 4) for _ in cs]
                ns[rng.randrange(len(ns))] = rng.choice([0, -2])
                calls.append({"op": "batch", "cs": cs, "ns": ns})
            else:
                calls.append({"op": "dist", "c": cs[0], "n": rng.choice([0, -1])})
        cases.append(_hist(runner, pool, calls))
    return cases


def nontrivial(c):
    if c["kind"] != "history":
        return False
    calls = _real_calls(c)
    if len({call["op"] for call in calls}) < 2:
        return False
    rejected = sum(1 for call in calls if _invalid(call))
    return rejected >= 1 and rejected < len(calls)


def distribution(cases, outs):
    hs = [(c, o) for c, o in zip(cases, outs) if c["kind"] == "history" and isinstance(o, dict) and "steps" in o]
    calls = Counter()
    results = Counter()
    runners = Counter()
    zero_width = idle = non_gate = symbolic = 0
    for c, o in hs:
        names = []
        s = c["runner"]
        while s["kind"] == "tracker":
            names.append("tracker")
            s = s["inner"]
        names.append("base" if s["kind"] == "base" else ("symbolic-sim" if s["all_native"] else "default-native-sim"))
        runners[">".join(names)] += 1
        for sp in _resolve(c)[0]:
            w = _width(sp)
            used = {q for op in sp["ops"] if op[0] != "MP" for q in op[1:3] if isinstance(q, int)}
            zero_width += w == 0
            idle += w > len(used) and not any(op[0] == "MP" for op in sp["ops"])
            non_gate += any(op[0] == "MP" for op in sp["ops"])
            symbolic += any(op[0] == "RXS" for op in sp["ops"])
        for call, st in zip(_real_calls(c), o["steps"]):
            calls[call["op"] + (":invalid" if _invalid(call) else ":valid")] += 1
            results[st["res"] if isinstance(st["res"], str) else "ok"] += 1
    return {"histories": len(hs), "calls_by_kind": dict(calls), "results": dict(results), "runner_chains": dict(runners),
            "circuits_zero_width": zero_width, "circuits_with_idle_qubits": idle, "circuits_with_non_gate_ops": non_gate,
            "circuits_with_free_symbols": symbolic,
            "ephemeral_histories": sum(1 for c, _ in hs if c.get("ephemeral")),
            "grow_steps": sum(1 for c, _ in hs for call in c["calls"] if call["op"] == "grow"),
            "max_history_length": max((len(c["calls"]) for c, _ in hs), default=0)}
