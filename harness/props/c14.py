"""C14 — runners validate requests, deliver enough shots and count their work correctly."""
import collections.abc
import gc
import itertools
import pathlib
import json
import os
import tempfile
import warnings
from collections import Counter
from fractions import Fraction

from .. import common
from ..common import unrat

PROP = "C14"
RULE = ("seeded random call histories (single / batch / distribution calls, valid and invalid arguments) on every "
        "runner kind built on the base classes: a harness BaseCircuitRunner subclass (returns n+extra shots), the real "
        "SymbolicSimulator, a BaseWavefunctionSimulator subclass with the default is_natively_supported, each bare or "
        "under one or two MeasurementTrackingBackend wrappers; circuits include empty zero-width ones, idle qubits, "
        "non-gate operations and free symbols; counters, results and every tracker's JSON file are compared with the "
        "model after every call.  Circuits reach the ONE long-lived runner chain of a history in two ways: persistent "
        "(one object per pool entry reused by every call, repeated inside batches, sometimes grown IN PLACE between "
        "calls) or ephemeral (every call on freshly built objects that are dropped afterwards, so object ids are "
        "reused by later circuits); every record is checked against the serialisation of the circuit of ITS call, "
        "taken at call time.  Calls are often SIBLINGS of the previous call (one component changed, or the same request "
        "again; lists or tuples); pools contain circuits differing in one operation (also float angle vs bound symbol); "
        "in `poison` histories the caller edits, in place, every object it got back and every list it passed, after "
        "every call.  kind `pair`: two or three chains alive at once, calls interleaved, each compared with the model "
        "of a runner that is alone.  SCALE stream (every run): batches of 60..1100 circuits (thorough ..4200) at and "
        "around round numbers on every chain kind, a long count list wrong in ONE place, sample counts up to 65537 "
        "(thorough 131073), histories of ~300 (thorough ~1050) mixed calls and of ~300 (thorough ~1100) equal-kind calls in a row, registers of 9..12 qubits on simulators and up "
        "to 69 on a base runner, circuits of up to 260 (thorough 520) operations / segments, 3 and 4 nested trackers.  "
        "Round 4: two more runner kinds – a BaseCircuitRunner subclass with a dedicated _run_batch_and_measure that "
        "keeps the counters itself (oracle only: the Lean model has the default batch route) and a simulator whose "
        "native set is a set of gate names (model-compared: the per-operation native flags are sent with the circuit); "
        "gates Z, controlled X/Z/H (all named 'Control'), dagger and power gates; `edit` steps (one operation replaced "
        "in place: same object, same length); `reuse_args` histories (the caller keeps ONE circuits list and ONE counts "
        "list and rewrites them between calls); batches as user-defined Sequence objects; keyword-argument and "
        "omitted-default forms of the calls; tracker file name as pathlib.Path, record_bitstrings True/False/None/"
        "omitted; get_wavefunction / get_exact_expectation_values steps on bare simulators (counters answered by the "
        "model as an exact-distribution request).  "
        "non-trivial: a history with >=1 rejected and >=1 accepted call and >=2 call kinds; "
        "distinct = distinct canonical JSON of the case")
TRUSTED = [
    "abstract _run_and_measure of a BaseCircuitRunner subclass: for n>0 returns >= n shots, each a tuple as long as "
    "the circuit's register (ExecLaw; the replayed log of every run is checked against it: law_ok)",
    "rng.choice(a, size=n, p) in sample_from_wavefunction returns exactly n items of a (DrawLaw; checked on the log)",
    "to_dict(circuit) is a total, deterministic function of circuits made of gate operations (the tracker's "
    "'serialised circuit'; a circuit is represented in the model by its label)",
    "json.dumps / open('w+') write exactly self.raw_data; Measurements.get_counts / get_distribution are the "
    "histogram / relative frequencies of the returned bitstrings (modelled as countsOf / empirical, compared exactly)",
    "format(i, '0{n}b'), Wavefunction.get_outcome_probs keys + bitstring_to_tuple, itertools.groupby: modelled by "
    "formatBin / outcomeTuple / segKeys, compared directly on grids",
]
ASSUMPTIONS = [
    "circuits given to a tracker consist of gate operations only (to_dict raises AttributeError on "
    "MultiPhaseOperation/ResetOperation – serialisation of wavefunction operations is not implemented)",
    "a `grow` step appends a gate on an existing qubit to circuit.operations in place (the register width, fixed at "
    "construction, does not change); the model sees every content version of a circuit as its own label",
    "sample counts are Python ints (numpy integers make run_batch_and_measure raise TypeError on len())",
    "the harness BaseCircuitRunner subclass refuses circuits with free symbols with ValueError, like the simulators",
    "batches and per-circuit counts are passed as lists, tuples or a collections.abc.Sequence subclass (the API says "
    "Sequence); an `edit` step replaces one element of circuit.operations in place by a gate on the same qubits; the "
    "dedicated-batch harness runner counts a completed non-empty batch as len(batch) circuits and ONE job and an empty "
    "or failed batch as nothing – the base class is expected to add nothing on that route; in `poison` histories the "
    "caller edits the objects it got back and the lists it passed only AFTER the call returned and after everything "
    "was observed (a correct runner cannot notice)",
    "sizes explored per run are bounded by the SCALE stream of RULE (e.g. batches <= 1100 circuits quick / 4200 "
    "thorough, counts <= 65537 / 131073, 12 simulated qubits): behaviour that changes only beyond them is not seen",
    "a distribution request with a sample count on a BaseCircuitRunner subclass must rest on at least that many shots "
    "obtained from the abstract _run_and_measure during the call (it has no other source of shots)",
    "the tracker's own counters are specified by the property only as: never decrease, unchanged by a rejected call; "
    "their exact increments (+1/+1 single, +len/+1 batch, +0/+0 distribution) are compared with the model only",
]

KNOWN_SIGS = ()   # no known findings left; both former ones are fixed in /repo and kept as regression inputs


# --------------------------------------------------------------------------- real objects
def _mods():
    common.use_repo()
    import sympy
    from orquestra.quantum import circuits as C
    from orquestra.quantum.api.circuit_runner import BaseCircuitRunner
    from orquestra.quantum.api.wavefunction_simulator import BaseWavefunctionSimulator
    from orquestra.quantum.measurements import Measurements
    from orquestra.quantum.runners.symbolic_simulator import SymbolicSimulator
    from orquestra.quantum.runners.trackers import MeasurementTrackingBackend
    return dict(sympy=sympy, C=C, BaseCircuitRunner=BaseCircuitRunner, BaseWavefunctionSimulator=BaseWavefunctionSimulator,
                Measurements=Measurements, SymbolicSimulator=SymbolicSimulator, Tracker=MeasurementTrackingBackend)


_CLASSES = {}


def _classes():
    """harness subclasses of the two ABCs (created once per process)"""
    if _CLASSES:
        return _CLASSES
    m = _mods()

    class HarnessRunner(m["BaseCircuitRunner"]):
        """a plain BaseCircuitRunner: deterministic shots, n + extra of them, register-wide tuples"""

        def __init__(self, extras, seed, log, labels):
            super().__init__()
            self._extras, self._state, self._log, self._labels, self._k = list(extras) or [0], seed, log, labels, 0

        def _run_and_measure(self, circuit, n_samples):
            lbl = self._labels.get(id(circuit), -1)
            if circuit.free_symbols:
                self._log.append({"c": lbl, "n": n_samples, "err": "value"})
                raise ValueError("cannot run a circuit with unbound symbols")
            extra = self._extras[self._k % len(self._extras)]
            self._k += 1
            w = circuit.n_qubits
            shots = []
            for _ in range(n_samples + extra):
                self._state = (self._state * 1103515245 + 12345) % (2 ** 31)
                v = (self._state >> 8) % (2 ** w) if w else 0
                shots.append(tuple((v >> (w - 1 - q)) & 1 for q in range(w)))
            self._log.append({"c": lbl, "n": n_samples, "shots": [list(s) for s in shots]})
            return m["Measurements"](shots)

    class DefaultNativeSimulator(m["BaseWavefunctionSimulator"]):
        """a BaseWavefunctionSimulator keeping the default is_natively_supported (GateOperation only)"""

        def _get_wavefunction_from_native_circuit(self, circuit, initial_state):
            state = initial_state
            for op in circuit.operations:
                state = op.apply(state)
            return state

    class DedicatedBatchRunner(HarnessRunner):
        """a BaseCircuitRunner subclass with a dedicated way of running a batch (the documented extension point
        `_run_batch_and_measure`): the whole non-empty batch is ONE job; it keeps the counters itself, as the base class
        leaves them alone on this route"""

        def _run_batch_and_measure(self, batch, samples_per_circuit):
            results = [self._run_and_measure(circuit, n) for circuit, n in zip(batch, samples_per_circuit)]
            if results:
                self._n_circuits_executed += len(results)
                self._n_jobs_executed += 1
            return results

    class NameNativeSimulator(DefaultNativeSimulator):
        """a BaseWavefunctionSimulator whose native gate set is a set of gate names (everything else, gates included,
        is applied operation by operation)"""

        def __init__(self, native, seed=None):
            super().__init__(seed=seed)
            self._native = frozenset(native)

        def is_natively_supported(self, operation):
            return isinstance(operation, m["C"].GateOperation) and operation.gate.name in self._native

    class UserSeq(collections.abc.Sequence):
        """a caller's own Sequence type (the API promises Sequence, not list)"""

        def __init__(self, items):
            self._items = list(items)

        def __getitem__(self, i):
            if isinstance(i, slice):
                return UserSeq(self._items[i])
            return self._items[i]

        def __len__(self):
            return len(self._items)

    _CLASSES.update(HarnessRunner=HarnessRunner, DefaultNativeSimulator=DefaultNativeSimulator,
                    DedicatedBatchRunner=DedicatedBatchRunner, NameNativeSimulator=NameNativeSimulator, UserSeq=UserSeq)
    return _CLASSES


# the library's gate.name of every spec operation (used by the name-native simulator kind; checked on the clean tree by
# the counters of every run)
_GATE_NAME = {"H": "H", "X": "X", "Z": "Z", "CNOT": "CNOT", "RX": "RX", "RXS": "RX", "RXB": "RX", "CTL": "Control",
              "DAG": "RX_Dagger", "POW": "RX^2"}


def _native_flags(leaf_spec, circ_spec):
    """is_natively_supported of the leaf simulator on every operation of the circuit, from the specs"""
    if leaf_spec.get("all_native"):
        return [True for _ in circ_spec["ops"]]
    if "native" in leaf_spec:
        return [op[0] != "MP" and _GATE_NAME[op[0]] in leaf_spec["native"] for op in circ_spec["ops"]]
    return [op[0] != "MP" for op in circ_spec["ops"]]


def _width(spec):
    used = [q + 1 for op in spec["ops"] if op[0] != "MP" for q in op[1:3] if isinstance(q, int)]
    return max([spec.get("n") or 0] + used)


def _abstract(spec, leaf=None):
    """what the model sees of a circuit – computed from the spec, not from the Circuit object.  `ops` is the model's
    "natively supported unless the simulator says everything is" flag of every operation: GateOperation-ness for the
    default simulator, the name test for a name-native simulator (sent to the model as a not-all-native simulator)"""
    flags = _native_flags(leaf, spec) if leaf is not None and "native" in leaf else [op[0] != "MP" for op in spec["ops"]]
    return {"width": _width(spec), "ops": flags, "symbolic": any(op[0] == "RXS" for op in spec["ops"])}


def _build_circuit(spec):
    m = _mods()
    C = m["C"]
    w = _width(spec)
    ops = []
    for op in spec["ops"]:
        if op[0] == "MP":
            ops.append(C.MultiPhaseOperation(tuple(0.25 * (i % 5) for i in range(2 ** w))))
        else:
            ops.append(_gate(op))
    return C.Circuit(ops, n_qubits=spec.get("n") or None) if (spec.get("n") or ops) else C.Circuit()


def _bits(t):
    return [int(b) for b in t]


def _canon_meas(meas):
    return [_bits(t) for t in meas.bitstrings]


def _canon_dist(d):
    return {"items": sorted([_bits(k), float(v)] for k, v in d.distribution_dict.items()), "repr": repr(d)}


def _spy(obj, name, kind, sink, canon, depth):
    """record what the public method returned to ITS CALLER (the wrapping tracker); calls the wrapped runner makes on
    itself meanwhile (a batch running its circuits one by one, a distribution request sampling) are not the tracker's"""
    orig = getattr(obj, name)

    def wrapper(*a, **kw):
        depth[0] += 1
        try:
            r = orig(*a, **kw)
        finally:
            depth[0] -= 1
        if depth[0] == 0:
            sink.append([kind, canon(r)])
        return r

    setattr(obj, name, wrapper)


def _build_runner(spec, td, log, labels, chain, spies):
    """returns the runner; chain = [outermost, …, leaf]; spies[i] = what chain[i+1]'s public methods returned"""
    m, cls = _mods(), _classes()
    k = spec["kind"]
    if k == "base":
        r = cls["DedicatedBatchRunner" if spec.get("dedicated") else "HarnessRunner"](
            spec.get("extras", [0]), spec.get("seed", 1), log, labels)
    elif k == "sim":
        if "native" in spec:
            r = cls["NameNativeSimulator"](spec["native"], seed=spec.get("seed", 1))
        else:
            r = (m["SymbolicSimulator"] if spec["all_native"] else cls["DefaultNativeSimulator"])(seed=spec.get("seed", 1))
        orig = r._run_and_measure

        def logged(circuit, n_samples):
            res = orig(circuit, n_samples)
            idx = [int("".join(str(int(b)) for b in t) or "0", 2) for t in res.bitstrings]
            log.append({"c": labels.get(id(circuit), -1), "n": n_samples, "draws": idx})
            return res

        r._run_and_measure = logged
    elif k == "tracker":
        sub_chain = []
        inner = _build_runner(spec["inner"], td, log, labels, sub_chain, spies)
        sink = []
        depth = [0]
        _spy(inner, "run_and_measure", "run", sink, _canon_meas, depth)
        _spy(inner, "run_batch_and_measure", "batch", sink, lambda ms: [_canon_meas(x) for x in ms], depth)
        _spy(inner, "get_measurement_outcome_distribution", "dist", sink, _canon_dist, depth)
        fn = os.path.join(td, f"tracker{len(sub_chain)}.json")
        if spec.get("path"):
            fn = pathlib.Path(fn)               # any path-like the built-in open() takes
        if spec["bits"] == "default":
            r = m["Tracker"](inner, fn)         # record_bitstrings left at its default (False)
        else:
            r = m["Tracker"](inner, fn, spec["bits"])      # True / False / None (Optional[bool])
        chain.append(r)
        chain.extend(sub_chain)
        spies.insert(0, sink)
        return r
    else:
        raise AssertionError(k)
    chain.append(r)
    return r


def _gate(op):
    m = _mods()
    C, sympy = m["C"], m["sympy"]
    k = op[0]
    if k == "H":
        return C.H(op[1])
    if k == "X":
        return C.X(op[1])
    if k == "CNOT":
        return C.CNOT(op[1], op[2])
    if k == "RX":
        return C.RX(float(unrat(op[2])))(op[1])
    if k == "RXS":
        return C.RX(sympy.Symbol("theta"))(op[1])
    if k == "Z":
        return C.Z(op[1])
    if k == "CTL":      # every controlled gate is called "Control"; what it controls is in wrapped_gate
        return getattr(C, op[3]).controlled(1)(op[1], op[2])
    if k == "DAG":
        return C.RX(float(unrat(op[2]))).dagger(op[1])
    if k == "POW":
        return C.RX(float(unrat(op[2]))).power(2)(op[1])
    if k == "RXB":      # a symbolic gate bound afterwards (`ansatz.bind(params)`): the parameter is a sympy number
        th = sympy.Symbol("theta")
        return C.RX(th)(op[1]).bind({th: float(unrat(op[2]))})
    raise AssertionError(k)


def _resolve(c):
    """A history may contain `grow` steps, which append a gate IN PLACE to a circuit object that earlier calls already
    used.  Every content version of a pool entry gets its own label (what the model and the oracle see):
    returns (specs by label, plan) with plan entries ("grow", pool index, gate, new label) / ("call", resolved call,
    pool indices)."""
    specs = [dict(sp) for sp in c["pool"]]
    cur = list(range(len(specs)))
    plan = []
    for call in c["calls"]:
        if call["op"] == "grow":
            i = call["c"]
            old = specs[cur[i]]
            specs.append({"n": old.get("n"), "ops": list(old["ops"]) + [list(call["gate"])]})
            cur[i] = len(specs) - 1
            plan.append(("grow", i, call["gate"], cur[i]))
        elif call["op"] == "edit":       # one operation REPLACED in place: same object, same length, other content
            i = call["c"]
            old = specs[cur[i]]
            ops = [list(o) for o in old["ops"]]
            ops[call["k"]] = list(call["gate"])
            specs.append({"n": old.get("n"), "ops": ops})
            cur[i] = len(specs) - 1
            plan.append(("edit", i, call["k"], call["gate"], cur[i]))
        elif call["op"] == "batch":
            rc = dict(call)
            rc["cs"] = [cur[i] for i in call["cs"]]
            plan.append(("call", rc, list(call["cs"])))
        else:
            rc = dict(call)
            rc["c"] = cur[call["c"]]
            plan.append(("call", rc, [call["c"]]))
    return specs, plan


def _real_calls(c):
    return [p[1] for p in _resolve(c)[1] if p[0] == "call"]


def _poison_meas(meas):
    """what a caller may do with a result it owns: edit it in place"""
    meas.bitstrings.clear()
    meas.bitstrings.append((1,) * 13)


def _apply(runner, call, circuits, poison=False, held=None):
    """one public call.  With `poison` the caller afterwards edits IN PLACE everything it owns: the returned
    Measurements / list / distribution and the lists it passed (a runner that keeps or hands out shared mutable objects
    is then observed on the later calls of the history)."""
    try:
        kw = bool(call.get("kw"))       # the same request written with keyword arguments
        if call["op"] == "wf":          # other public entry points of a simulator that run a circuit
            return {"wf": len(runner.get_wavefunction(circuits[0]))}
        if call["op"] == "ev":
            ops_mod = __import__("orquestra.quantum.operators", fromlist=["PauliTerm"])
            operator = ops_mod.PauliTerm("Z0") if circuits[0].n_qubits else ops_mod.PauliSum()
            return {"ev": float(runner.get_exact_expectation_values(circuits[0], operator))}
        if call["op"] == "run":
            r = (runner.run_and_measure(circuit=circuits[0], n_samples=call["n"]) if kw
                 else runner.run_and_measure(circuits[0], call["n"]))
            out = {"meas": _canon_meas(r)}
            if poison:
                _poison_meas(r)
            return out
        if call["op"] == "batch":
            seq = call.get("seq", "list")
            if seq == "list" and held is not None:
                # the caller keeps ONE list of circuits and ONE list of counts for all its batch calls and rewrites
                # their contents between calls (same objects, same id(), other – possibly now invalid – contents)
                held["cs"][:] = circuits
                cs = held["cs"]
                if "ns" in call:
                    held["ns"][:] = call["ns"]
                    ns = held["ns"]
                else:
                    ns = call["n"]
            else:
                mk = {"list": list, "tuple": tuple, "userseq": _classes()["UserSeq"]}[seq]
                ns = mk(call["ns"]) if "ns" in call else call["n"]
                cs = mk(circuits)
            r = runner.run_batch_and_measure(cs, n_samples=ns) if kw else runner.run_batch_and_measure(cs, ns)
            out = {"batch": [_canon_meas(x) for x in r]}
            if poison:
                for x in r:
                    _poison_meas(x)
                if isinstance(r, list):
                    r.clear()
                if isinstance(cs, list):
                    cs.clear()
                if isinstance(ns, list):
                    ns[:] = [0] * len(ns)
                    ns.clear()
            return out
        if call["op"] == "dist":
            if call.get("omit") and call.get("n") is None and isinstance(runner, _mods()["BaseWavefunctionSimulator"]):
                r = runner.get_measurement_outcome_distribution(circuits[0])     # n_samples left at its default (None)
            elif kw:
                r = runner.get_measurement_outcome_distribution(circuit=circuits[0], n_samples=call.get("n"))
            else:
                r = runner.get_measurement_outcome_distribution(circuits[0], call.get("n"))
            out = {"dist": _canon_dist(r)}
            if poison:
                r.distribution_dict.clear()
            return out
    except ValueError:
        return "err:value"
    except TypeError:
        return "err:type"
    except Exception as e:  # not an exception the runner API documents: the oracle fails the case at this call
        return f"exc:{type(e).__name__}"
    raise AssertionError(call)


def _serialise(circ):
    m = _mods()
    try:
        return json.loads(json.dumps(m["C"].to_dict(circ)))
    except AttributeError:      # wavefunction operations cannot be serialised (never given to a tracker)
        return None


class _Session:
    """ONE long-lived runner chain and the history of calls made on it, advanced one plan item at a time (so that
    several sessions can be interleaved in one process: kind "pair").
    persistent mode: one Circuit object per pool entry, reused by every call (the same object may occur several times
      in a batch and across calls; `grow` steps mutate it in place between calls);
    ephemeral mode: every call gets freshly built Circuit objects that are dropped right after the call, so CPython
      hands their addresses to the circuits of later calls (`runner.run_and_measure(ansatz.bind(p), n)` in a loop)."""

    def __init__(self, c, td):
        self.m = _mods()
        self.c = c
        self.specs, self.plan = _resolve(c)
        self.ephemeral = bool(c.get("ephemeral"))
        self.pool = None if self.ephemeral else [_build_circuit(sp) for sp in c["pool"]]
        self.labels = {}
        self.ser = [None] * len(self.specs)
        self.log, self.chain, self.spies = [], [], []
        self.runner = _build_runner(c["runner"], td, self.log, self.labels, self.chain, self.spies)
        self.trackers = [r for r in self.chain if isinstance(r, self.m["Tracker"])]
        self.steps = []
        self.circuits = []
        self.pos = 0
        self.held = {"cs": [], "ns": []} if c.get("reuse_args") else None

    def done(self):
        return self.pos >= len(self.plan)

    def advance(self):
        item = self.plan[self.pos]
        self.pos += 1
        c, specs, labels = self.c, self.specs, self.labels
        if item[0] == "grow":
            self.pool[item[1]].operations.append(_gate(item[2]))      # in place, on the object already submitted
            return
        if item[0] == "edit":
            self.pool[item[1]].operations[item[2]] = _gate(item[3])   # in place: len(circuit.operations) unchanged
            return
        call, pool_idx = item[1], item[2]
        lbls = call["cs"] if call["op"] == "batch" else [call["c"]]
        if self.ephemeral:
            self.circuits = None                                     # the previous call's temporaries die here …
            labels.clear()
            if c.get("gc"):
                gc.collect(0)   # young generation only: a full collection costs ~30 ms with sympy loaded
            self.circuits = [_build_circuit(specs[lb]) for lb in lbls]   # … and these take their place
        else:
            labels.clear()
            self.circuits = [self.pool[i] for i in pool_idx]
        circuits = self.circuits
        for obj, lb in zip(circuits, lbls):
            labels[id(obj)] = lb
        memo = {}
        call_ser = []                                                # the serialised circuits of THIS call
        for obj in circuits:
            if id(obj) not in memo:
                memo[id(obj)] = _serialise(obj)
            call_ser.append(memo[id(obj)])
        for lb, sr in zip(lbls, call_ser):
            self.ser[lb] = sr
        for sp in self.spies:
            del sp[:]
        res = _apply(self.runner, call, circuits, poison=bool(c.get("poison")), held=self.held)
        files = []
        for t in self.trackers:
            if os.path.exists(t.raw_data_file_name):
                with open(t.raw_data_file_name) as fh:
                    files.append(json.load(fh))
            else:
                files.append(None)
        self.steps.append({"res": res,
                           "counters": [[r.n_circuits_executed, r.n_jobs_executed] for r in self.chain],
                           "files": files, "tape_len": len(self.log), "call_ser": call_ser,
                           "inner_returns": [list(sp) for sp in self.spies],
                           "pending": [len(t.raw_data) for t in self.trackers]})

    def finish(self):
        self.circuits = None
        return {"steps": self.steps, "tape": self.log, "ser": self.ser, "devices": [t.type for t in self.trackers],
                "classes": [type(r).__name__ for r in self.chain]}


def _history(c):
    """run the history on one long-lived runner chain"""
    with tempfile.TemporaryDirectory(prefix="oq_c14_") as td:
        s = _Session(c, td)
        while not s.done():
            s.advance()
        return s.finish()


def _pair(c):
    """several runner chains alive at the same time, their histories interleaved call by call as `order` says: every
    chain must behave exactly as if it were alone (nothing may be shared through class or module level state)"""
    with tempfile.TemporaryDirectory(prefix="oq_c14_") as td:
        sessions = []
        for i, h in enumerate(c["hists"]):
            sub = os.path.join(td, f"chain{i}")
            os.mkdir(sub)
            sessions.append(_Session(h, sub))
        for i in c["order"]:
            if not sessions[i].done():
                sessions[i].advance()
        for s in sessions:
            while not s.done():
                s.advance()
        return {"parts": [s.finish() for s in sessions]}


def run_impl(c):
    with warnings.catch_warnings():
        warnings.simplefilter("ignore")
        k = c["kind"]
        if k == "history":
            return _history(c)
        if k == "pair":
            return _pair(c)
        if k == "format":
            return {"res": [int(ch) for ch in format(c["i"], "0" + str(c["n"]) + "b")]}
        if k == "outcome":
            import numpy as np
            from orquestra.quantum.utils import bitstring_to_tuple
            from orquestra.quantum.wavefunction import Wavefunction
            wf = Wavefunction(np.array([1.0] + [0.0] * (2 ** c["n"] - 1)))
            return {"res": [[int(b) for b in bitstring_to_tuple(key)] for key in wf.get_outcome_probs()]}
        if k == "segments":
            m, cls = _mods(), _classes()
            C = m["C"]
            ops = [C.X(0) if f else C.MultiPhaseOperation((0.0, 0.5)) for f in c["flags"]]
            circ = C.Circuit(ops, n_qubits=1)
            sim = cls["DefaultNativeSimulator"]()
            segs = list(C.split_circuit(circ, sim.is_natively_supported))
            return {"keys": [bool(kk) for kk, _ in segs], "sizes": [len(s.operations) for _, s in segs],
                    "widths": [s.n_qubits for _, s in segs]}
    raise AssertionError("unknown kind")


# --------------------------------------------------------------------------- model side
def _wants_bits(tracker_spec):
    """record_bitstrings as given: True, or one of the falsy forms False / None / argument omitted"""
    return tracker_spec["bits"] is True


def _model_runner(spec):
    if spec["kind"] == "base":
        return {"kind": "base"}
    if spec["kind"] == "sim":
        # a name-native simulator is, for the model, a simulator that does not declare everything native; which
        # operations it supports is in the per-operation flags of the circuits (_abstract)
        return {"kind": "sim", "all_native": bool(spec["all_native"]) and "native" not in spec}
    return {"kind": "tracker", "bits": _wants_bits(spec), "inner": _model_runner(spec["inner"])}


def _oracle_only(c):
    """the Lean model has BaseCircuitRunner with the DEFAULT _run_batch_and_measure only; a subclass with a dedicated
    batch implementation is checked by the oracle alone"""
    return bool(_leaf_spec(c["runner"]).get("dedicated"))


def _history_request(c, out):
    calls = []
    for call in _real_calls(c):
        cc = dict(call)
        for k in ("seq", "kw", "omit"):
            cc.pop(k, None)
        if cc["op"] in ("wf", "ev"):
            # get_wavefunction / get_exact_expectation_values do to the counters what an exact distribution request
            # does (one get_wavefunction, nothing sampled); the model answers the counters, the value is not compared
            cc = {"op": "dist", "c": cc["c"]}
        if cc["op"] == "dist" and cc.get("n") is None:
            cc.pop("n", None)
        calls.append(cc)
    leaf = _leaf_spec(c["runner"])
    return ("history", {"runner": _model_runner(c["runner"]), "pool": [_abstract(s, leaf) for s in _resolve(c)[0]],
                        "calls": calls, "tape": out["tape"]})


def requests(c, out):
    k = c["kind"]
    if k == "history":
        if "steps" not in out or _oracle_only(c):
            return []
        return [_history_request(c, out)]
    if k == "pair":
        # every chain of the pair is answered by the model of a runner that is ALONE
        if "parts" not in out or any(_oracle_only(h) for h in c["hists"]):
            return []
        return [_history_request(h, o) for h, o in zip(c["hists"], out["parts"])]
    if k == "format":
        return [("format", {"i": c["i"], "n": c["n"]})]
    if k == "outcome":
        return [("outcome", {"i": i, "n": c["n"]}) for i in range(2 ** c["n"])]
    if k == "segments":
        return [("segments", {"flags": c["flags"]})]
    return []


def _canon_file(f, ser):
    """impl JSON file -> the model's record vocabulary"""
    if f is None:
        return []
    out = []
    for rec in f.get("raw-data", []):
        labels = [i for i, s in enumerate(ser) if s is not None and s == rec.get("circuit")]
        if rec.get("data_type") == "measurement":
            out.append({"type": "meas", "labels": labels,
                        "counts": [[[int(ch) for ch in key], v] for key, v in rec["counts"].items()],
                        "gates": rec["number_of_gates"], "shots": rec["number_of_shots"],
                        "bits": rec.get("bitstrings")})
        else:
            out.append({"type": "dist", "labels": labels, "repr": rec.get("distribution"),
                        "gates": rec["number_of_gates"], "shots": rec["number_of_shots"]})
    return out


def _dist_matches(model_dist, impl_dist, call):
    if "exact" in model_dist:
        return call.get("n") is None and model_dist["exact"] == call["c"]
    want = sorted([bits, float(unrat(p))] for bits, p in model_dist["empirical"])
    return want == impl_dist["items"]


def _res_matches(mr, ir, call):
    if isinstance(mr, str) or isinstance(ir, str):
        return mr == ir
    if "dist" in mr:
        return "dist" in ir and _dist_matches(mr["dist"], ir["dist"], call)
    return mr == ir


def compare(c, out, resp):
    if c["kind"] == "pair":
        for i, (h, o, r) in enumerate(zip(c["hists"], out["parts"], resp)):
            msg = compare(h, o, [r])
            if msg:
                return f"runner chain {i} of {len(c['hists'])} interleaved ones: {msg}"
        return None
    r = resp[0]
    if isinstance(r, dict) and "driver_error" in r:
        return "driver error: " + r["driver_error"]
    k = c["kind"]
    if k == "format":
        return None if out["res"] == r else f"format({c['i']}, '0{c['n']}b'): impl {out['res']} model {r}"
    if k == "outcome":
        return None if out["res"] == list(resp) else f"outcome tuples of a {c['n']}-qubit register: impl {out['res']} model {list(resp)}"
    if k == "segments":
        if out["keys"] != r:
            return f"split_circuit keys {out['keys']} model segKeys {r} for flags {c['flags']}"
        return None
    if not r.get("fresh"):
        return "model runner not fresh"
    if not r.get("law_ok"):
        return "the logged external executions violate the assumed law (>= n shots of register width / exactly n draws in range)"
    if len(r["steps"]) != len(out["steps"]):
        return "step count differs"
    for i, (ms, st, call) in enumerate(zip(r["steps"], out["steps"], _real_calls(c))):
        where = f"call #{i} {_show(call)}"
        if call["op"] not in ("wf", "ev") and not _res_matches(ms["res"], st["res"], call):
            return f"{where}: result differs: impl {str(st['res'])[:200]} model {str(ms['res'])[:200]}"
        if ms["counters"] != st["counters"]:
            return f"{where}: counters (outermost first) impl {st['counters']} model {ms['counters']}"
        if ms["ext_calls"] != st["tape_len"]:
            return f"{where}: external executions so far: impl {st['tape_len']} model {ms['ext_calls']}"
        if any(ms["pending"]) or any(st["pending"]):
            return f"{where}: raw_data not flushed: impl {st['pending']} model {ms['pending']}"
        for t, (mf, f) in enumerate(zip(ms["files"], st["files"])):
            cf = _canon_file(f, out["ser"])
            if len(cf) != len(mf):
                return f"{where}: tracker {t} file has {len(cf)} records, model {len(mf)}"
            for a, b in zip(mf, cf):
                if a["type"] != b["type"] or a["c"] not in b["labels"] or a["gates"] != b["gates"] or a["shots"] != b["shots"]:
                    return f"{where}: tracker {t} record differs: impl {str(b)[:200]} model {str(a)[:200]}"
                if a["type"] == "meas" and (a["counts"] != b["counts"] or a["bits"] != b["bits"]):
                    return f"{where}: tracker {t} record counts/bitstrings differ: impl {str(b)[:200]} model {str(a)[:200]}"
    return None


# --------------------------------------------------------------------------- oracle (implementation only)
def _show(call):
    """a call, printable: long index / count lists are abbreviated"""
    d = {}
    for k, v in call.items():
        if isinstance(v, list) and len(v) > 12:
            d[k] = f"<{len(v)} entries: {v[:5]}…{v[-3:]}>".replace("'", "")
        else:
            d[k] = v
    return str(d)


def _invalid(call):
    """the invalid requests named by the property"""
    if call["op"] in ("wf", "ev"):
        return False
    if call["op"] == "run":
        return call["n"] <= 0
    if call["op"] == "dist":
        return call.get("n") is not None and call["n"] <= 0
    if "ns" in call:
        return len(call["ns"]) != len(call["cs"]) or any(n <= 0 for n in call["ns"])
    return call["n"] <= 0


def _leaf_work(leaf_spec, circ_spec):
    """(circuits, jobs) one executed circuit adds on a base-class runner – recomputed with itertools.groupby"""
    if leaf_spec["kind"] == "base":
        return 1, 1
    flags = _native_flags(leaf_spec, circ_spec)
    keys = [k for k, _ in itertools.groupby(flags)]
    return sum(1 for k in keys if k), len(keys)


def _leaf_spec(spec):
    while spec["kind"] == "tracker":
        spec = spec["inner"]
    return spec


def _shots_of(e, w):
    """the bitstrings one logged execution returned (a simulator's log holds them as basis-state numbers)"""
    if "shots" in e:
        return e["shots"]
    return [[(i >> (w - 1 - q)) & 1 for q in range(w)] for i in e["draws"]]


def _shape_fail(shots, n, spec, what):
    w = _width(spec)
    if len(shots) < n:
        return ("too-few-shots", f"{what}: {len(shots)} shots returned, {n} requested")
    bad = [s for s in shots if len(s) != w]
    if bad:
        sig = "zero-width-circuit-tuples" if w == 0 else "bitstring-length"
        return (sig, f"{what}: bitstring {tuple(bad[0])} has length {len(bad[0])}, the register has {w} qubits")
    return None


def _record_fail(rec, circ_ser, shots, n_ops, bits, device, what):
    if rec.get("data_type") != "measurement":
        return f"{what}: record type {rec.get('data_type')!r}"
    if rec.get("circuit") != circ_ser:
        return (f"{what}: recorded circuit {str(rec.get('circuit'))[:160]} is not the serialised circuit of this call "
                f"{str(circ_ser)[:160]}")
    want = dict(Counter("".join(str(b) for b in s) for s in shots))
    if rec.get("counts") != want:
        return f"{what}: recorded counts {rec.get('counts')} but the returned measurements have {want}"
    if rec.get("number_of_shots") != len(shots):
        return f"{what}: recorded number_of_shots {rec.get('number_of_shots')}, returned {len(shots)}"
    if rec.get("number_of_gates") != n_ops:
        return f"{what}: recorded number_of_gates {rec.get('number_of_gates')}, circuit has {n_ops}"
    if bits and rec.get("bitstrings") != [list(s) for s in shots]:
        return f"{what}: recorded bitstrings differ from the returned ones"
    if not bits and "bitstrings" in rec:
        return f"{what}: bitstrings recorded although not requested"
    if rec.get("device") != device:
        return f"{what}: device {rec.get('device')!r} is not the wrapped runner's class {device!r}"
    return None


def _oracle_history(c, out):
    fails = []
    leaf = _leaf_spec(c["runner"])
    n_trackers = len(out["devices"])
    tracker_specs, s = [], c["runner"]
    while s["kind"] == "tracker":
        tracker_specs.append(s)
        s = s["inner"]
    prev_counters = [[0, 0] for _ in out["classes"]]
    prev_files = [None] * n_trackers
    prev_tape = 0
    all_specs = _resolve(c)[0]
    for i, (call, st) in enumerate(zip(_real_calls(c), out["steps"])):
        where = (f"call #{i} {_show(call)} on {'>'.join(out['classes'])}"
                 + (" [every call on freshly built circuits that are dropped afterwards]" if c.get("ephemeral") else "")
                 + (" [after every call the caller edits the returned objects and the lists it passed in place]"
                    if c.get("poison") else ""))
        res, counters = st["res"], st["counters"]
        executed = out["tape"][prev_tape:st["tape_len"]]
        # counters never decrease
        for (a, b), (a0, b0) in zip(counters, prev_counters):
            if a < a0 or b < b0:
                fails.append(("counter-decreased", f"{where}: counters went from {prev_counters} to {counters}"))
        if call["op"] in ("wf", "ev"):
            # any call that runs a circuit on a simulator counts its segments, also outside the three measuring calls
            sp = all_specs[call["c"]]
            wc, wj = _leaf_work(leaf, sp)
            d = [counters[-1][0] - prev_counters[-1][0], counters[-1][1] - prev_counters[-1][1]]
            if isinstance(res, str):
                fails.append(("valid-request-failed", f"{where}: raised {res}"))
            elif d != [wc, wj]:
                fails.append(("counter-increment", f"{where}: {out['classes'][-1]} ran {wc} circuit(s) in {wj} job(s), "
                                                   f"counters grew by {d}"))
        elif _invalid(call):
            empty_scalar = call["op"] == "batch" and "ns" not in call and not call["cs"]
            if res != "err:value":
                fails.append(("empty-batch-nonpositive-count-accepted" if empty_scalar else "invalid-request-accepted",
                              f"{where}: invalid request not rejected with ValueError, got {str(res)[:120]}"))
            if counters != prev_counters:
                fails.append(("empty-batch-nonpositive-count-accepted" if empty_scalar and res != "err:value"
                              else "rejected-call-changed-counters",
                              f"{where}: counters changed by an invalid request: {prev_counters} -> {counters}"))
            if executed:
                fails.append(("executed-before-rejecting", f"{where}: {len(executed)} circuit(s) executed for an invalid request"))
        elif isinstance(res, str) and res.startswith("exc:"):
            fails.append(("unexpected-exception:" + res[4:], f"{where}: valid request raised {res[4:]}"))
        elif isinstance(res, str):
            # a valid request that failed: a circuit with free symbols, or None for a runner without exact distributions
            specs = [all_specs[j] for j in (call["cs"] if call["op"] == "batch" else [call["c"]])]
            symbolic = any(op[0] == "RXS" for sp in specs for op in sp["ops"])
            none_on_base = call["op"] == "dist" and call.get("n") is None and leaf["kind"] == "base"
            if not symbolic and not none_on_base:
                fails.append(("valid-request-failed", f"{where}: valid request raised {res}"))
            if leaf["kind"] == "base":
                ran = sum(1 for e in executed if "shots" in e)
                d = [counters[-1][0] - prev_counters[-1][0], counters[-1][1] - prev_counters[-1][1]]
                if leaf.get("dedicated") and call["op"] == "batch":
                    ran = 0          # the dedicated batch implementation counts a batch only when it completed
                if d != [ran, ran]:
                    fails.append(("counter-increment", f"{where}: {ran} circuit(s) ran before the failure, counters grew by {d}"))
        else:
            cs = call["cs"] if call["op"] == "batch" else [call["c"]]
            specs = [all_specs[j] for j in cs]
            # base-class runner / simulator counters grow by exactly the work done
            wc = sum(_leaf_work(leaf, sp)[0] for sp in specs)
            wj = sum(_leaf_work(leaf, sp)[1] for sp in specs)
            if leaf.get("dedicated") and call["op"] == "batch":
                wj = 1 if cs else 0     # the subclass runs a non-empty batch as ONE job; the base class adds nothing
            d = [counters[-1][0] - prev_counters[-1][0], counters[-1][1] - prev_counters[-1][1]]
            if d != [wc, wj]:
                fails.append(("counter-increment", f"{where}: {out['classes'][-1]} ran {wc} circuit(s) in {wj} job(s), "
                                                   f"counters grew by {d}"))
            if leaf["kind"] == "base" and len(executed) != len(cs):
                fails.append(("execution-count", f"{where}: {len(executed)} executions for {len(cs)} circuits"))
            # results: one per circuit, in order, enough shots, register-wide bitstrings
            if call["op"] == "run":
                if "meas" not in res:
                    fails.append(("result-kind", f"{where}: not a Measurements result"))
                else:
                    f = _shape_fail(res["meas"], call["n"], specs[0], where)
                    if f:
                        fails.append(f)
            elif call["op"] == "dist":
                w = _width(specs[0])
                bad = [k for k, _ in res.get("dist", {}).get("items", []) if len(k) != w]
                if "dist" not in res:
                    fails.append(("result-kind", f"{where}: not a distribution"))
                elif bad:
                    fails.append(("zero-width-circuit-tuples" if w == 0 else "bitstring-length",
                                  f"{where}: outcome {tuple(bad[0])} has length {len(bad[0])}, the register has {w} qubits"))
                # enough shots: a runner built on BaseCircuitRunner has no other source of shots than its abstract
                # _run_and_measure, so a distribution for n samples must rest on >= n shots obtained from it in this call
                if leaf["kind"] == "base" and call.get("n") is not None:
                    got = sum(len(e.get("shots", [])) for e in executed)
                    if got < call["n"]:
                        fails.append(("too-few-shots", f"{where}: the distribution was computed from {got} shot(s), "
                                                       f"{call['n']} requested"))
            if call["op"] == "batch":
                ns = call["ns"] if "ns" in call else [call["n"]] * len(cs)
                if "batch" not in res or len(res["batch"]) != len(cs):
                    fails.append(("result-count", f"{where}: {len(res.get('batch', []))} results for {len(cs)} circuits"))
                else:
                    for j, (shots, n, sp) in enumerate(zip(res["batch"], ns, specs)):
                        f = _shape_fail(shots, n, sp, f"{where} result {j}")
                        if f:
                            fails.append(f)
                    # in order: result j is what an execution OF CIRCUIT j produced (the runner may execute in any order;
                    # what it may not do is hand circuit k's shots out as circuit j's result)
                    if len(executed) == len(cs) and all(("shots" in e) or ("draws" in e) for e in executed):
                        ran = Counter((e["c"], json.dumps(_shots_of(e, _width(all_specs[e["c"]]) if 0 <= e["c"] < len(all_specs) else 0)))
                                      for e in executed)
                        got = Counter((cs[j], json.dumps(shots)) for j, shots in enumerate(res["batch"]))
                        if ran != got:
                            odd = sorted((got - ran).keys())[:1] or sorted((ran - got).keys())[:1]
                            fails.append(("result-order", f"{where}: the results are not the executions' outputs matched to "
                                                          f"their circuits, e.g. circuit {odd[0][0]} / shots {odd[0][1][:80]}"))
            # trackers: pass-through and record
            for t in range(n_trackers):
                kind = call["op"]
                mine = res[{"run": "meas", "batch": "batch", "dist": "dist"}[kind]]
                if kind == "dist":
                    got = [r for k, r in st["inner_returns"][t] if k == "dist"]
                    same = got == [mine]
                else:
                    # whatever route the tracker took into the wrapped runner (single runs or one batch): the measurements
                    # it hands out are exactly the ones the wrapped runner returned, in that order
                    got = [x for k, r in st["inner_returns"][t] if k in ("run", "batch") for x in ([r] if k == "run" else r)]
                    same = got == ([mine] if kind == "run" else mine)
                if not same:
                    fails.append(("tracker-passthrough", f"{where}: tracker {t} returned {str(mine)[:120]} but the wrapped "
                                                         f"runner returned {str(got)[:120]}"))
                f = st["files"][t]
                recs = (f or {}).get("raw-data") if isinstance(f, dict) else None
                want_n = len(cs) if kind == "batch" else 1
                if recs is None or len(recs) < want_n:
                    fails.append(("tracker-record", f"{where}: tracker {t} file holds {None if recs is None else len(recs)} "
                                                    f"record(s), the call must have written {want_n}"))
                    continue
                recs = recs[len(recs) - want_n:]      # the records this call wrote are the last ones
                bits = _wants_bits(tracker_specs[t])
                if kind == "dist":
                    rec = recs[0]
                    if (rec.get("data_type") != "measurement outcome distribution" or rec.get("circuit") != st["call_ser"][0]
                            or rec.get("distribution") != mine["repr"] or rec.get("number_of_shots") != call.get("n")
                            or rec.get("number_of_gates") != len(specs[0]["ops"]) or rec.get("device") != out["devices"][t]):
                        fails.append(("tracker-record", f"{where}: tracker {t} distribution record {str(rec)[:200]} does not "
                                                        f"match the call / returned distribution"))
                else:
                    results = [mine] if kind == "run" else mine
                    for j, (rec, shots) in enumerate(zip(recs, results)):
                        msg = _record_fail(rec, st["call_ser"][j], shots, len(specs[j]["ops"]), bits, out["devices"][t],
                                           f"{where} tracker {t} record {j}")
                        if msg:
                            fails.append(("tracker-record", msg))
        prev_counters, prev_files, prev_tape = counters, st["files"], st["tape_len"]
    if not fails:
        return None
    novel = [f for f in fails if f[0] not in KNOWN_SIGS]
    return (novel or fails)[0]


def oracle(c, out):
    if not isinstance(out, dict) or "exc" in out:
        return ("unexpected-exception:" + str(out.get("exc") if isinstance(out, dict) else "?"),
                f"the implementation raised {out}")
    k = c["kind"]
    if k == "history":
        return _oracle_history(c, out)
    if k == "pair":
        # the property speaks about "any sequence of calls on a runner": what other runners do meanwhile is irrelevant
        for i, (h, o) in enumerate(zip(c["hists"], out["parts"])):
            f = _oracle_history(h, o)
            if f:
                return (f[0], f"[runner chain {i} of {len(c['hists'])} chains alive at the same time, calls interleaved "
                              f"in the order {c['order'][:40]}] {f[1]}")
        return None
    if k == "outcome":
        # every outcome of an n-qubit register is a tuple of n bits, all 2**n of them distinct
        res = out["res"]
        if len(res) != 2 ** c["n"] or len({tuple(t) for t in res}) != len(res) or any(len(t) != c["n"] for t in res):
            return ("zero-width-circuit-tuples" if c["n"] == 0 else "bitstring-length",
                    f"outcomes of a {c['n']}-qubit wavefunction are {res[:4]}…, not {2 ** c['n']} distinct tuples of length {c['n']}")
    if k == "segments":
        # the contract of split_circuit the simulator relies on: alternating keys, nothing lost, width kept
        want = [(kk, len(list(g))) for kk, g in itertools.groupby(c["flags"])]
        if list(zip(out["keys"], out["sizes"])) != want or any(w != 1 for w in out["widths"]):
            return ("split-circuit", f"split_circuit gave {list(zip(out['keys'], out['sizes']))}, runs are {want}")
    return None


# --------------------------------------------------------------------------- inputs
EMPTY = {"n": None, "ops": []}


def _hist(runner, pool, calls):
    return {"kind": "history", "runner": runner, "pool": pool, "calls": calls}


def _temporaries_history():
    pool = []
    for i in range(8):
        ops = [["X", 0]] if i % 2 else [["H", 0], ["X", 0]]
        ops.append(["RX", i % 3, ["1/2", "3/4", "-5/4", "2"][i % 4]])
        if i % 4 == 0:
            ops.append(["CNOT", 0, 2])
        pool.append({"n": 3 + i % 2, "ops": ops})
    calls = []
    for i in range(24):
        calls.append({"op": "run", "c": i % 8, "n": 2 + i % 3})
        if i % 3 == 2:
            calls.append({"op": "batch", "cs": [(i + k) % 8 for k in range(3)], "ns": [1, 2, 1]})
        if i % 6 == 5:
            calls.append({"op": "dist", "c": (i + 3) % 8, "n": 2})
    h = _hist({"kind": "tracker", "bits": False, "inner": {"kind": "sim", "all_native": True, "seed": 3}}, pool, calls)
    h["ephemeral"] = True
    return h


def _scale_corpus_history():
    pool = []
    for i in range(7):
        ops = [["X", i % 3], ["RX", (i + 1) % 3, _ANGLES[i % 4]]]
        if i % 2:
            ops.append(["CNOT", i % 3, (i + 1) % 3])
        if i == 6:
            ops.append(["H", 0])
        pool.append({"n": 3, "ops": ops})
    calls = []
    for size in (63, 64, 65, 130):
        calls.append({"op": "batch", "cs": [(3 * j + size) % 7 for j in range(size)], "ns": [1 + (j % 4) for j in range(size)]})
    calls.append({"op": "batch", "cs": [j % 7 for j in range(128)], "ns": [1] * 127 + [0]})
    calls.append({"op": "run", "c": 2, "n": 1})
    calls.append({"op": "batch", "cs": [(5 * j) % 7 for j in range(128)], "n": 2, "seq": "tuple"})
    return _hist({"kind": "tracker", "bits": True, "inner": {"kind": "base", "extras": [0, 1], "seed": 9}}, pool, calls)


def corpus():
    sym = {"kind": "sim", "all_native": True, "seed": 7}
    dflt = {"kind": "sim", "all_native": False, "seed": 3}
    base = {"kind": "base", "extras": [0, 2, 1], "seed": 5}
    bell = {"n": 3, "ops": [["H", 0], ["CNOT", 0, 1]]}
    mp = {"n": None, "ops": [["H", 0], ["MP"], ["X", 1], ["MP"], ["MP"]]}
    symb = {"n": None, "ops": [["RXS", 0], ["H", 1]]}
    return [
        # fixed 6292974 (F8): a zero-width circuit on a simulator must give tuples () (regression input)
        _hist(sym, [EMPTY], [{"op": "run", "c": 0, "n": 3}]),
        # fixed 8d91e2e: an empty batch with a non-positive scalar count must be rejected (regression input)
        _hist(base, [bell], [{"op": "batch", "cs": [], "n": 0}, {"op": "batch", "cs": [], "n": -2}]),
        # fixed 9fda0c7: a rejected batch on the tracker must not touch its counters
        _hist({"kind": "tracker", "bits": True, "inner": sym}, [bell],
              [{"op": "batch", "cs": [0], "ns": [0]}, {"op": "batch", "cs": [0, 0], "ns": [2, 3]},
               {"op": "batch", "cs": [0], "ns": [1, 1]}, {"op": "run", "c": 0, "n": 0}, {"op": "dist", "c": 0, "n": None}]),
        _hist(dflt, [mp, bell], [{"op": "run", "c": 0, "n": 4}, {"op": "dist", "c": 0, "n": None},
                                 {"op": "batch", "cs": [1, 0], "n": 2}, {"op": "dist", "c": 1, "n": -1}]),
        _hist(base, [bell, symb, EMPTY], [{"op": "batch", "cs": [0, 1, 0], "n": 2}, {"op": "dist", "c": 0, "n": None},
                                          {"op": "dist", "c": 2, "n": 3}, {"op": "run", "c": 2, "n": 1}]),
        _hist({"kind": "tracker", "bits": False, "inner": {"kind": "tracker", "bits": True, "inner": base}}, [bell, EMPTY],
              [{"op": "batch", "cs": [0, 1], "ns": [1, 2]}, {"op": "dist", "c": 0, "n": 2}, {"op": "run", "c": 1, "n": -1},
               {"op": "batch", "cs": [], "ns": []}]),
        _hist(sym, [symb], [{"op": "run", "c": 0, "n": 2}, {"op": "dist", "c": 0, "n": None}, {"op": "dist", "c": 0, "n": 2}]),
        # one tracker, many calls on circuits that are built, run and dropped (ids get reused): every record must
        # carry the serialised circuit of ITS call (seeded C14_r2m2: to_dict cached by id(circuit))
        _temporaries_history(),
        # a circuit object grown in place between two calls on the same tracker
        _hist({"kind": "tracker", "bits": False, "inner": base}, [bell],
              [{"op": "run", "c": 0, "n": 2}, {"op": "grow", "c": 0, "gate": ["X", 2]}, {"op": "run", "c": 0, "n": 2},
               {"op": "grow", "c": 0, "gate": ["CNOT", 2, 0]}, {"op": "batch", "cs": [0, 0], "n": 1},
               {"op": "dist", "c": 0, "n": 3}]),
        # sizes beyond what tests use, on one tracker: batches of 63 / 64 / 65 / 130 distinct requests (seeded C14_r3m2:
        # records flushed, and thereby overwritten, every 64 pending records), then a small call
        _scale_corpus_history(),
        # the caller edits what it got and what it passed, in place, then repeats the request (also as tuples)
        dict(_hist({"kind": "tracker", "bits": True, "inner": sym}, [bell, {"n": 3, "ops": [["X", 0], ["CNOT", 0, 1]]}],
                   [{"op": "batch", "cs": [0, 1, 0], "ns": [2, 1, 3]}, {"op": "batch", "cs": [0, 1, 0], "ns": [2, 1, 3]},
                    {"op": "batch", "cs": [0, 1, 0], "ns": [2, 1, 3], "seq": "tuple"}, {"op": "run", "c": 1, "n": 2},
                    {"op": "run", "c": 1, "n": 2}, {"op": "run", "c": 1, "n": 3}, {"op": "dist", "c": 1, "n": 3},
                    {"op": "dist", "c": 1, "n": 3}, {"op": "dist", "c": 0, "n": None}, {"op": "dist", "c": 0, "n": None}]),
             poison=True),
        # a float angle and the same angle bound to a symbol: same shape, different serialisation
        _hist({"kind": "tracker", "bits": False, "inner": base},
              [{"n": 2, "ops": [["RX", 0, "3/4"], ["H", 1]]}, {"n": 2, "ops": [["RXB", 0, "3/4"], ["H", 1]]},
               {"n": 2, "ops": [["RX", 0, "1/2"], ["H", 1]]}],
              [{"op": "run", "c": 0, "n": 2}, {"op": "run", "c": 1, "n": 2}, {"op": "run", "c": 2, "n": 2},
               {"op": "batch", "cs": [2, 1, 0], "n": 1}, {"op": "dist", "c": 1, "n": 2}]),
        # two trackers (around two simulators) alive at the same time, calls interleaved
        {"kind": "pair",
         "hists": [_hist({"kind": "tracker", "bits": True, "inner": sym}, [bell],
                         [{"op": "run", "c": 0, "n": 2}, {"op": "batch", "cs": [0, 0], "ns": [1, 2]}, {"op": "run", "c": 0, "n": 0},
                          {"op": "dist", "c": 0, "n": 2}]),
                   _hist({"kind": "tracker", "bits": False, "inner": {"kind": "sim", "all_native": True, "seed": 11}},
                         [{"n": 2, "ops": [["X", 1]]}],
                         [{"op": "batch", "cs": [0], "n": 3}, {"op": "run", "c": 0, "n": 1}, {"op": "dist", "c": 0, "n": None},
                          {"op": "batch", "cs": [0, 0], "ns": [1]}])],
         "order": [0, 1, 1, 0, 0, 1, 0, 1]},
        # a subclass with a dedicated _run_batch_and_measure that keeps the counters itself (a non-empty batch = one job):
        # the base class must add nothing on that route, reject before it, and still count single runs (oracle only)
        _hist({"kind": "tracker", "bits": None, "path": True, "inner": {"kind": "base", "dedicated": True, "extras": [1], "seed": 4}},
              [bell, symb, EMPTY],
              [{"op": "batch", "cs": [0, 2, 0], "ns": [1, 2, 1]}, {"op": "batch", "cs": [], "ns": []}, {"op": "batch", "cs": [0], "ns": [0]},
               {"op": "batch", "cs": [0, 1], "n": 2}, {"op": "run", "c": 0, "n": 1}, {"op": "batch", "cs": [], "n": 0},
               {"op": "dist", "c": 2, "n": 2}, {"op": "batch", "cs": [2], "n": 3, "seq": "userseq"}]),
        # a simulator whose native set is {X, CNOT}: H and RX are gates, yet non-native (own segments, jobs without circuits)
        _hist({"kind": "sim", "all_native": False, "native": ["CNOT", "X"], "seed": 2},
              [{"n": 2, "ops": [["H", 0], ["X", 1], ["CNOT", 0, 1], ["RX", 0, "1/2"], ["H", 1], ["X", 0]]}, {"n": 2, "ops": [["H", 0]]},
               {"n": 2, "ops": [["X", 0], ["MP"], ["H", 1]]}],
              [{"op": "run", "c": 0, "n": 2}, {"op": "batch", "cs": [1, 0, 2], "n": 1}, {"op": "dist", "c": 2, "n": None},
               {"op": "dist", "c": 1, "n": 0}]),
        # one operation REPLACED in place between calls (same object, same number of operations), controlled gates that
        # share the name "Control", record_bitstrings omitted, the caller's ONE count list rewritten between calls
        dict(_hist({"kind": "tracker", "bits": "default", "inner": base},
                   [{"n": 2, "ops": [["CTL", 0, 1, "X"], ["RX", 0, "3/4"]]}, {"n": 2, "ops": [["CTL", 0, 1, "Z"], ["RX", 0, "3/4"]]}],
                   [{"op": "batch", "cs": [0, 1], "ns": [2, 1]}, {"op": "edit", "c": 0, "k": 1, "gate": ["RX", 0, "1/2"]},
                    {"op": "batch", "cs": [0, 1], "ns": [2, 1]}, {"op": "edit", "c": 1, "k": 0, "gate": ["CTL", 1, 0, "Z"]},
                    {"op": "batch", "cs": [0, 1], "ns": [2, 0]}, {"op": "batch", "cs": [1, 0], "ns": [2, 1]},
                    {"op": "run", "c": 1, "n": 1}, {"op": "edit", "c": 1, "k": 1, "gate": ["DAG", 0, "3/4"]}, {"op": "run", "c": 1, "n": 1},
                    {"op": "dist", "c": 1, "n": 2}]),
             reuse_args=True),
        {"kind": "format", "i": 0, "n": 0},
        {"kind": "outcome", "n": 0},
        {"kind": "segments", "flags": [True, False, False, True]},
    ]


def _gen_circuit(rng, maxw, allow_mp, allow_sym):
    r = rng.random()
    if r < 0.10:
        return dict(EMPTY)                                   # zero-width, no operations
    if r < 0.18:
        return {"n": rng.randrange(1, maxw + 1), "ops": []}  # only idle qubits
    w = rng.randrange(1, maxw + 1)
    ops = []
    for _ in range(rng.randrange(1, 6)):
        k = rng.random()
        if allow_mp and k < 0.3:
            ops.append(["MP"])
        elif allow_sym and k < 0.36:
            ops.append(["RXS", rng.randrange(w)])
        elif k < 0.55 and w >= 2:
            a, b = rng.sample(range(w), 2)
            ops.append(["CNOT", a, b])
        elif k < 0.62 and w >= 2:
            a, b = rng.sample(range(w), 2)
            ops.append(["CTL", a, b, rng.choice(["X", "Z", "H"])])      # all of them are gates named "Control"
        elif k < 0.74:
            ops.append(["RX", rng.randrange(w), rng.choice(["1/2", "3/4", "-5/4", "2"])])
        elif k < 0.8:
            ops.append([rng.choice(["DAG", "POW"]), rng.randrange(w), rng.choice(["1/2", "3/4", "-5/4", "2"])])
        else:
            ops.append([rng.choice(["H", "X", "Z"]), rng.randrange(w)])
    if all(op[0] == "MP" for op in ops):
        ops.append(["X", rng.randrange(w)])
    n = w + rng.randrange(0, 2) if rng.random() < 0.5 else None     # declared width, possibly with idle qubits
    if n is None and any(op[0] == "MP" for op in ops):
        n = w                                                      # MultiPhaseOperation needs the full register
    spec = {"n": n, "ops": ops}
    if any(op[0] == "MP" for op in ops):
        spec["n"] = _width(spec)
    return spec


def _gen_n(rng, maxn, bad):
    if rng.random() < bad:
        return rng.choice([0, 0, -1, -3, -(2 ** 40)])
    return rng.choice([1, 1, 2, 3, rng.randrange(1, maxn + 1), maxn])


def _gen_call(rng, npool, maxn, maxbatch):
    k = rng.random()
    if k < 0.35:
        return {"op": "run", "c": rng.randrange(npool), "n": _gen_n(rng, maxn, 0.2)}
    if k < 0.75:
        m = rng.choice([0, 1, 1, 2, 2, 3, rng.randrange(0, maxbatch + 1)])
        cs = [rng.randrange(npool) for _ in range(m)]
        if rng.random() < 0.4:
            return {"op": "batch", "cs": cs, "n": _gen_n(rng, maxn, 0.2)}
        ns = [_gen_n(rng, maxn, 0.08) for _ in cs]
        r = rng.random()
        if r < 0.08:
            ns = ns + [_gen_n(rng, maxn, 0.0)]
        elif r < 0.16 and ns:
            ns = ns[:-1]
        elif r < 0.19:
            ns = []
        return {"op": "batch", "cs": cs, "ns": ns}
    n = None if rng.random() < 0.3 else _gen_n(rng, maxn, 0.2)
    return {"op": "dist", "c": rng.randrange(npool), "n": n}


def _gen_runner(rng):
    k = rng.random()
    if k < 0.3:
        leaf = {"kind": "base", "extras": [rng.randrange(0, 3) for _ in range(rng.randrange(1, 4))],
                "seed": rng.randrange(1, 2 ** 20)}
        if rng.random() < 0.3:
            leaf["dedicated"] = True          # a subclass with its own _run_batch_and_measure (oracle only)
    elif k < 0.6:
        leaf = {"kind": "sim", "all_native": True, "seed": rng.randrange(2 ** 20)}
    elif k < 0.85:
        leaf = {"kind": "sim", "all_native": False, "seed": rng.randrange(2 ** 20)}
    else:                                     # native = a set of gate names: gates, too, can be non-native
        names = sorted(set(_GATE_NAME.values()))
        leaf = {"kind": "sim", "all_native": False, "seed": rng.randrange(2 ** 20),
                "native": sorted(rng.sample(names, rng.randrange(1, len(names))))}
    r = rng.random()
    if r < 0.45:
        return leaf
    t = _gen_tracker(rng, leaf)
    if r < 0.9:
        return t
    return _gen_tracker(rng, t)


def _gen_tracker(rng, inner):
    """record_bitstrings in every form the signature allows (True / False / None / omitted), file name as str or path"""
    t = {"kind": "tracker", "bits": rng.choice([True, True, True, False, False, None, "default"]), "inner": inner}
    if rng.random() < 0.3:
        t["path"] = True
    return t


def _gen_grow(rng, pool):
    """append a gate in place to a pool circuit that has at least one qubit (the register width does not change)"""
    cands = [i for i, sp in enumerate(pool) if _width(sp) >= 1]
    if not cands:
        return None
    i = rng.choice(cands)
    w = _width(pool[i])
    if w >= 2 and rng.random() < 0.3:
        a, b = rng.sample(range(w), 2)
        gate = ["CNOT", a, b]
    elif rng.random() < 0.3:
        gate = ["RX", rng.randrange(w), rng.choice(["1/2", "3/4", "-5/4", "2"])]
    else:
        gate = [rng.choice(["H", "X"]), rng.randrange(w)]
    return {"op": "grow", "c": i, "gate": gate}


def _variant(rng, spec):
    """a circuit of the same width and length that differs from `spec` in exactly one operation (or None)"""
    idx = [i for i, op in enumerate(spec["ops"]) if op[0] in ("H", "X", "Z", "RX", "RXB", "CTL", "DAG", "POW")]
    if not idx:
        return None
    i = rng.choice(idx)
    op = list(spec["ops"][i])
    if op[0] in ("H", "X", "Z"):
        op[0] = rng.choice([g for g in ("H", "X", "Z") if g != op[0]])
    elif op[0] == "CTL":                 # same gate name "Control", same qubits: only the wrapped gate differs,
        if rng.random() < 0.6:           # or the same qubit SET in the other order
            op[3] = rng.choice([g for g in ("X", "Z", "H") if g != op[3]])
        else:
            op[1], op[2] = op[2], op[1]
    elif op[0] in ("DAG", "POW"):
        if rng.random() < 0.5:
            op[2] = rng.choice([a for a in ["1/2", "3/4", "-5/4", "2"] if a != op[2]])
        else:
            op[0] = "RX"
    elif rng.random() < 0.5:
        op[2] = rng.choice([a for a in ["1/2", "3/4", "-5/4", "2"] if a != op[2]])
    else:
        op[0] = "RXB" if op[0] == "RX" else "RX"        # same angle, once a float, once a bound symbol
    ops = [list(o) for o in spec["ops"]]
    ops[i] = op
    return {"n": spec.get("n"), "ops": ops}


def _sibling(rng, prev, npool):
    """the previous call with exactly one component changed (or repeated unchanged): same circuit with another count,
    same count on another circuit, a batch reordered / shortened / with a scalar instead of the equal list, the same
    request through another entry point"""
    call = json.loads(json.dumps(prev))
    r = rng.random()
    if r < 0.25 or call["op"] in ("wf", "ev"):
        return call                                           # the very same request again
    if call["op"] in ("run", "dist"):
        if r < 0.5 and call.get("n") is not None:
            call["n"] = call["n"] + rng.choice([1, 1, -1, 2])
        elif r < 0.7:
            call["c"] = rng.randrange(npool)
        elif r < 0.85 and call.get("n") is not None:
            call["op"] = "dist" if call["op"] == "run" else "run"
        elif call.get("n") is not None:
            return {"op": "batch", "cs": [call["c"]], "ns": [call["n"]]}
        return call
    cs = call["cs"]
    if r < 0.4 and cs:
        call["cs"] = cs[::-1]
        if "ns" in call and len(call["ns"]) == len(cs) and rng.random() < 0.5:
            call["ns"] = call["ns"][::-1]
    elif r < 0.55 and cs:
        call["cs"][rng.randrange(len(cs))] = rng.randrange(npool)
    elif r < 0.7:
        if "ns" in call and call["ns"]:
            j = rng.randrange(len(call["ns"]))
            call["ns"][j] += rng.choice([1, -1, 2])
        elif "n" in call:
            call["n"] += rng.choice([1, -1, 2])
    elif r < 0.85:
        if "n" in call:
            call["ns"] = [call.pop("n")] * len(cs)            # the scalar written out
        elif call["ns"] and len(set(call["ns"])) == 1 and len(call["ns"]) == len(cs):
            call["n"] = call.pop("ns")[0]
    else:
        call["seq"] = rng.choice([q for q in ("list", "tuple", "userseq") if q != call.get("seq", "list")])
    return call


def _gen_history(rng, maxw, maxn, maxbatch, maxlen, runner=None, n_calls=None, ephemeral=None):
    """one long-lived runner chain, a history of calls.  Two ways of handing circuits over:
    persistent – one object per pool entry reused by every call (repeats inside a batch and across calls, sometimes
    grown in place between calls); ephemeral – every call on freshly built temporaries that are dropped afterwards.
    Pools contain circuits that differ in one operation only; a call is often the previous call with one component
    changed; in `poison` histories the caller edits everything it owns in place after every call."""
    runner = runner or _gen_runner(rng)
    tracked = runner["kind"] == "tracker"
    if ephemeral is None:
        ephemeral = rng.random() < (0.5 if tracked else 0.25)
    pool = []
    for _ in range(rng.randrange(3, 7) if ephemeral else rng.randrange(1, 5)):
        sp = None
        if pool and rng.random() < 0.35:
            sp = _variant(rng, rng.choice(pool))
            if sp in pool:
                sp = None
        if sp is None:
            for _try in range(5):
                sp = _gen_circuit(rng, maxw, allow_mp=not tracked, allow_sym=rng.random() < 0.3)
                if sp not in pool:
                    break
        pool.append(sp)
    if n_calls is None:
        n_calls = rng.randrange(6, 2 * maxlen + 1) if ephemeral else rng.randrange(1, maxlen)
    calls = []
    view = [dict(sp) for sp in pool]          # current content of every pool entry
    prev = None
    for _ in range(n_calls):
        if not ephemeral and rng.random() < 0.12:
            g = _gen_grow(rng, view)
            if g is not None:
                view[g["c"]] = {"n": view[g["c"]].get("n"), "ops": view[g["c"]]["ops"] + [g["gate"]]}
                calls.append(g)
                continue
        if not ephemeral and rng.random() < 0.1:
            i = rng.randrange(len(view))
            v = _variant(rng, view[i])
            if v is not None:       # one operation of a circuit that was already submitted is REPLACED in place
                k = [j for j, (a, b) in enumerate(zip(view[i]["ops"], v["ops"])) if a != b][0]
                view[i] = v
                calls.append({"op": "edit", "c": i, "k": k, "gate": v["ops"][k]})
                continue
        if prev is not None and rng.random() < 0.3:
            call = _sibling(rng, prev, len(pool))
        else:
            call = _gen_call(rng, len(pool), min(maxn, 6) if ephemeral else maxn, maxbatch)
            if call["op"] == "batch" and rng.random() < 0.35:
                call["seq"] = rng.choice(["tuple", "userseq"])
            if rng.random() < 0.2:
                call["kw"] = True
            if call["op"] == "dist" and call["n"] is None and rng.random() < 0.4:
                call["omit"] = True
            if runner["kind"] == "sim" and rng.random() < 0.1:
                i = rng.randrange(len(pool))
                numeric = not any(op[0] == "RXS" for op in view[i]["ops"])
                call = {"op": "ev" if numeric and rng.random() < 0.5 else "wf", "c": i}
        calls.append(call)
        prev = call
    h = _hist(runner, pool, calls)
    if ephemeral:
        h["ephemeral"] = True
        h["gc"] = rng.random() < 0.3
    if rng.random() < 0.35:
        h["poison"] = True
    if rng.random() < 0.35:
        h["reuse_args"] = True
    return h


# ---- scale: every size the property quantifies over is also taken far beyond what a hand-written test uses, at and
# around the round numbers where chunking / flushing / fast paths are put (the property has no size bound)
_BATCH_LADDER = [63, 64, 65, 99, 100, 101, 127, 128, 129, 199, 200, 201, 255, 256, 257, 499, 500, 501, 511, 512, 513,
                 999, 1000, 1001, 1023, 1024, 1025]
_SHOT_LADDER = [255, 256, 257, 999, 1000, 1001, 1023, 1024, 1025, 4095, 4096, 4097, 9999, 10000, 10001,
                16383, 16384, 16385, 32767, 32768, 32769, 65535, 65536, 65537]
_OPS_LADDER = [31, 32, 33, 49, 50, 51, 63, 64, 65, 99, 100, 101, 127, 128, 129, 199, 200, 201, 255, 256, 257]
_ANGLES = ["1/2", "3/4", "-5/4", "2"]


def _chain(leaf, *bits):
    """leaf under len(bits) trackers; bits[0] belongs to the outermost one"""
    r = leaf
    for b in reversed(bits):
        r = {"kind": "tracker", "bits": bool(b), "inner": r}
    return r


def _leaves(rng):
    return [{"kind": "base", "extras": [rng.randrange(0, 3) for _ in range(rng.randrange(1, 4))], "seed": rng.randrange(1, 2 ** 20)},
            {"kind": "sim", "all_native": True, "seed": rng.randrange(2 ** 20)},
            {"kind": "sim", "all_native": False, "seed": rng.randrange(2 ** 20)}]


def _distinct_pool(rng, k, maxw, allow_mp):
    pool = []
    while len(pool) < k:
        sp = _gen_circuit(rng, maxw, allow_mp=allow_mp, allow_sym=False)
        if sp not in pool:
            pool.append(sp)
    return pool


def _bad_ns(rng, ns):
    """a per-circuit list that is wrong in ONE place only (first / middle / last / random entry, or its length)"""
    ns = list(ns)
    r = rng.random()
    if r < 0.25 and ns:
        return ns[:-1]
    if r < 0.4:
        return ns + [1]
    j = rng.choice([0, len(ns) // 2, len(ns) - 1, rng.randrange(len(ns))])
    ns[j] = rng.choice([0, -1, -(2 ** 40)])
    return ns


def _gen_big_batch(rng, runner, sizes, ephemeral=False):
    """batches far longer than any test uses, on one long-lived chain; each followed by siblings: the same batch with
    one bad count somewhere (must be rejected before anything runs), a small call (the file then holds that call)"""
    tracked = runner["kind"] == "tracker"
    pool = _distinct_pool(rng, rng.randrange(4, 8), 3, allow_mp=not tracked)
    calls = []
    for size in sizes:
        cs = [rng.randrange(len(pool)) for _ in range(size)]
        if rng.random() < 0.3:
            call = {"op": "batch", "cs": cs, "n": rng.choice([1, 2, 3])}
        else:
            call = {"op": "batch", "cs": cs, "ns": [rng.choice([1, 1, 2, 3]) for _ in cs]}
        if rng.random() < 0.3:
            call["seq"] = "tuple"
        if rng.random() < 0.3:       # the bad request first: a long list that is wrong in one place
            calls.append({"op": "batch", "cs": list(cs), "ns": _bad_ns(rng, call.get("ns") or [call["n"]] * size)})
        calls.append(call)
        r = rng.random()
        if r < 0.3:
            calls.append({"op": "batch", "cs": list(cs), "ns": _bad_ns(rng, call.get("ns") or [call["n"]] * size)})
        elif r < 0.5:
            calls.append({"op": "run", "c": rng.randrange(len(pool)), "n": rng.choice([1, 2, 0])})
        elif r < 0.65:
            calls.append({"op": "dist", "c": rng.randrange(len(pool)), "n": rng.choice([2, 3, -1])})
    h = _hist(runner, pool, calls)
    if ephemeral:
        h["ephemeral"] = True
    if rng.random() < 0.3:
        h["poison"] = True
    return h


def _gen_big_shots(rng, runner, counts, round_robin=False):
    """sample counts far larger than any test uses, through every entry point (round_robin: the four entry points take
    turns along the ascending counts, so each of them sees small, middle and the largest ones)"""
    tracked = runner["kind"] == "tracker"
    pool = _distinct_pool(rng, 3, 3, allow_mp=not tracked)
    calls = []
    off = rng.randrange(4)
    for i, n in enumerate(counts):
        c = rng.randrange(len(pool))
        r = [0.1, 0.5, 0.7, 0.9][(i + off) % 4] if round_robin else rng.random()
        if r < 0.35:
            calls.append({"op": "run", "c": c, "n": n})
        elif r < 0.6:
            ns = [rng.choice([1, 2, 3]) for _ in range(rng.randrange(1, 4))]
            ns.insert(rng.randrange(len(ns) + 1), n)
            calls.append({"op": "batch", "cs": [rng.randrange(len(pool)) for _ in ns], "ns": ns})
        elif r < 0.8:
            calls.append({"op": "batch", "cs": [rng.randrange(len(pool)) for _ in range(2)], "n": n})
        else:
            calls.append({"op": "dist", "c": c, "n": n})
        if rng.random() < 0.25:
            calls.append({"op": rng.choice(["run", "dist"]), "c": c, "n": -n})
    h = _hist(runner, pool, calls)
    if rng.random() < 0.3:
        h["poison"] = True
    return h


def _wide_circuit(rng, w, allow_mp):
    """single-qubit gates and neighbouring CNOTs only (the symbolic lifting of a far-reaching gate costs seconds)"""
    ops = []
    for _ in range(rng.randrange(0, 4)):
        k = rng.random()
        q = rng.randrange(w)
        if k < 0.25 and w >= 2:
            q = rng.randrange(w - 1)
            ops.append(["CNOT", q, q + 1] if rng.random() < 0.5 else ["CNOT", q + 1, q])
        elif k < 0.5:
            ops.append(["RX", q, rng.choice(_ANGLES)])
        else:
            ops.append([rng.choice(["H", "X"]), q])
    if allow_mp and ops and rng.random() < 0.4:
        ops.insert(rng.randrange(len(ops) + 1), ["MP"])
    return {"n": w, "ops": ops}


def _gen_wide(rng, runner, widths):
    """registers wider than any test uses; counts on both sides of the number of basis states"""
    tracked = runner["kind"] == "tracker"
    is_sim = _leaf_spec(runner)["kind"] == "sim"
    pool = []
    for w in widths:
        for _try in range(5):
            sp = _wide_circuit(rng, w, allow_mp=is_sim and not tracked)
            if sp not in pool:
                break
        pool.append(sp)
    calls = []
    for i, w in enumerate(widths):
        over = 2 ** w + rng.randrange(1, 4) if w <= 12 else 5
        calls.append({"op": "run", "c": i, "n": rng.choice([1, 2, 3])})
        calls.append({"op": "run", "c": i, "n": over})
        calls.append({"op": "dist", "c": i, "n": rng.choice([None if is_sim else 2, 3, over, 0])})
    calls.append({"op": "batch", "cs": list(range(len(widths))) + [0], "ns": [2] * len(widths) + [1]})
    calls.append({"op": "batch", "cs": list(range(len(widths))), "n": rng.choice([1, -1])})
    rng.shuffle(calls)
    return _hist(runner, pool, calls)


def _deep_ops(rng, w, length, allow_mp):
    ops = []
    for _ in range(length):
        k = rng.random()
        if allow_mp and k < 0.35:
            ops.append(["MP"])
        elif k < 0.5 and w >= 2:
            a, b = rng.sample(range(w), 2)
            ops.append(["CNOT", a, b])
        elif k < 0.65:
            ops.append(["RX", rng.randrange(w), rng.choice(_ANGLES)])
        else:
            ops.append([rng.choice(["H", "X"]), rng.randrange(w)])
    return ops


def _gen_deep(rng, runner, lengths, light=False):
    """circuits with far more operations than any test uses (for the default simulator: far more native / non-native
    segments); the longest one is then grown in place, one gate at a time, across the next round number"""
    tracked = runner["kind"] == "tracker"
    allow_mp = _leaf_spec(runner)["kind"] == "sim" and not tracked
    w = rng.randrange(1, 3)
    pool = [{"n": w, "ops": _deep_ops(rng, w, n, allow_mp)} for n in lengths]
    pool.append({"n": w, "ops": [["X", 0]]})
    calls = []
    for i in range(len(lengths)):
        if light:                    # one execution per circuit: the whole ladder of lengths stays cheap
            calls.append(rng.choice([{"op": "run", "c": i, "n": rng.choice([1, 2])},
                                     {"op": "batch", "cs": [len(lengths), i], "ns": [1, 2]},
                                     {"op": "dist", "c": i, "n": 2}]))
            continue
        calls.append({"op": "run", "c": i, "n": rng.choice([1, 2])})
        calls.append({"op": "batch", "cs": [len(lengths), i, i], "ns": [1, 2, 1]})
        calls.append({"op": "dist", "c": i, "n": rng.choice([2, 0])})
    last = len(lengths) - 1
    for _ in range(3):
        calls.append({"op": "grow", "c": last, "gate": [rng.choice(["H", "X"]), rng.randrange(w)]})
        calls.append({"op": "run", "c": last, "n": 1})
    return _hist(runner, pool, calls)


def _gen_metronome(rng, runner, op, length):
    """`length` valid calls of ONE kind in a row on one chain, the counters moving in equal steps: whatever a runner
    does "every N-th call" / "when a counter reaches N" (N <= length) happens here, and is looked at, for that entry
    point; a different kind of call every now and then shows what the next call of another kind sees"""
    tracked = runner["kind"] == "tracker"
    pool = _distinct_pool(rng, rng.randrange(2, 5), 2, allow_mp=not tracked)
    calls = []
    for i in range(length):
        c = rng.randrange(len(pool))
        if op == "run":
            calls.append({"op": "run", "c": c, "n": rng.choice([1, 1, 2])})
        elif op == "dist":
            calls.append({"op": "dist", "c": c, "n": rng.choice([1, 2])})
        else:
            calls.append({"op": "batch", "cs": [c], "n": 1} if rng.random() < 0.5 else {"op": "batch", "cs": [c], "ns": [rng.choice([1, 2])]})
        if rng.random() < 0.02:
            calls.append(rng.choice([{"op": "dist", "c": c, "n": 2}, {"op": "run", "c": c, "n": 0},
                                     {"op": "batch", "cs": [c, c], "n": 1}, {"op": "run", "c": c, "n": 2}]))
    return _hist(runner, pool, calls)


def _ladder(rng, ladder, lo, hi, k_fixed, k_random):
    """k_fixed entries of the ladder within [lo, hi] plus k_random arbitrary sizes in that range, ascending"""
    cand = [x for x in ladder if lo <= x <= hi]
    pick = rng.sample(cand, min(k_fixed, len(cand)))
    pick += [rng.randrange(lo, hi + 1) for _ in range(k_random)]
    return sorted(pick)


def _gen_scale(rng, tier):
    """Per run: the WHOLE ladder of each size once (quick: its lower part plus picks from the rest), on the chain where
    one call passes through the most code (tracker > base runner for batch lengths: the tracker forwards the whole
    batch; tracker > simulator for counts and circuit lengths), plus random parts of the ladders and arbitrary sizes
    on other chain kinds."""
    big = tier == "thorough"
    cases = []
    base, sym, dflt = _leaves(rng)
    # ---- long batches.  base-class leaf: cheap; simulators: a few milliseconds per circuit
    if big:
        full = _BATCH_LADDER + [2047, 2048, 2049, 4095, 4096, 4097]
    else:
        full = [x for x in _BATCH_LADDER if x <= 513] + rng.sample([x for x in _BATCH_LADDER if x > 513], 2)
    full = sorted(full + [rng.randrange(60, 1100) for _ in range(2)])
    b = rng.random() < 0.5
    cases.append(_gen_big_batch(rng, _chain(base, b, not b), full))      # one tracker with, one without bitstrings
    others = (_chain(_leaves(rng)[0], 0, 1), _leaves(rng)[0])
    for runner in others if big else (rng.choice(others),):
        cases.append(_gen_big_batch(rng, runner, _ladder(rng, _BATCH_LADDER, 60, 4200 if big else 1100, 9 if big else 5, 2),
                                    ephemeral=rng.random() < 0.4))
    sims = (_chain(sym, rng.random() < 0.5), _chain(dflt, 1, 0), rng.choice([sym, dflt]))
    for runner in sims if big else (sims[0], rng.choice(sims[1:])):
        sizes = _ladder(rng, _BATCH_LADDER, 60, 520 if big else 140, 4 if big else 2, 1)
        if 64 not in sizes and 65 not in sizes:
            sizes = sorted(sizes + [rng.choice([64, 65])])
        cases.append(_gen_big_batch(rng, runner, sizes))
    base, sym, dflt = _leaves(rng)
    # ---- many shots
    if big:
        full = _SHOT_LADDER + [100000, 131071, 131072, 131073]
    else:
        full = [x for x in _SHOT_LADDER if x <= 10001] + rng.sample([x for x in _SHOT_LADDER if x > 10001], 3)
    full = sorted(full + [rng.randrange(250, 66000) for _ in range(2)])
    b = rng.random() < 0.5
    cases.append(_gen_big_shots(rng, _chain(sym, b), full, round_robin=True))
    cases.append(_gen_big_shots(rng, _chain(base, not b), full, round_robin=True))
    others = (_chain(dflt, 1, 1), base, sym, dflt)
    for runner in others if big else (rng.choice(others),):
        counts = _ladder(rng, _SHOT_LADDER + [100000, 131072, 131073], 250, 140000 if big else 66000, 8 if big else 4, 2)
        cases.append(_gen_big_shots(rng, runner, counts))
    base, sym, dflt = _leaves(rng)
    # ---- long histories on one chain (thresholds on the number of calls / the running counters)
    longs = [_chain(base, 1), _chain(sym, 0), dflt]
    for runner in longs if big else rng.sample(longs, 2):
        cases.append(_gen_history(rng, 3, 4, 3, 8, runner=runner, n_calls=rng.randrange(1000, 1100) if big else rng.randrange(260, 340),
                                  ephemeral=rng.random() < 0.4))
    base, sym, dflt = _leaves(rng)
    length = 1100 if big else 300
    for op in ("run", "dist", "batch"):
        cases.append(_gen_metronome(rng, _chain(_leaves(rng)[0], rng.random() < 0.5), op, length + rng.randrange(30)))
    sims = [_chain(sym, 0), dflt, _chain(dflt, 1, 0), sym]
    rng.shuffle(sims)
    for runner, op in zip(sims, ("run", "dist", "batch") if big else (rng.choice(["run", "dist", "batch"]),)):
        cases.append(_gen_metronome(rng, runner, op, length))
    # ---- wide registers
    if big:
        cases.append(_gen_wide(rng, sym, [rng.choice([8, 9]), 10, rng.choice([11, 12])]))
        cases.append(_gen_wide(rng, _chain(dflt, rng.random() < 0.5), [9, rng.choice([7, 8, 10])]))
        cases.append(_gen_wide(rng, _leaves(rng)[2], [rng.choice([8, 9]), 10]))
    else:
        w = rng.choice([9, 10])
        cases.append(_gen_wide(rng, sym, [w]))
        cases.append(_gen_wide(rng, _chain(dflt, rng.random() < 0.5), [19 - w]))
    cases.append(_gen_wide(rng, _chain(base, 1), [9, 16, 17, 33, 64, 65]))
    cases.append(_gen_wide(rng, _leaves(rng)[0], [rng.randrange(9, 70) for _ in range(4)]))
    base, sym, dflt = _leaves(rng)
    # ---- long circuits
    full = sorted(_OPS_LADDER + ([511, 512, 513] if big else []) + [rng.randrange(30, 260)])
    fulls = (_chain(sym, rng.random() < 0.5), dflt)
    for runner in fulls if big else (rng.choice(fulls),):
        cases.append(_gen_deep(rng, runner, full, light=True))
    cases.append(_gen_deep(rng, _chain(base, rng.random() < 0.5), sorted(full + ([1023, 1024, 1025] if big else [])), light=True))
    base, sym, dflt = _leaves(rng)
    others = (_chain(dflt, 0), sym, dflt)
    for runner in others if big else (rng.choice(others),):
        lengths = _ladder(rng, _OPS_LADDER + [512, 513], 30, 520 if big else 260, 3 if big else 2, 1)
        cases.append(_gen_deep(rng, runner, lengths, light=not big))
    # ---- deep chains of wrappers
    for depth in (3, 4):
        leaf = rng.choice(_leaves(rng))
        cases.append(_gen_history(rng, 3, 6, 4, 8, runner=_chain(leaf, *[rng.random() < 0.5 for _ in range(depth)])))
    return cases


def _gen_pair(rng, maxw, maxn, maxbatch, maxlen):
    """two or three runner chains alive at the same time (usually of the same classes), calls interleaved"""
    k = 3 if rng.random() < 0.2 else 2
    first = _gen_runner(rng)
    if first["kind"] != "tracker" and rng.random() < 0.6:
        first = _chain(first, rng.random() < 0.5)
    hists = []
    for i in range(k):
        if i == 0 or rng.random() < 0.3:
            runner = first if i == 0 else _gen_runner(rng)
        else:
            runner = json.loads(json.dumps(first))        # same classes, own seeds / record_bitstrings
            s = runner
            while s["kind"] == "tracker":
                if rng.random() < 0.5:
                    s["bits"] = not s["bits"]
                s = s["inner"]
            s["seed"] = rng.randrange(1, 2 ** 20)
        hists.append(_gen_history(rng, maxw, maxn, maxbatch, maxlen, runner=runner, n_calls=rng.randrange(2, maxlen + 2)))
    order = [i for i, h in enumerate(hists) for _ in h["calls"]]
    rng.shuffle(order)
    return {"kind": "pair", "hists": hists, "order": order}


def generate(rng, tier):
    big = tier == "thorough"
    cases = []
    for i in range(0, 40 if big else 12):           # format(i, "0nb") grid incl. the zero-width corner
        for n in range(0, 8 if big else 5):
            cases.append({"kind": "format", "i": i, "n": n})
    for n in range(0, 7 if big else 5):
        cases.append({"kind": "outcome", "n": n})
    for _ in range(200 if big else 40):
        cases.append({"kind": "segments", "flags": [rng.random() < 0.5 for _ in range(rng.randrange(0, 9))]})
    maxw, maxn, maxbatch = (5, 40, 6) if big else (3, 10, 4)
    for _ in range(2600 if big else 420):
        cases.append(_gen_history(rng, maxw, maxn, maxbatch, 12 if big else 8))
    for _ in range(250 if big else 60):
        cases.append(_gen_pair(rng, maxw, maxn, maxbatch, 10 if big else 6))
    cases.extend(_gen_scale(rng, tier))
    # the malformed stream: histories made of invalid requests only (nothing may ever change)
    for _ in range(300 if big else 80):
        runner = _gen_runner(rng)
        pool = [_gen_circuit(rng, maxw, allow_mp=False, allow_sym=False) for _ in range(rng.randrange(1, 3))]
        calls = []
        for _ in range(rng.randrange(1, 6)):
            k = rng.randrange(5)
            cs = [rng.randrange(len(pool)) for _ in range(rng.randrange(1, 4))]
            if k == 0:
                calls.append({"op": "run", "c": cs[0], "n": rng.choice([0, -1, -7])})
            elif k == 1:
                calls.append({"op": "batch", "cs": cs, "n": rng.choice([0, -1])})
            elif k == 2:
                calls.append({"op": "batch", "cs": cs, "ns": [1] * (len(cs) + rng.choice([-1, 1, 2]))})
            elif k == 3:
                ns = [rng.randrange(1, 4) for _ in cs]
                ns[rng.randrange(len(ns))] = rng.choice([0, -2])
                calls.append({"op": "batch", "cs": cs, "ns": ns})
            else:
                calls.append({"op": "dist", "c": cs[0], "n": rng.choice([0, -1])})
        cases.append(_hist(runner, pool, calls))
    return cases


def nontrivial(c):
    if c["kind"] == "pair":
        return any(nontrivial(h) for h in c["hists"])
    if c["kind"] != "history":
        return False
    calls = _real_calls(c)
    if len({call["op"] for call in calls}) < 2:
        return False
    rejected = sum(1 for call in calls if _invalid(call))
    return rejected >= 1 and rejected < len(calls)


def distribution(cases, outs):
    hs = [(c, o) for c, o in zip(cases, outs) if c["kind"] == "history" and isinstance(o, dict) and "steps" in o]
    pairs = [(c, o) for c, o in zip(cases, outs) if c["kind"] == "pair" and isinstance(o, dict) and "parts" in o]
    for c, o in pairs:
        hs.extend(zip(c["hists"], o["parts"]))
    all_calls = [call for c, _ in hs for call in c["calls"] if call["op"] not in ("grow", "edit")]
    calls = Counter()
    results = Counter()
    runners = Counter()
    zero_width = idle = non_gate = symbolic = 0
    for c, o in hs:
        names = []
        s = c["runner"]
        while s["kind"] == "tracker":
            names.append("tracker")
            s = s["inner"]
        names.append(("base-dedicated-batch" if s.get("dedicated") else "base") if s["kind"] == "base" else
                     ("symbolic-sim" if s["all_native"] else ("name-native-sim" if "native" in s else "default-native-sim")))
        runners[">".join(names)] += 1
        for sp in _resolve(c)[0]:
            w = _width(sp)
            used = {q for op in sp["ops"] if op[0] != "MP" for q in op[1:3] if isinstance(q, int)}
            zero_width += w == 0
            idle += w > len(used) and not any(op[0] == "MP" for op in sp["ops"])
            non_gate += any(op[0] == "MP" for op in sp["ops"])
            symbolic += any(op[0] == "RXS" for op in sp["ops"])
        for call, st in zip(_real_calls(c), o["steps"]):
            calls[call["op"] + (":invalid" if _invalid(call) else ":valid")] += 1
            results[st["res"] if isinstance(st["res"], str) else "ok"] += 1
    return {"histories": len(hs), "calls_by_kind": dict(calls), "results": dict(results), "runner_chains": dict(runners),
            "circuits_zero_width": zero_width, "circuits_with_idle_qubits": idle, "circuits_with_non_gate_ops": non_gate,
            "circuits_with_free_symbols": symbolic,
            "interleaved_runner_groups": len(pairs),
            "poisoned_histories (caller edits results and argument lists in place)": sum(1 for c, _ in hs if c.get("poison")),
            "batches_passed_as_tuples": sum(1 for call in all_calls if call.get("seq") == "tuple"),
            "max_batch_length": max((len(call["cs"]) for call in all_calls if call["op"] == "batch"), default=0),
            "batches_of_64_or_more": sum(1 for call in all_calls if call["op"] == "batch" and len(call["cs"]) >= 64),
            "max_sample_count": max([call.get("n") or 0 for call in all_calls] + [n for call in all_calls for n in call.get("ns", [])], default=0),
            "max_register_width": max((_width(sp) for c, _ in hs for sp in c["pool"]), default=0),
            "max_operations_in_a_circuit": max((len(sp["ops"]) for c, _ in hs for sp in _resolve(c)[0]), default=0),
            "max_tracker_nesting": max((o["classes"].count("MeasurementTrackingBackend") for _, o in hs), default=0),
            "ephemeral_histories": sum(1 for c, _ in hs if c.get("ephemeral")),
            "edit_steps (operation replaced in place)": sum(1 for c, _ in hs for call in c["calls"] if call["op"] == "edit"),
            "histories_reusing_one_argument_list_object": sum(1 for c, _ in hs if c.get("reuse_args")),
            "oracle_only_histories (dedicated _run_batch_and_measure)": sum(1 for c, _ in hs if _oracle_only(c)),
            "batches_passed_as_user_sequence": sum(1 for call in all_calls if call.get("seq") == "userseq"),
            "grow_steps": sum(1 for c, _ in hs for call in c["calls"] if call["op"] == "grow"),
            "max_history_length": max((len(c["calls"]) for c, _ in hs), default=0)}
