"""C07 — gate modifiers (dagger, controlled, power, exp) mean what they say.

A RUN is a base gate plus a chain of modifier METHOD calls applied one after the other:
  {"base": <base spec>, "chain": [["dagger"], ["controlled", n], ["power", "p/q"(, "f")], ["exp"], ["replace", [params]] ...],
   "order": "fwd"|"rev", "share": "none"|"base"|"all", "reread": bool, "decoy": bool, "recheck": bool}      (see `run_one`)
base spec:  {"gate": NAME, "params": [[ch, sh], ...]}                       built-in at rational half-angle points
            {"custom": name, "rows": [[entry]], "nsyms": k, "params": [{"v": [re, im]}, ...]}
                                                                            entry = [re, im] constant | {"sym": i}
A CASE is either one run ({"kind": "chain"|"malformed"|"exotic"|"special", ...run fields}) or a SESSION
({"kind": "session"|"session-ext", "runs": [run, ...]}): several runs executed one after the other in the same process on shared
prototypes / gate definitions / (per `share`) gate objects.  Sessions exist because the property quantifies over gates, i.e.
values: whatever the library remembers between calls (module-level or per-object caches, shared result objects, objects updated
in place) must not change what a gate reports.  The sibling runs of a session differ in exactly one component, so a cache key
that leaves that component out collides.

The implementation is run step by step (real objects of /repo); after every step the object structure, num_qubits, params and
the numeric matrix are recorded; the object the library handed out is then edited in place (result poisoning).  The Lean model
(`C07 chain`, one request per run) does the same; sympy's `exp` / non-integer `**` are EXTERNALS of the model, supplied to it as
a table computed with scipy on the exact argument matrix the model asks for.
"""
import math
import signal
import time
from fractions import Fraction

from .. import common
from ..common import rat, unrat
from .. import circ

PROP = "C07"
RULE = ("random modifier chains (depth 0..4: dagger / controlled(1..3) / integer power -3..3 / power 1/q, q<=4 / exp / "
        "replace_params) over the 27 built-ins at rational half-angle points and over custom gates (Gaussian-integer matrices, "
        "optionally with symbols); exp and non-integer powers only while the total is <= 2 qubits; SESSIONS = a seed run, 2-4 "
        "sibling runs that differ from it in exactly one component (other gate under the same parameters / same custom name with "
        "one matrix entry changed / one parameter changed, negated, shifted by 2 pi or by a relative 1e-6 / one modifier argument "
        "changed / one modifier inserted, removed, exchanged / int exponent handed over as float) and the seed run again, all in "
        "one process on shared prototypes, definitions and (share=base|all) gate objects, matrices read stepwise (fwd) or only "
        "after all gates were made, outermost first (rev), optional decoy call of the same method with another argument before "
        "every modifier call; every matrix the library returns is edited in place after it was recorded and the last (or every) "
        "matrix is asked for again; EXOTIC = exponents up to +-12, integer exponents as floats, 4..5 controls, roots 1/5..1/16; "
        "SPECIAL = parameters at which the matrix is self-adjoint, replaced by generic ones and back, around a dagger; plus a "
        "malformed stream (control counts <= 0, wrong parameter arity, negative powers of singular matrices). non-trivial: chain "
        "of >= 2 modifiers, or a session of >= 3 runs; distinct = distinct canonical JSON of the case")
TRUSTED = [
    "sympy Matrix.inv: M * inv(M) = 1 (hypothesis `ExtLaws.inv_*`; the model's own inverse is exact Gauss-Jordan over Q(zeta8) and is compared with sympy on every negative power)",
    "sympy M ** (1/q): its q-th power is M (hypothesis `ExtLaws.root`; checked numerically by the oracle on every generated fractional power)",
    "sympy Matrix.exp is the matrix exponential (hypothesis `ExtLaws.exp`; compared with scipy.linalg.expm on every generated exp)",
    "sympy Matrix.adjoint / Matrix.diag / integer ** are conjugate transpose / block diagonal / repeated product (compared entrywise with the exact model)",
    "scipy.linalg.expm / fractional_matrix_power (principal branch) are used only to fill the model's external table; float tolerance 1e-8 relative",
]
ASSUMPTIONS = [
    "parameters are numbers (no free symbols): Power/Exponential reject symbolic gates in __post_init__, bind is property C06",
    "a gate 'obtained by nesting modifiers' is built by the modifier METHODS (.dagger/.controlled/.power/.exp), not by calling the wrapper class constructors directly",
    "exponents are Python ints or floats p/q (an integer may arrive as a float, 2.0); only integers and unit fractions are in the property's domain",
    "a gate is a value: 'its matrix' / 'its parameters' do not depend on which other gates were built or inspected before in the "
    "same process, on how often they were asked for, or on what the caller did to an earlier answer (this is what the sessions, "
    "the decoy calls and the in-place edits of returned matrices test; the property's sentences are then evaluated per run)",
    "two CustomGateDefinitions may carry the same gate_name (legal, though discouraged by the Gate.name docstring)",
    "the matrix of a BASE gate is not judged by the oracle (that is C02 / C06); a wrong base matrix is visible to the model "
    "comparison only",
]

TOL = 1e-8
LIMITS = {"quick": 0.5, "thorough": 3.0}
_LIMIT = [2.0]
SESSION_BUDGET = {"quick": 1.5, "thorough": 6.0}  # s of sympy time after which a session's per-matrix limit drops to 0.2 s
_SUPPRESSED = [0]
_EVALS = [0]
_FLAGS = {}  # canon(run) -> {"ambiguous": bool, "unresolved": bool}


# ------------------------------------------------------------------ per-evaluation wall-clock limit
class CaseTimeout(Exception):
    pass


class time_limit:
    """wall-clock limit for one sympy evaluation; preserves the runner's own SIGALRM deadline"""

    def __init__(self, sec):
        self.sec = sec

    def __enter__(self):
        self.t0 = time.time()
        self.remaining = signal.alarm(0)
        self.old = signal.signal(signal.SIGALRM, self._fire)
        signal.setitimer(signal.ITIMER_REAL, self.sec)

    def _fire(self, signum, frame):
        raise CaseTimeout()

    def __exit__(self, *exc):
        signal.setitimer(signal.ITIMER_REAL, 0)
        signal.signal(signal.SIGALRM, self.old)
        if self.remaining:
            signal.alarm(max(1, self.remaining - int(time.time() - self.t0)))
        return False


# ------------------------------------------------------------------ specs -> real objects
def _lib():
    common.use_repo()
    import orquestra.quantum.circuits as oqc
    from orquestra.quantum.circuits import _gates
    return oqc, _gates


def py_params(bspec, params):
    """python values handed to the library for a list of parameter specs"""
    import sympy
    if "gate" in bspec:
        if bspec["gate"] == "Delay":
            return tuple(float(unrat(a[0])) for a in params)
        return tuple(circ.theta_of(a) for a in params)
    return tuple(sympy.Rational(str(unrat(p["v"][0]))) + sympy.I * sympy.Rational(str(unrat(p["v"][1]))) for p in params)


_DEFS = {}


def custom_definition(bspec):
    import sympy
    oqc, _ = _lib()
    key = common.canon([bspec["custom"], bspec["rows"], bspec["nsyms"]])
    if key not in _DEFS:
        syms = tuple(sympy.Symbol(f"p{i}") for i in range(bspec["nsyms"]))
        rows = [[syms[e["sym"]] if isinstance(e, dict) else
                 sympy.Rational(str(unrat(e[0]))) + sympy.I * sympy.Rational(str(unrat(e[1]))) for e in row]
                for row in bspec["rows"]]
        _DEFS[key] = oqc.CustomGateDefinition(bspec["custom"], sympy.Matrix(rows), syms)
    return _DEFS[key]


def build_base(bspec, params=None):
    oqc, _ = _lib()
    params = bspec["params"] if params is None else params
    vals = py_params(bspec, params)
    if "gate" in bspec:
        ref = getattr(oqc, bspec["gate"])
        if circ.BUILTIN_PARAMS[bspec["gate"]] == 0 and not vals:
            return ref
        if circ.BUILTIN_PARAMS[bspec["gate"]] == 0:
            return ref.replace_params(vals)
        return ref(*vals)
    return custom_definition(bspec)(*vals)


def py_exponent(e, as_float=False):
    f = unrat(e)
    return int(f) if (f.denominator == 1 and not as_float) else float(f)


def apply_mod(g, mod, bspec):
    t = mod[0]
    if t == "dagger":
        return g.dagger
    if t == "exp":
        return g.exp
    if t == "controlled":
        return g.controlled(mod[1])
    if t == "power":
        return g.power(py_exponent(mod[1], len(mod) > 2 and mod[2] == "f"))
    if t == "replace":
        return g.replace_params(py_params(bspec, mod[1]))
    raise ValueError(mod)


# ------------------------------------------------------------------ canonical description of a real gate object
def _exp_str(x):
    if isinstance(x, int) and not isinstance(x, bool):
        return str(x)
    f = Fraction(x).limit_denominator(64)
    if float(f) == x:
        return str(f.numerator) if f.denominator == 1 else f"{f.numerator}/{f.denominator}"
    return repr(x)


def _match_params(actual, bspec, candidates):
    actual = tuple(actual)
    for cand in candidates:
        try:
            if len(cand) == len(actual) and all(a == b for a, b in zip(py_params(bspec, cand), actual)):
                return cand
        except Exception:
            pass
    return {"unmatched": repr(actual)[:120]}


def struct(g, bspec, candidates):
    _, G = _lib()
    if type(g) is G.MatrixFactoryGate:
        return {"t": "base", "name": g.name, "params": _match_params(g.params, bspec, candidates),
                "nq": int(g.num_qubits), "herm": bool(g.is_hermitian)}
    if type(g) is G.ControlledGate:
        return {"t": "ctl", "k": int(g.num_control_qubits), "g": struct(g.wrapped_gate, bspec, candidates)}
    if type(g) is G.Dagger:
        return {"t": "dag", "g": struct(g.wrapped_gate, bspec, candidates)}
    if type(g) is G.Power:
        return {"t": "pow", "e": _exp_str(g.exponent), "g": struct(g.wrapped_gate, bspec, candidates)}
    if type(g) is G.Exponential:
        return {"t": "exp", "g": struct(g.wrapped_gate, bspec, candidates)}
    return {"t": "unknown:" + type(g).__name__}


def has_external(s):
    while isinstance(s, dict) and "g" in s:
        if s["t"] == "exp" or (s["t"] == "pow" and "/" in s["e"]):
            return True
        s = s["g"]
    return False


def has_fraction(s):
    while isinstance(s, dict) and "g" in s:
        if s["t"] == "pow" and "/" in s["e"]:
            return True
        s = s["g"]
    return False


def _poison(m):
    """the caller edits the object it got back (result poisoning): the gate must answer the same when asked again.
    Immutable results refuse the edit; that is fine."""
    try:
        n = m.shape[0]
        m[0, 0] = m[0, 0] + 3
        m[n - 1, 0] = m[n - 1, 0] - 2
    except Exception:
        pass


def eval_matrix(g, external):
    """numeric matrix of a real gate (JSON [[ [re, im], …], …]) or an error / timeout marker.  The object the library
    returned is converted first and then edited in place (see `_poison`)."""
    import sympy
    from sympy.matrices.common import MatrixError, NonInvertibleMatrixError
    _EVALS[0] += 1
    try:
        with time_limit(_LIMIT[0]):
            raw = g.matrix
            m = circ.impl_matrix_to_numpy(raw)
    except CaseTimeout:
        return {"timeout": True}
    except NonInvertibleMatrixError:
        return {"err": "err:noninv"}
    except TypeError:
        if external:
            return {"exterr": "TypeError"}
        return {"err": "err:type"}
    except (NotImplementedError, MatrixError, ValueError, ZeroDivisionError, AttributeError, RecursionError, IndexError) as e:
        if external:  # failure inside sympy's exp / fractional power routine (IndexError: jordan_form on a float matrix)
            return {"exterr": type(e).__name__}
        raise
    out = [[[float(x.real), float(x.imag)] for x in row] for row in m.tolist()]
    _poison(raw)
    return out


def describe_static(g, bspec, candidates):
    s = struct(g, bspec, candidates)
    return {"struct": s, "nq": int(g.num_qubits), "params": _match_params(g.params, bspec, candidates)}


def _eval_into(d, g, skip=False, reread=False):
    """fill d["m"] (and d["m2"]: the matrix asked for a second time, after the first answer was edited by the caller)"""
    if skip:
        d["m"] = {"timeout": True, "skipped": True}
        return
    ext = has_external(d["struct"])
    d["m"] = eval_matrix(g, ext)
    if reread and _is_mat(d["m"]):
        d["m2"] = eval_matrix(g, ext)


def _timed_out(d):
    return isinstance(d.get("m"), dict) and bool(d["m"].get("timeout"))


def _prefix_key(bspec, chain, i):
    return common.canon([bspec, [list(m) for m in chain[:i]]])


def _decoy_mod(mod, bspec):
    """the same modifier method with a DIFFERENT argument (same call for the argument-less ones): made on the same object
    right before the real call, result thrown away.  A gate is a value: what an earlier call on it returned or left behind
    must not influence the next call."""
    t = mod[0]
    if t in ("dagger", "exp"):
        return [t]
    if t == "controlled":
        return ["controlled", mod[1] + 1] if mod[1] >= 1 else None
    if t == "power":
        e = unrat(mod[1])
        return ["power", rat(e + 1)] if e.denominator == 1 else ["power", rat(Fraction(1, e.denominator + 1))]
    if t == "replace":
        ps = [p if isinstance(p, dict) else list(p) for p in mod[1]]
        if not ps:
            return ["replace", ps]
        if "gate" in bspec:
            if bspec["gate"] == "Delay":
                ps[0] = [rat(unrat(ps[0][0]) + Fraction(1, 4)), 0]
            elif unrat(ps[0][1]) != 0:
                ps[0] = [ps[0][0], rat(-unrat(ps[0][1]))]
            else:
                ps[0] = ["3/5", "4/5"] if unrat(ps[0][0]) != Fraction(3, 5) else ["4/5", "3/5"]
        else:
            ps[0] = {"v": [rat(unrat(ps[0]["v"][0]) + 1), ps[0]["v"][1]]}
        return ["replace", ps]
    return None


def _decoy_call(g, mod, bspec, with_matrix):
    dm = _decoy_mod(mod, bspec)
    if dm is None:
        return
    try:
        gd = apply_mod(g, dm, bspec)
    except ValueError:
        return
    nq = int(gd.num_qubits)
    tuple(gd.params)
    if with_matrix and nq <= 4 and not has_external(struct(gd, bspec, [])):
        eval_matrix(gd, True)  # looked at (and edited) like any other result; its value is not judged here


def run_one(run, tier="quick", shared=None):
    """one base gate + chain of modifier method calls on the REAL objects.

    order  "fwd": the matrix of every intermediate gate is read right after the gate was made (so every later modifier
                  is applied to an object whose matrix has already been looked at);
           "rev": all gates are made first, without any matrix access, then the matrices are read from the outermost
                  gate inwards.
    share  "none": every object is made afresh; "base": the base gate object is the one an earlier run of the same
           session made from the same spec; "all": so is every intermediate gate of an equal chain prefix (the matrices
           are then read again from the very same long-lived objects).
    reread  the matrix of every step (not only of the last one) is read twice.
    decoy   before every modifier call the same method is called on the same object with another argument (`_decoy_mod`).
    recheck structure / num_qubits / params of every gate made on the way are read once more at the end."""
    _LIMIT[0] = LIMITS.get(tier, 2.0)
    bspec, chain = run["base"], run["chain"]
    order, share = run.get("order", "fwd"), run.get("share", "none")
    reread_all = bool(run.get("reread"))
    shared = shared if shared is not None else {}
    candidates = [bspec["params"]] + [m[1] for m in chain if m[0] == "replace"]

    def obtain(i, make):
        key = _prefix_key(bspec, chain, i)
        if (share == "all" or (share == "base" and i == 0)) and key in shared:
            return shared[key]
        g = make()
        shared[key] = g
        return g

    n = len(chain)
    g = obtain(0, lambda: build_base(bspec))
    objs = [g]
    steps = [describe_static(g, bspec, candidates)]
    pending = []  # (step record, object, rebuilt object or None) whose matrices are still to be read (rev order)

    slow = shared.setdefault("__slow__", set())  # chain prefixes on which sympy already ran out of time in this session
    spent = shared.setdefault("__spent__", [0.0])  # seconds of matrix evaluation used by this session so far

    def read(d, obj, h, last, skip=False, idx=0):
        external = has_external(d["struct"])
        if any(_prefix_key(bspec, chain, j) in slow for j in range(idx + 1)):
            skip = True
        if len(slow) >= 2 or spent[0] > SESSION_BUDGET.get(tier, 3.0):
            _LIMIT[0] = min(_LIMIT[0], 0.2)  # a session that keeps running into sympy's slow paths is not given more time
        t_read = time.time()
        _eval_into(d, obj, skip=skip, reread=(reread_all or (last and not external)))
        spent[0] += time.time() - t_read
        if _timed_out(d) and not d["m"].get("skipped"):
            slow.add(_prefix_key(bspec, chain, idx))
        if h is not None:
            d["rebuilt"] = describe_static(h, bspec, candidates)
            _eval_into(d["rebuilt"], h, skip=_timed_out(d))

    if order == "fwd":
        read(steps[0], g, None, n == 0)
    else:
        pending.append((steps[0], g, None, n == 0, 0))
    applied = []
    for i, mod in enumerate(chain):
        if run.get("decoy"):
            _decoy_call(g, mod, bspec, with_matrix=(order == "fwd" and not _timed_out(steps[-1])))
        try:
            g2 = obtain(i + 1, lambda: apply_mod(g, mod, bspec))
        except ValueError as e:
            steps.append({"err": "err:value", "msg": str(e)[:80]})
            break
        d = describe_static(g2, bspec, candidates)
        h = None
        if mod[0] == "replace":
            # the other side of the last sentence: the same modifiers applied to the base built with the new parameters
            h = build_base(bspec, mod[1])
            for m2 in applied:
                h = apply_mod(h, m2, bspec)
            d["rebuilt_equal"] = bool(g2 == h)
            d["rebuilt_equal_rev"] = bool(h == g2)
            d["rebuilt_unequal"] = bool(g2 != h)
        else:
            applied.append(mod)
        last = i == n - 1
        if order == "fwd":
            # once sympy ran out of time on a prefix, every longer chain contains the same computation: not retried
            read(d, g2, h, last, skip=_timed_out(steps[-1]) and mod[0] != "replace", idx=i + 1)
        else:
            pending.append((d, g2, h, last, i + 1))
        steps.append(d)
        objs.append(g2)
        g = g2
    for d, obj, h, last, idx in reversed(pending):
        read(d, obj, h, last, idx=idx)
    if run.get("recheck"):
        # the gates made on the way must still be what they were: structure / num_qubits / params read once more at the end
        for d, obj in zip(steps, objs):
            d["static_again"] = describe_static(obj, bspec, candidates)
    return {"steps": steps}


def is_session(case):
    return str(case.get("kind", "")).startswith("session")


def case_runs(case):
    return case["runs"] if is_session(case) else [case]


def run_impl(case):
    tier = case.get("tier", "quick")
    if not is_session(case):
        return run_one(case, tier)
    shared = {}
    outs = []
    for run in case["runs"]:
        try:
            outs.append(run_one(run, tier, shared))
        except (CaseTimeout, KeyboardInterrupt):
            raise
        except Exception as e:  # judged by the oracle (an implementation that raises on an in-domain input)
            if type(e).__name__ == "Timeout":
                raise
            outs.append({"exc": type(e).__name__, "msg": str(e)[:200]})
    return {"runs": outs}


# ------------------------------------------------------------------ numeric helpers
def _np(m):
    import numpy as np
    return np.array([[complex(e[0], e[1]) for e in row] for row in m], dtype=complex)


def _is_mat(m):
    return isinstance(m, list)


def _close(a, b, tol=TOL):
    import numpy as np
    if a.shape != b.shape:
        return False
    if not (np.all(np.isfinite(a)) and np.all(np.isfinite(b))):
        return False
    scale = max(1.0, float(np.abs(a).max()), float(np.abs(b).max()))
    return bool(np.abs(a - b).max() <= tol * scale)


def _arity(bspec):
    return circ.BUILTIN_PARAMS[bspec["gate"]] if "gate" in bspec else bspec["nsyms"]


# ------------------------------------------------------------------ oracle: the property's sentences on the implementation only
def _base_label(bspec):
    if "gate" in bspec:
        return f"{bspec['gate']}{bspec['params']}"
    return f"custom {bspec['custom']} rows={bspec['rows']} params={bspec['params']}"


def oracle(case, out):
    if not is_session(case):
        return _oracle_run(case, out)
    if "runs" not in out:
        return ("impl-raise", f"implementation raised {out}")
    for j, (run, o) in enumerate(zip(case["runs"], out["runs"])):
        r = _oracle_run(run, o)
        if r is not None:
            return (r[0], f"run {j} of {len(case['runs'])} in one process (base {_base_label(run['base'])}, chain {run['chain']}, "
                          f"order={run.get('order', 'fwd')}, share={run.get('share', 'none')}; earlier runs of this session: "
                          f"{[[_base_label(x['base']), x['chain']] for x in case['runs'][:j]]}): {r[1]}")
    return None


def _sentence(t, mod, i, prev, cur, A, B, which):
    """the property's sentence for modifier `mod`: A = matrix of the original gate, B = matrix of the modified gate"""
    import numpy as np
    import scipy.linalg as sl
    if B.shape != (2 ** cur["nq"], 2 ** cur["nq"]):
        return (t + "-dimension", f"step {i} {mod}: {which} shape {B.shape} for {cur['nq']} qubits")
    if not (np.all(np.isfinite(A)) and np.all(np.isfinite(B))) or max(np.abs(A).max(), np.abs(B).max()) > 1e12:
        return None  # float overflow / total loss of precision (e.g. exp of a matrix with entries ~1e4): not judged
    if t == "dagger":
        if not _close(B, A.conj().T):
            sig = "power-fraction-dagger" if has_fraction(prev["struct"]) else "dagger-adjoint"
            return (sig, f"step {i}: {which} of {_show(cur['struct'])} is not the conjugate transpose of the matrix of "
                         f"{_show(prev['struct'])}")
    elif t == "controlled":
        k, n = mod[1], prev["nq"]
        d0 = 2 ** n * (2 ** k - 1)
        want = np.zeros((d0 + 2 ** n, d0 + 2 ** n), dtype=complex)
        want[:d0, :d0] = np.eye(d0)
        want[d0:, d0:] = A
        if not _close(B, want):
            return ("controlled-block", f"step {i}: controlled({k}) {which} is not identity on the first {d0} states followed by the original")
    elif t == "power":
        e = unrat(mod[1])
        if e.denominator == 1:
            n = int(e)
            if n >= 0:
                if not _close(B, np.linalg.matrix_power(A, n)):
                    return ("power-integer", f"step {i}: power({n}) {which} is not the {n}-fold product")
            else:
                P = np.linalg.matrix_power(A, -n)
                eye = np.eye(A.shape[0])
                # judged only where the float product is meaningful (the -n fold product is well conditioned)
                if np.all(np.isfinite(P)) and np.linalg.cond(P) < 1e6 and np.linalg.cond(A) < 1e6 \
                        and not (_close(B @ P, eye, 1e-7) and _close(P @ B, eye, 1e-7)):
                    return ("power-negative", f"step {i}: power({n}) {which} is not the inverse of the {-n}-fold product")
        elif e.numerator == 1 and e.denominator >= 2:
            if not _close(np.linalg.matrix_power(B, e.denominator), A, 1e-7):
                return ("power-root", f"step {i}: the {e.denominator}-th power of power(1/{e.denominator}) ({which}) is not the original matrix")
    elif t == "exp":
        # judge only where floating-point exp is meaningful: a generator of moderate norm and finite results
        # (exp of a matrix with entries ~1e4 overflows / loses all digits in BOTH implementations)
        if np.all(np.isfinite(A)) and np.linalg.norm(A, 2) <= 20:
            E = sl.expm(A)
            if np.all(np.isfinite(E)) and np.all(np.isfinite(B)) and not _close(B, E, 1e-7):
                return ("exp-matrix", f"step {i}: exp {which} is not the matrix exponential of the original")
    return None


def _oracle_run(case, out):
    import numpy as np
    if "steps" not in out:
        return ("impl-raise", f"implementation raised {out}")
    steps = out["steps"]
    bspec = case["base"]
    cur_params = bspec["params"]
    arity_ok = len(cur_params) == _arity(bspec) or bspec.get("gate") == "Delay"
    if _is_mat(steps[0].get("m")):
        d = len(steps[0]["m"])
        if d != 2 ** steps[0]["nq"]:
            return ("base-dimension", f"base gate reports {steps[0]['nq']} qubits but its matrix is {d}x{d}")
        if _is_mat(steps[0].get("m2")) and not _close(_np(steps[0]["m"]), _np(steps[0]["m2"])):
            return ("matrix-unstable", "the base gate's matrix, asked for twice (the first answer was edited in place by the "
                                       "caller in between), differs: there is no 'original matrix' for the modifiers to refer to")
    for i, mod in enumerate(case["chain"]):
        if i + 1 >= len(steps):
            return ("steps-missing", "implementation output has fewer steps than modifiers")
        prev, cur = steps[i], steps[i + 1]
        t = mod[0]
        if "struct" not in cur:  # the modifier call itself raised
            if t == "controlled" and mod[1] >= 1:
                return ("controlled-raise", f"controlled({mod[1]}) raised {cur}")
            if t != "controlled":
                return ("modifier-raise", f"{mod} raised {cur}")
            return None  # control count < 1: outside the quantifier, nothing more is reachable
        if t == "controlled" and mod[1] < 1:
            return None  # accepted only because counts add up (ControlledGate.controlled); outside the quantifier
        # ---- number of qubits and parameters
        want_nq = prev["nq"] + (mod[1] if t == "controlled" else 0)
        if cur["nq"] != want_nq:
            return (t + "-num-qubits", f"step {i} {mod}: num_qubits {cur['nq']}, implied {want_nq}")
        if t == "replace":
            cur_params = mod[1]
            arity_ok = len(cur_params) == _arity(bspec) or bspec.get("gate") == "Delay"
        if cur["params"] != cur_params:
            return (t + "-params", f"step {i} {mod}: params {cur['params']}, expected {cur_params}")
        # the same two questions asked again after all later modifier calls were made on these objects
        sa = prev.get("static_again")
        if i == 0 and sa is not None and (sa["nq"] != prev["nq"] or sa["params"] != prev["params"]):
            return ("original-changed", f"step {i} {mod}: after the modifier calls the ORIGINAL gate reports num_qubits/params "
                                        f"{sa['nq']}/{sa['params']} (before: {prev['nq']}/{prev['params']})")
        sa = cur.get("static_again")
        if sa is not None and sa["nq"] != want_nq:
            return (t + "-num-qubits", f"step {i} {mod}: num_qubits read again later {sa['nq']}, implied {want_nq}")
        if sa is not None and sa["params"] != cur_params:
            return (t + "-params", f"step {i} {mod}: params read again later {sa['params']}, expected {cur_params}")
        # ---- matrices
        A, B = prev.get("m"), cur.get("m")
        if t == "replace":
            if not cur.get("rebuilt_equal") or not cur.get("rebuilt_equal_rev", True) or cur.get("rebuilt_unequal", False):
                return ("replace-not-equal", f"step {i}: replace_params result != modifiers applied to the re-parameterised base "
                                             f"(a==b {cur.get('rebuilt_equal')}, b==a {cur.get('rebuilt_equal_rev')}, a!=b {cur.get('rebuilt_unequal')}): "
                                             f"{cur['struct']} vs {cur['rebuilt']['struct']}")
            rb = cur["rebuilt"]
            if rb["nq"] != cur["nq"] or rb["params"] != cur["params"]:
                return ("replace-not-equal", f"step {i}: rebuilt gate differs in num_qubits/params")
            for which in ("m", "m2"):
                Bw = cur.get(which)
                if _is_mat(Bw) and _is_mat(rb["m"]) and not _close(_np(Bw), _np(rb["m"])):
                    return ("replace-matrix", f"step {i}: matrix after replace_params{' (second reading)' if which == 'm2' else ''} "
                                              f"differs from the rebuilt gate's matrix")
            if arity_ok and isinstance(B, dict) and B.get("err") == "err:type":
                return ("matrix-raise", f"step {i}: matrix raised TypeError with the right number of parameters")
            continue
        if not (_is_mat(A) and _is_mat(B)):
            if _is_mat(A) and isinstance(B, dict) and B.get("err") == "err:type" and arity_ok:
                return ("matrix-raise", f"step {i} {mod}: matrix raised TypeError")
            if _is_mat(A) and isinstance(B, dict) and B.get("err") == "err:noninv":
                if abs(np.linalg.det(_np(A))) > 1e-6:
                    return ("matrix-raise", f"step {i} {mod}: NonInvertibleMatrixError on an invertible matrix")
            continue  # timeouts / failures inside sympy's routines are counted, not judged
        # the sentence must hold for every reading of the two matrices (m2 = asked again after the caller edited the first answer)
        for wa, Aw in (("m", A), ("m2", prev.get("m2"))):
            if not _is_mat(Aw):
                continue
            for wb, Bw in (("m", B), ("m2", cur.get("m2"))):
                if not _is_mat(Bw):
                    continue
                which = "matrix" if (wa, wb) == ("m", "m") else \
                    f"matrix ({'second' if wb == 'm2' else 'first'} reading; original: {'second' if wa == 'm2' else 'first'} reading)"
                r = _sentence(t, mod, i, prev, cur, _np(Aw), _np(Bw), which)
                if r is not None:
                    return r
    return None


def _show(s):
    if not isinstance(s, dict):
        return str(s)
    t = s.get("t")
    if t == "base":
        return s["name"]
    if t == "ctl":
        return f"C{s['k']}[{_show(s['g'])}]"
    if t == "dag":
        return f"Dagger[{_show(s['g'])}]"
    if t == "pow":
        return f"Power[{_show(s['g'])},{s['e']}]"
    if t == "exp":
        return f"Exp[{_show(s['g'])}]"
    return str(t)


# ------------------------------------------------------------------ model requests (externals resolved through a table)
def _cyc_of_rat(x):
    return [rat(unrat(x)), 0, 0, 0]


def _model_params(params):
    return [p if isinstance(p, dict) else [rat(unrat(p[0])), rat(unrat(p[1]))] for p in params]


def _payload(case, table):
    b = dict(case["base"])
    b["params"] = _model_params(b["params"])
    chain = []
    for m in case["chain"]:
        if m[0] == "replace":
            chain.append(["replace", _model_params(m[1])])
        elif m[0] == "power":
            chain.append(["power", rat(unrat(m[1]))])
        else:
            chain.append(list(m))
    return {"base": b, "chain": chain, "table": table}


def _dyadic(x):
    return rat(Fraction(round(x * 2 ** 44), 2 ** 44))


def _to_cyc_matrix(a):
    return [[[_dyadic(float(z.real)), 0, _dyadic(float(z.imag)), 0] for z in row] for row in a.tolist()]


def _resolve(need, flags):
    """value of an external on the exact argument the model asks for (scipy, principal branch)"""
    import numpy as np
    import scipy.linalg as sl
    A = circ.model_matrix_to_numpy(need["arg"])
    entry = {"fn": need["fn"], "arg": need["arg"], "e": need["e"]}
    try:
        with np.errstate(all="ignore"):
            if need["fn"] == "exp":
                V = sl.expm(A)
            else:
                e = unrat(need["e"])
                ev = np.linalg.eigvals(A)
                if np.any((ev.real < 0) & (np.abs(ev.imag) <= 1e-6 * np.maximum(np.abs(ev), 1e-300))):
                    flags["ambiguous"] = True  # eigenvalue on the branch cut: float noise decides the branch
                if np.any(np.abs(ev) < 1e-9):
                    raise ValueError("singular")
                V = sl.fractional_matrix_power(A, float(e))
        V = np.asarray(V, dtype=complex)
        if not np.all(np.isfinite(V)) or np.abs(V).max() > 1e9:
            raise ValueError("non-finite")
        entry["val"] = _to_cyc_matrix(V)
    except Exception as ex:  # the external could not be evaluated: the model reports it as an external failure
        entry["err"] = type(ex).__name__
        flags["unresolved"] = True
    return entry


_REQ_CACHE = {}
_GENERATED = []  # the cases handed out by corpus() / generate(): their external tables are resolved in one batch


def _run_key(run):
    return common.canon([run["base"], run["chain"]])


def _needs_external(run):
    return any(m[0] == "exp" or (m[0] == "power" and unrat(m[1]).denominator != 1) for m in run["chain"])


def _prefetch(runs):
    """fill _REQ_CACHE for the given runs.  Runs with externals need a few rounds with the driver (it names the argument
    matrix of every exp / non-integer power it meets, scipy supplies the value); all runs share one driver call per round."""
    todo = {}
    for run in runs:
        key = _run_key(run)
        if key in _REQ_CACHE or key in todo:
            continue
        _FLAGS[key] = {"ambiguous": False, "unresolved": False}
        if _needs_external(run):
            todo[key] = {"run": run, "table": [], "seen": set()}
        else:
            _REQ_CACHE[key] = [("chain", _payload(run, []))]
    drv = common.Driver(PROP)
    active = list(todo)
    for _ in range(8):
        if not active:
            break
        resps = drv.run([("chain", _payload(todo[k]["run"], todo[k]["table"])) for k in active])
        nxt = []
        for k, resp in zip(active, resps):
            if not isinstance(resp, list):
                continue
            new = []
            for st in resp:
                nd = st.get("m", {}).get("need") if isinstance(st.get("m"), dict) else None
                if nd is not None:
                    kk = common.canon(nd)
                    if kk not in todo[k]["seen"]:
                        todo[k]["seen"].add(kk)
                        new.append(nd)
            if new:
                todo[k]["table"].extend(_resolve(nd, _FLAGS[k]) for nd in new)
                nxt.append(k)
        active = nxt
    for k, v in todo.items():
        _REQ_CACHE[k] = [("chain", _payload(v["run"], v["table"]))]


def _requests_run(run):
    key = _run_key(run)
    if key not in _REQ_CACHE:
        pending = [r for c in _GENERATED for r in case_runs(c)]
        del _GENERATED[:]
        _prefetch(pending + [run])
    return _REQ_CACHE[key]


def requests(case, out):
    """one `chain` request per run (a session is answered run by run: the model is a pure function of base + chain, which is
    exactly what the property says the implementation must be)"""
    return [r for run in case_runs(case) for r in _requests_run(run)]


def _norm_model_params(ps):
    out = []
    for p in ps:
        if isinstance(p, dict):
            a, b, c, d = p["v"]
            out.append({"v": [a, c]} if (unrat(b) == 0 and unrat(d) == 0) else {"v": p["v"]})
        else:
            out.append([p[0][0], p[1][0]] if all(unrat(x) == 0 for x in p[0][1:] + p[1][1:]) else p)
    return out


def _norm_params(ps):
    if isinstance(ps, dict):
        return ps
    return [({"v": [rat(unrat(p["v"][0])), rat(unrat(p["v"][1]))]} if isinstance(p, dict)
             else [rat(unrat(p[0])), rat(unrat(p[1]))]) for p in ps]


def _norm_struct(s, model):
    if not isinstance(s, dict):
        return s
    s = dict(s)
    if s.get("t") == "base":
        s["params"] = _norm_model_params(s["params"]) if model else _norm_params(s["params"])
        if model:
            s["params"] = _norm_params(s["params"])
    if "g" in s:
        s["g"] = _norm_struct(s["g"], model)
    return s


def _roots_lawful(run, isteps):
    """every non-integer power step of the implementation satisfies the root law on the implementation's own matrices"""
    import numpy as np
    ok = False
    for i, mod in enumerate(run["chain"]):
        if mod[0] != "power" or i + 1 >= len(isteps):
            continue
        e = unrat(mod[1])
        if e.denominator == 1:
            continue
        if e.numerator != 1:
            return False
        A, B = isteps[i].get("m"), isteps[i + 1].get("m")
        if not (_is_mat(A) and _is_mat(B)):
            continue
        if not _close(np.linalg.matrix_power(_np(B), e.denominator), _np(A), 1e-7):
            return False
        ok = True
    return ok


def compare(case, out, resp):
    if not is_session(case):
        return _compare_run(case, out, resp[0])
    if "runs" not in out:
        return None  # the oracle already fails this case
    for j, (run, o, r) in enumerate(zip(case["runs"], out["runs"], resp)):
        msg = _compare_run(run, o, r)
        if msg:
            return f"session run {j} ({_base_label(run['base'])} {run['chain']}): {msg}"
    return None


def _compare_run(case, out, r):
    if isinstance(r, dict) and "driver_error" in r:
        return "driver error: " + r["driver_error"]
    if "steps" not in out:
        return None  # the oracle already fails this case
    flags = _FLAGS.get(_run_key(case), {})
    isteps = out["steps"]
    if len(isteps) != len(r):
        return f"implementation produced {len(isteps)} steps, model {len(r)}: impl {isteps[-1] if isteps else None} model {r[-1] if r else None}"
    for i, (a, b) in enumerate(zip(isteps, r)):
        what = "base" if i == 0 else f"step {i - 1} {case['chain'][i - 1]}"
        if "struct" not in a or "struct" not in b:
            if a.get("err") != b.get("err"):
                return f"{what}: impl {a} model {b}"
            continue
        sb = _norm_struct(b["struct"], True)
        pb = _norm_params(_norm_model_params(b["params"]))
        for tag, aa in (("", a), (" (read again at the end)", a.get("static_again"))):
            if aa is None:
                continue
            sa = _norm_struct(aa["struct"], False)
            if sa != sb:
                return f"{what}{tag}: object structure differs: impl {common.canon(sa)} model {common.canon(sb)}"
            if aa["nq"] != b["nq"]:
                return f"{what}{tag}: num_qubits impl {aa['nq']} model {b['nq']}"
            pa = _norm_params(aa["params"])
            if pa != pb:
                return f"{what}{tag}: params impl {pa} model {pb}"
        mb = b["m"]
        for tag, ma in (("", a["m"]), (" (second reading)", a.get("m2"))):
            if ma is None:
                continue
            if _is_mat(ma) and _is_mat(mb):
                A, B = _np(ma), circ.model_matrix_to_numpy(mb)
                if not _close(A, B):
                    if has_fraction(a["struct"]) and (flags.get("ambiguous") or _roots_lawful(case, isteps)):
                        # a q-th root is not unique: eigenvalue on the branch cut (float noise decides), or sympy rewrote
                        # (M**2)**(1/6) as M**(1/3) (a root, but not the principal one the table holds).  The model only assumes
                        # the root LAW (ExtLaws.root); the oracle checks that law on the implementation's own matrices.
                        _SUPPRESSED[0] += 1
                        continue
                    return f"{what}{tag}: matrix differs: impl {ma} model {B.round(9).tolist()}"
            elif isinstance(ma, dict) and isinstance(mb, dict):
                if "err" in ma or "err" in mb:
                    if ma.get("err") != mb.get("err") and not ("timeout" in ma or "exterr" in ma or "exterr" in mb or "need" in mb):
                        return f"{what}{tag}: matrix error impl {ma} model {mb}"
            else:
                d = ma if isinstance(ma, dict) else mb
                if "err" in d:
                    return f"{what}{tag}: one side raised {d}, the other returned a matrix"
                # timeout / external failure on one side only: counted in the evidence, not comparable
    return None


# ------------------------------------------------------------------ generators
HERMITIAN = ["X", "Y", "Z", "H", "I", "GPi", "CNOT", "CZ", "SWAP", "Delay"]
_counter = [0]


def _gauss_rows(rng, k, syms=0, lo=-2, hi=2):
    d = 2 ** k
    rows = [[[rng.randrange(lo, hi + 1), rng.randrange(lo, hi + 1)] for _ in range(d)] for _ in range(d)]
    for s in range(syms):
        rows[rng.randrange(d)][rng.randrange(d)] = {"sym": s}
    if syms:  # every symbol must occur
        present = {e["sym"] for row in rows for e in row if isinstance(e, dict)}
        for s in range(syms):
            if s not in present:
                rows[s % d][(s + 1) % d] = {"sym": s}
    return rows


def _val(rng):
    return {"v": [rat(Fraction(rng.randrange(-6, 7), rng.choice([1, 2, 4]))), rat(Fraction(rng.randrange(-6, 7), rng.choice([1, 2, 4])))]}


def _params_for(rng, bspec, axis_prob=0.1):
    if "gate" in bspec:
        n = circ.BUILTIN_PARAMS[bspec["gate"]]
        if bspec["gate"] == "Delay":
            return [[rat(Fraction(rng.randrange(0, 16), 4)), 0]]
        return [circ.rat_angle(rng, axis_prob) for _ in range(n)]
    return [_val(rng) for _ in range(bspec["nsyms"])]


def _random_base(rng, max_q, axis_prob=0.1, custom_prob=0.3, small_custom=False):
    if rng.random() < custom_prob:
        k = 1 if (small_custom or max_q < 2) else rng.choice([1, 1, 2])
        syms = rng.choice([0, 0, 1, 2])
        _counter[0] += 1
        b = {"custom": f"cg{_counter[0]}", "rows": _gauss_rows(rng, k, syms), "nsyms": syms}
    else:
        names = [n for n in circ.BUILTIN_PARAMS if circ.BUILTIN_QUBITS[n] <= max_q]
        b = {"gate": rng.choice(names)}
    b["params"] = _params_for(rng, b, axis_prob)
    return b


def _base_nq(b):
    return circ.BUILTIN_QUBITS[b["gate"]] if "gate" in b else int(math.log2(len(b["rows"])))


def _random_chain(rng, base, depth, max_total, externals):
    """modifier chain keeping the total number of qubits <= max_total; exp / fractional powers only on <= 2 qubits"""
    nq = _base_nq(base)
    chain = []
    ext_used = 0
    for _ in range(depth):
        kinds = ["dagger", "dagger", "power", "power", "controlled", "replace"]
        if nq < max_total:
            kinds.append("controlled")
        if externals and nq <= 2 and ext_used < 2:
            kinds += ["exp", "exp", "frac", "frac"]
        t = rng.choice(kinds)
        if t == "controlled":
            if nq >= max_total:
                t = "dagger"
            else:
                n = rng.randrange(1, min(3, max_total - nq) + 1)
                chain.append(["controlled", n])
                nq += n
                continue
        if t == "dagger":
            chain.append(["dagger"])
        elif t == "power":
            chain.append(["power", rng.choice([-3, -2, -1, 0, 1, 2, 3, 2, -1])])
        elif t == "frac":
            chain.append(["power", f"1/{rng.choice([2, 2, 3, 4])}"])
            ext_used += 1
        elif t == "exp":
            chain.append(["exp"])
            ext_used += 1
        elif t == "replace":
            chain.append(["replace", _params_for(rng, base)])
    return chain


# ------------------------------------------------------------------ sessions: sibling runs on long-lived objects
# gates on which sympy's exp / fractional power / integer power of the exp return in well under 0.3 s
FAST0 = ["X", "Y", "Z", "H", "S", "I", "SX", "CNOT", "CZ", "SWAP", "ISWAP"]
FAST1 = ["RZ", "PHASE", "RY", "RX", "GPi", "CPHASE"]
# ... and on which Matrix.exp() does too (measured at random rational angles; RZ / PHASE / CPHASE / RX / SX / ISWAP do not)
EXP0 = ["X", "Y", "Z", "H", "S", "I", "CZ", "CNOT"]
EXP1 = ["RY", "GPi"]
NO_NAME_SIBLING = ("U3", "MS", "Delay")


def _is_ext_mod(m):
    return m[0] == "exp" or (m[0] == "power" and unrat(m[1]).denominator != 1)


def _run_ok(run, max_total=4):
    """size discipline of every generated run: total <= max_total qubits; exp / non-integer powers only while the gate has
    <= 2 qubits, at most two of them, never a non-integer power of something that contains an exp (sympy does not return)"""
    nq = _base_nq(run["base"])
    ext = 0
    seen_exp = False
    for m in run["chain"]:
        if m[0] == "controlled":
            if m[1] < 1:
                return False
            nq += m[1]
        if _is_ext_mod(m):
            ext += 1
            if nq > 2 or ext > 2:
                return False
            if m[0] == "exp":
                if seen_exp:
                    return False
                seen_exp = True
            elif seen_exp:
                return False
        if m[0] == "replace" and len(m[1]) != len(run["base"]["params"]):
            return False
    return nq <= max_total


def _has_ext(run):
    return any(_is_ext_mod(m) for m in run["chain"])


def _near_angle(a):
    """an angle that differs from `a` by about 1e-6 relative: equal for every tolerant comparison (np.allclose in
    MatrixFactoryGate.__eq__), different for the matrix (entries move by ~5e-7, tolerance of this check 1e-8)"""
    ch, sh = unrat(a[0]), unrat(a[1])
    # t = tan(theta/4) of the half-angle point; perturb it by 2^-20 relative and map back to the circle (exact rationals)
    if ch == -1:
        return None
    t = sh / (1 + ch)
    if t == 0:
        t2 = Fraction(1, 2 ** 20)
    else:
        t2 = t * (1 + Fraction(1, 2 ** 20))
    return [rat((1 - t2 * t2) / (1 + t2 * t2)), rat(2 * t2 / (1 + t2 * t2))]


def _vary_param_list(rng, bspec, params):
    """the same parameter list with exactly one entry changed (or two entries exchanged)"""
    if not params:
        return None
    ps = [p if isinstance(p, dict) else list(p) for p in params]
    j = rng.randrange(len(ps))
    if "gate" in bspec:
        if bspec["gate"] == "Delay":
            ps[j] = [rat(unrat(ps[j][0]) + Fraction(rng.randrange(1, 8), 4)), 0]
            return ps
        r = rng.random()
        if r < 0.25:
            ps[j] = [ps[j][0], rat(-unrat(ps[j][1]))]          # theta -> -theta
        elif r < 0.45:
            ps[j] = [rat(-unrat(ps[j][0])), rat(-unrat(ps[j][1]))]  # theta -> theta +- 2 pi (matrix changes sign for rotations)
        elif r < 0.65:
            near = _near_angle(ps[j])
            ps[j] = near if near is not None else circ.rat_angle(rng, 0.0)
        elif r < 0.8 and len(ps) > 1:
            k = (j + 1) % len(ps)
            ps[j], ps[k] = ps[k], ps[j]
        else:
            ps[j] = circ.rat_angle(rng, 0.2)
    else:
        v = ps[j]["v"]
        ps[j] = {"v": [rat(unrat(v[0]) + rng.choice([-1, 1, Fraction(1, 2)])), v[1]]} if rng.random() < 0.5 else \
            {"v": [v[0], rat(unrat(v[1]) + rng.choice([-1, 1, Fraction(1, 4)]))]}
    return ps if ps != params else None


def _v_name(rng, run, fast):
    """another gate under the same modifiers: a different built-in with the same parameters; for custom gates a second
    definition with the SAME NAME and one matrix entry changed, or the same matrix under another name"""
    b = run["base"]
    if "gate" in b:
        if b["gate"] in NO_NAME_SIBLING:
            return None
        ar = circ.BUILTIN_PARAMS[b["gate"]]
        pool = [n for n in circ.BUILTIN_PARAMS if circ.BUILTIN_PARAMS[n] == ar and n != b["gate"] and n not in NO_NAME_SIBLING
                and (not fast or n in ((EXP0 + EXP1) if any(m[0] == "exp" for m in run["chain"]) else (FAST0 + FAST1)))]
        if not pool:
            return None
        nb = dict(b, gate=rng.choice(pool))
    else:
        r = rng.random()
        if r < 0.25:
            # same name, same symbols, another SIZE: 2x2 -> block diag(M, M with its symbols set to 1); 4x4 -> its top-left block
            rows = [[e if isinstance(e, dict) else list(e) for e in row] for row in b["rows"]]
            if len(rows) == 2:
                z = [0, 0]
                lower = [[[1, 0] if isinstance(e, dict) else list(e) for e in row] for row in rows]
                rows = [rows[0] + [z, z], rows[1] + [z, z], [z, z] + lower[0], [z, z] + lower[1]]
            else:
                rows = [row[:2] for row in rows[:2]]
                if {e["sym"] for row in rows for e in row if isinstance(e, dict)} != set(range(b["nsyms"])):
                    return None
            nb = dict(b, rows=rows)
        elif r < 0.8:
            rows = [[e if isinstance(e, dict) else list(e) for e in row] for row in b["rows"]]
            consts = [(i, j) for i, row in enumerate(rows) for j, e in enumerate(row) if not isinstance(e, dict)]
            if not consts:
                return None
            i, j = rng.choice(consts)
            rows[i][j] = [rows[i][j][0] + rng.choice([-1, 1]), rows[i][j][1] + rng.choice([0, 0, 1])]
            nb = dict(b, rows=rows)
        else:
            nb = dict(b, custom=b["custom"] + "_alias")
    return dict(run, base=nb)


def _v_params(rng, run, fast):
    ps = _vary_param_list(rng, run["base"], run["base"]["params"])
    return None if ps is None else dict(run, base=dict(run["base"], params=ps))


def _v_near(rng, run, fast):
    """one parameter moved by a relative 1e-6: equal for every tolerant comparison, a different matrix"""
    b = run["base"]
    if "gate" not in b or not b["params"] or b["gate"] == "Delay":
        return None
    ps = [list(p) for p in b["params"]]
    j = rng.randrange(len(ps))
    near = _near_angle(ps[j])
    if near is None:
        return None
    ps[j] = near
    return dict(run, base=dict(b, params=ps))


def _v_arg(rng, run, fast):
    """one modifier's argument changed: control count, exponent, replacement parameters"""
    idx = [i for i, m in enumerate(run["chain"]) if len(m) > 1]
    if not idx:
        return None
    i = rng.choice(idx)
    m = list(run["chain"][i])
    if m[0] == "controlled":
        m[1] = rng.choice([k for k in (1, 2, 3) if k != m[1]])
    elif m[0] == "power":
        e = unrat(m[1])
        if e.denominator == 1:
            opts = [-e, e + 1, e - 1, 2 * e, 0]
            if fast and 2 <= abs(e) <= 4:
                opts.append(Fraction(1, int(abs(e))))
            opts = [o for o in opts if o != e]
        else:
            opts = [Fraction(1, q) for q in (2, 3, 4, 5) if Fraction(1, q) != e] + [Fraction(e.denominator)]
        m = ["power", rat(rng.choice(opts))] + m[2:]
    elif m[0] == "replace":
        ps = _vary_param_list(rng, run["base"], m[1])
        if ps is None:
            return None
        m[1] = ps
    return dict(run, chain=run["chain"][:i] + [m] + run["chain"][i + 1:])


def _v_struct(rng, run, fast):
    """one modifier inserted, removed, or two neighbours exchanged"""
    ch = [list(m) for m in run["chain"]]
    r = rng.random()
    if r < 0.45 or not ch:
        new = rng.choice([["dagger"], ["dagger"], ["controlled", 1], ["power", rng.choice([-1, 2, 3])]] + ([["exp"]] if fast else []))
        ch.insert(rng.randrange(len(ch) + 1), new)
    elif r < 0.7:
        ch.pop(rng.randrange(len(ch)))
    elif len(ch) >= 2:
        i = rng.randrange(len(ch) - 1)
        ch[i], ch[i + 1] = ch[i + 1], ch[i]
    else:
        return None
    return dict(run, chain=ch)


def _v_exptype(rng, run, fast):
    """an integer exponent handed over as a Python float (2 -> 2.0): same gate, same matrix expected"""
    idx = [i for i, m in enumerate(run["chain"]) if m[0] == "power" and unrat(m[1]).denominator == 1 and len(m) == 2]
    if not idx:
        return None
    i = rng.choice(idx)
    return dict(run, chain=run["chain"][:i] + [run["chain"][i] + ["f"]] + run["chain"][i + 1:])


VARIATIONS = [_v_name, _v_name, _v_params, _v_near, _v_near, _v_arg, _v_arg, _v_struct, _v_exptype]


def _session(rng, seed, fast, tier, n_variants):
    """[seed run, siblings that differ from it in exactly one component ..., seed run again], all in one process on shared
    prototypes / gate definitions (and, per `share`, on the same gate objects)"""
    max_total = 4
    variants, tried = [], 0
    ops = list(VARIATIONS)
    forced = [_v_name, rng.choice([_v_params, _v_near, _v_arg])]  # every session has a same-shape sibling with another gate
    while len(variants) < n_variants and tried < 40:
        tried += 1
        op = forced.pop(0) if forced and tried <= 8 + len(variants) * 4 and len(variants) < 2 else rng.choice(ops)
        v = op(rng, seed, fast)
        if v is None and op in (_v_name, _v_params, _v_near) and tried < 8:
            forced.insert(0, op)  # a few more attempts (random choices inside), then give up on it
        if v is None or not _run_ok(v, max_total) or (not fast and _has_ext(v)):
            continue
        if any(_run_key(v) == _run_key(w) for w in variants + [seed]):
            continue
        variants.append(v)
    share = rng.choice(["none", "base", "all", "all"])
    runs = []
    for k, r in enumerate([seed] + variants + [seed]):
        runs.append({"base": r["base"], "chain": r["chain"], "order": "fwd" if (k == 0 or rng.random() < 0.65) else "rev",
                     "share": share, "reread": bool(rng.random() < 0.5), "recheck": True, "decoy": bool(rng.random() < 0.5)})
    return {"kind": "session-ext" if fast else "session", "runs": runs, "tier": tier}


def _int_seed_run(rng):
    base = _random_base(rng, 2, custom_prob=0.3)
    if "gate" in base and rng.random() < 0.5:
        # parametric built-ins are where a key made of too few components collides
        base = {"gate": rng.choice([n for n in circ.BUILTIN_PARAMS if circ.BUILTIN_PARAMS[n] > 0 and n != "RH"])}
        base["params"] = _params_for(rng, base, 0.15)
    for _ in range(20):
        chain = _random_chain(rng, base, rng.choice([1, 2, 2, 3]), 3, False)
        if base["params"] and rng.random() < 0.35:
            chain = list(chain)
            chain.insert(rng.randrange(1, len(chain) + 1) if chain else 0, ["replace", _params_for(rng, base, 0.1)])
        run = {"base": base, "chain": chain}
        if chain and _run_ok(run, 3):
            return run
    return {"base": base, "chain": [["dagger"]]}


EXT_PATTERNS = [
    [["exp"], ["power", "n"]], [["exp"], ["power", "n"]], [["exp"], ["dagger"]], [["exp"], ["controlled", 1]],
    [["exp"], ["power", "n"], ["controlled", 1]], [["exp"], ["power", "n"], ["dagger"]], [["dagger"], ["exp"], ["power", "n"]],
    [["power", "1/q"]], [["power", "1/q"], ["controlled", 1]], [["power", "1/q"], ["power", "n"]], [["power", "n"], ["exp"]],
    [["controlled", 1], ["exp"]], [["controlled", 1], ["exp"], ["power", "n"]], [["exp"], ["replace"], ["power", "n"]],
    [["power", "1/q"], ["replace"]], [["exp"], ["controlled", 1], ["power", "n"]],
    [["exp"], ["replace"]], [["exp"], ["dagger"], ["replace"]], [["exp"], ["controlled", 1], ["replace"]],
    [["power", "n"], ["exp"], ["replace"]], [["power", "1/q"], ["controlled", 1], ["replace"]],
]


def _ext_seed_run(rng):
    for _ in range(40):
        pat = rng.choice(EXT_PATTERNS)
        needs_params = any(m[0] == "replace" for m in pat)
        ctl_first = pat[0][0] == "controlled"
        has_exp = any(m[0] == "exp" for m in pat)
        pool0, pool1 = (EXP0, EXP1) if has_exp else (FAST0, FAST1)
        if (needs_params and rng.random() < 0.7) or (not needs_params and rng.random() < 0.45):
            base = {"gate": rng.choice([n for n in pool1 if not (ctl_first and circ.BUILTIN_QUBITS[n] > 1)])}
        elif needs_params or rng.random() < 0.2:
            _counter[0] += 1
            syms = 1 if needs_params else rng.choice([0, 1])
            base = {"custom": f"sg{_counter[0]}", "rows": _diagish_rows(rng, syms), "nsyms": syms}
        else:
            base = {"gate": rng.choice([n for n in pool0 if not (ctl_first and circ.BUILTIN_QUBITS[n] > 1)])}
        base["params"] = _params_for(rng, base, 0.0)
        chain = []
        for m in pat:
            if m[0] == "power" and m[1] == "n":
                chain.append(["power", rng.choice([-2, -1, 2, 3, 2, -1])])
            elif m[0] == "power":
                chain.append(["power", f"1/{rng.choice([2, 2, 3, 4, 5])}"])
            elif m[0] == "replace":
                chain.append(["replace", _params_for(rng, base, 0.0)])
            else:
                chain.append(list(m))
        run = {"base": base, "chain": chain}
        if _run_ok(run, 3):
            return run
    return {"base": {"gate": "Z", "params": []}, "chain": [["exp"], ["power", 2]]}


def _diagish_rows(rng, syms):
    """2x2 triangular Gaussian-integer matrix with non-zero diagonal (sympy's exp / roots of it return quickly)"""
    a, d = rng.choice([1, 2, -1, 3]), rng.choice([1, 2, -2, 3])
    rows = [[[a, rng.choice([0, 1])], [rng.choice([0, 1, 2]), 0]], [[0, 0], [d, rng.choice([0, -1])]]]
    if syms:
        rows[0][1] = {"sym": 0}
    return rows


# ------------------------------------------------------------------ exotic but legal inputs
def _exotic_cases(rng, tier, n_pow, n_ctl, n_root):
    out = []
    for _ in range(n_pow):  # large exponents, integer exponents handed over as floats
        base = _random_base(rng, 2, custom_prob=0.2)
        if rng.random() < 0.5:
            e = rng.choice([4, 5, 6, 7, 8, 9, 12, -4, -5, -6, -8, -11] if "gate" in base else [4, 5, 6, -4, -5])
            mod = ["power", e] + (["f"] if rng.random() < 0.3 else [])
        else:
            mod = ["power", rng.choice([-3, -2, -1, 0, 1, 2, 3]), "f"]
        pre = rng.choice([[], [], [["dagger"]], [["controlled", 1]], [["replace", _params_for(rng, base)]]])
        post = rng.choice([[], [], [["dagger"]], [["controlled", 1]], [["power", 2]], [["replace", _params_for(rng, base)]]])
        out.append({"kind": "exotic", "base": base, "chain": pre + [mod] + post, "tier": tier})
    for _ in range(n_ctl):  # many controls (up to 6 qubits in total)
        base = _random_base(rng, 1, custom_prob=0.2, small_custom=True)
        chain = rng.choice([
            [["controlled", 4]], [["controlled", 5]], [["controlled", 2], ["controlled", 3]], [["dagger"], ["controlled", 4]],
            [["power", -2], ["controlled", 4]], [["controlled", 4], ["dagger"]], [["controlled", 3], ["controlled", 1], ["power", 2]],
            [["controlled", 1], ["controlled", 1], ["controlled", 2], ["dagger"]], [["power", 3], ["controlled", 5], ["dagger"]],
            [["controlled", 4], ["replace", _params_for(rng, base)]]])
        out.append({"kind": "exotic", "base": base, "chain": chain, "tier": tier})
    for _ in range(n_root):  # unit fractions beyond 1/4
        name = rng.choice(["X", "Y", "Z", "H", "S", "T", "CZ", "CNOT", "SWAP", "ISWAP", "RZ", "PHASE", "RX", "RY", "GPi", "CPHASE", "ZZ"])
        base = {"gate": name}
        base["params"] = _params_for(rng, base, 0.0)
        q = rng.choice([5, 6, 7, 8, 9, 16])
        pre = rng.choice([[], [], [["dagger"]], [["power", 2]]])
        post = rng.choice([[], [], [["controlled", 1]], [["power", q]], [["replace", _params_for(rng, base, 0.0)]]])
        out.append({"kind": "exotic", "base": base, "chain": pre + [["power", f"1/{q}"]] + post, "tier": tier})
    return out


# ------------------------------------------------------------------ parameter values at which the matrix happens to be special
AXIS = [[1, 0], [0, 1], [-1, 0], [0, -1]]


def _herm_custom(rng):
    """parametric custom gate + parameter values at which its matrix is self-adjoint (and generic ones at which it is not)"""
    d = 2
    H = [[None] * d for _ in range(d)]
    for i in range(d):
        H[i][i] = [rng.randrange(-2, 3), 0]
        for j in range(i + 1, d):
            re, im = rng.randrange(-2, 3), rng.randrange(-2, 3)
            H[i][j], H[j][i] = [re, im], [re, -im]
    nsyms = rng.choice([1, 1, 2])
    pos = rng.sample([(i, j) for i in range(d) for j in range(d)], nsyms)
    special, generic = [], []
    G = [[complex(*e) for e in row] for row in H]
    for s, (i, j) in enumerate(pos):
        special.append({"v": [H[i][j][0], H[i][j][1]]})
        gv = [H[i][j][0] + Fraction(rng.choice([-3, -1, 1, 2, 3]), rng.choice([1, 2])),
              H[i][j][1] + Fraction(rng.choice([-2, -1, 1, 3]), rng.choice([1, 2, 4]))]
        generic.append({"v": [rat(gv[0]), rat(gv[1])]})
        G[i][j] = complex(float(gv[0]), float(gv[1]))
    S = [[complex(*e) for e in row] for row in H]
    if abs(S[0][0] * S[1][1] - S[0][1] * S[1][0]) < 0.5 or abs(G[0][0] * G[1][1] - G[0][1] * G[1][0]) < 0.05:
        return _herm_custom(rng)  # negative powers of singular matrices belong to the malformed stream
    for s, (i, j) in enumerate(pos):
        H[i][j] = {"sym": s}
    _counter[0] += 1
    return {"custom": f"hg{_counter[0]}", "rows": H, "nsyms": nsyms}, special, generic


SPECIAL_PATTERNS = [
    ("S", [["dagger"], ["replace", "G"]]), ("S", [["replace", "G"], ["dagger"]]),
    ("S", [["controlled", 1], ["dagger"], ["replace", "G"]]), ("S", [["dagger"], ["controlled", 2], ["replace", "G"]]),
    ("S", [["power", 2], ["dagger"], ["replace", "G"]]), ("S", [["replace", "G"], ["power", -1], ["dagger"]]),
    ("S", [["dagger"], ["power", -1], ["replace", "G"]]), ("S", [["controlled", 1], ["replace", "G"], ["dagger"]]),
    ("G", [["replace", "S"], ["dagger"]]), ("G", [["dagger"], ["replace", "S"]]),
    ("G", [["dagger"], ["replace", "S"], ["replace", "G"]]), ("G", [["replace", "S"], ["controlled", 1], ["dagger"], ["replace", "G"]]),
    ("S", [["dagger"], ["replace", "G"], ["dagger"]]), ("S", [["power", 3], ["replace", "G"], ["dagger"], ["controlled", 1]]),
]


def _special_cases(rng, tier, n):
    out = []
    for _ in range(n):
        if rng.random() < 0.5:
            base, special, generic = _herm_custom(rng)
        else:
            base = {"gate": rng.choice([g for g in circ.BUILTIN_PARAMS if circ.BUILTIN_PARAMS[g] > 0 and g != "Delay"])}
            k = circ.BUILTIN_PARAMS[base["gate"]]
            special = [list(rng.choice(AXIS)) for _ in range(k)]
            generic = [circ.rat_angle(rng, 0.0) for _ in range(k)]
        start, pat = rng.choice(SPECIAL_PATTERNS)
        vals = {"S": special, "G": generic}
        chain = [["replace", vals[m[1]]] if m[0] == "replace" else list(m) for m in pat]
        out.append({"kind": "special", "base": dict(base, params=vals[start]), "chain": chain, "tier": tier})
    return out


def corpus():
    return _register(_corpus())


def _register(cases):
    _GENERATED.extend(cases)
    return cases


def _corpus():
    x = {"gate": "X", "params": []}
    s = {"gate": "S", "params": []}
    t = {"gate": "T", "params": []}
    rx = {"gate": "RX", "params": [["4/5", "3/5"]]}
    u3 = {"gate": "U3", "params": [["4/5", "3/5"], ["12/13", "5/13"], ["3/5", "-4/5"]]}
    cg = {"custom": "corpus_v", "rows": [[[1, 2], [3, 0]], [{"sym": 0}, [2, -1]]], "nsyms": 1, "params": [{"v": [1, "1/2"]}]}
    return [
        {"kind": "chain", "base": x, "chain": [["power", "1/2"], ["dagger"]]},                       # F16
        {"kind": "chain", "base": x, "chain": [["controlled", 2], ["power", "1/2"], ["dagger"]]},    # F16 under controls
        {"kind": "chain", "base": s, "chain": [["power", "1/2"], ["dagger"]]},                       # holds: Dagger(S)^(1/2)
        {"kind": "chain", "base": t, "chain": [["controlled", 1], ["dagger"], ["exp"]]},
        {"kind": "chain", "base": t, "chain": [["dagger"], ["controlled", 2], ["power", 3]]},
        {"kind": "chain", "base": rx, "chain": [["power", -2], ["dagger"], ["controlled", 1], ["replace", [["3/5", "4/5"]]]]},
        {"kind": "chain", "base": rx, "chain": [["exp"], ["dagger"], ["controlled", 1]]},
        {"kind": "chain", "base": u3, "chain": [["controlled", 1], ["controlled", 2], ["dagger"], ["power", 2]]},
        {"kind": "chain", "base": cg, "chain": [["dagger"], ["power", -1], ["replace", [{"v": ["-3/2", 2]}]], ["controlled", 1]]},
        # --- sessions: sibling runs in one process (same wrapper name / same parameters / same exponent, different content)
        {"kind": "session-ext", "runs": [
            {"base": x, "chain": [["exp"], ["power", 2]], "share": "all", "recheck": True},
            {"base": {"gate": "Y", "params": []}, "chain": [["exp"], ["power", 2]], "share": "all", "recheck": True},
            {"base": {"gate": "SWAP", "params": []}, "chain": [["exp"], ["power", 2], ["controlled", 1]], "order": "rev", "recheck": True},
            {"base": x, "chain": [["exp"], ["power", 2]], "share": "all", "reread": True, "recheck": True}]},
        {"kind": "session-ext", "runs": [
            {"base": {"gate": "Z", "params": []}, "chain": [["controlled", 1], ["exp"], ["power", -1]]},
            {"base": s, "chain": [["controlled", 1], ["exp"], ["power", -1]], "order": "rev"},
            {"base": {"gate": "Z", "params": []}, "chain": [["controlled", 1], ["exp"], ["dagger"]], "reread": True}]},
        {"kind": "session", "runs": [
            {"base": {"custom": "corpus_u", "rows": [[[1, 0], [1, 0]], [[0, 0], [1, 0]]], "nsyms": 0, "params": []}, "chain": [["power", 3], ["dagger"]]},
            {"base": {"custom": "corpus_u", "rows": [[[2, 0], [0, 0]], [[0, 0], [1, 1]]], "nsyms": 0, "params": []}, "chain": [["power", 3], ["dagger"]]},
            {"base": {"custom": "corpus_u", "rows": [[[1, 0], [1, 0]], [[0, 0], [1, 0]]], "nsyms": 0, "params": []}, "chain": [["power", 3, "f"], ["controlled", 2]],
             "order": "rev"}]},
        {"kind": "session", "runs": [
            {"base": rx, "chain": [["dagger"], ["controlled", 1], ["power", -2]], "share": "all", "recheck": True},
            {"base": {"gate": "RY", "params": [["4/5", "3/5"]]}, "chain": [["dagger"], ["controlled", 1], ["power", -2]], "share": "all"},
            {"base": {"gate": "RX", "params": [["4/5", "-3/5"]]}, "chain": [["dagger"], ["controlled", 1], ["power", -2]], "order": "rev"},
            {"base": {"gate": "RX", "params": [_near_angle(["4/5", "3/5"])]}, "chain": [["dagger"], ["controlled", 1], ["power", -2]]},
            {"base": rx, "chain": [["dagger"], ["controlled", 2], ["power", -2]], "share": "all"},
            {"base": rx, "chain": [["dagger"], ["controlled", 1], ["power", 2]], "share": "all"},
            {"base": rx, "chain": [["dagger"], ["controlled", 1], ["power", -2]], "share": "all", "reread": True, "recheck": True}]},
        {"kind": "session", "runs": [
            {"base": u3, "chain": [["controlled", 1], ["replace", [["3/5", "4/5"], ["12/13", "5/13"], ["3/5", "-4/5"]]], ["dagger"]], "share": "base"},
            {"base": u3, "chain": [["controlled", 1], ["replace", [["12/13", "5/13"], ["3/5", "4/5"], ["3/5", "-4/5"]]], ["dagger"]], "share": "base"},
            {"base": u3, "chain": [["controlled", 1], ["replace", [["3/5", "4/5"], ["12/13", "5/13"], ["3/5", "-4/5"]]], ["dagger"]], "share": "base",
             "order": "rev"}]},
        # same wrapper name / same custom name, different SIZE
        {"kind": "session-ext", "runs": [
            {"base": x, "chain": [["exp"], ["controlled", 1], ["dagger"]], "share": "all", "recheck": True},
            {"base": {"gate": "CNOT", "params": []}, "chain": [["exp"], ["controlled", 1], ["dagger"]], "decoy": True, "recheck": True},
            {"base": x, "chain": [["exp"], ["controlled", 1], ["dagger"]], "share": "all", "order": "rev", "recheck": True}]},
        {"kind": "session", "runs": [
            {"base": {"custom": "corpus_w", "rows": [[[1, 0], [2, 0]], [[0, 1], [1, 0]]], "nsyms": 0, "params": []},
             "chain": [["controlled", 1], ["power", -1], ["dagger"]], "recheck": True},
            {"base": {"custom": "corpus_w", "rows": [[[1, 0], [2, 0], [0, 0], [0, 0]], [[0, 1], [1, 0], [0, 0], [0, 0]],
                                                     [[0, 0], [0, 0], [1, 0], [0, 0]], [[0, 0], [0, 0], [1, 1], [1, 0]]], "nsyms": 0, "params": []},
             "chain": [["controlled", 1], ["power", -1], ["dagger"]], "decoy": True, "recheck": True}]},
        # --- parameter values at which the matrix happens to be self-adjoint, then replaced by generic ones (and back)
        {"kind": "special", "base": {"custom": "corpus_ph", "rows": [[[1, 0], [0, 0]], [[0, 0], {"sym": 0}]], "nsyms": 1, "params": [{"v": [1, 0]}]},
         "chain": [["dagger"], ["replace", [{"v": ["3/4", "2/3"]}]], ["dagger"]]},
        {"kind": "special", "base": {"custom": "corpus_ph", "rows": [[[1, 0], [0, 0]], [[0, 0], {"sym": 0}]], "nsyms": 1, "params": [{"v": [1, 0]}]},
         "chain": [["replace", [{"v": ["3/4", "2/3"]}]], ["controlled", 1], ["dagger"], ["replace", [{"v": [1, 0]}]]]},
        {"kind": "special", "base": {"gate": "PHASE", "params": [[0, 1]]}, "chain": [["power", 2], ["dagger"], ["replace", [["4/5", "3/5"]]]]},
        {"kind": "special", "base": {"gate": "RZ", "params": [[1, 0]]}, "chain": [["dagger"], ["replace", [["4/5", "3/5"]]], ["dagger"]]},
        # --- exotic but legal: float-typed integer exponents, large exponents, many controls, roots beyond 1/4
        {"kind": "exotic", "base": rx, "chain": [["power", 2, "f"], ["dagger"], ["power", -1, "f"]]},
        {"kind": "exotic", "base": cg, "chain": [["power", 0, "f"], ["controlled", 1]]},
        {"kind": "exotic", "base": rx, "chain": [["power", 12], ["dagger"]]},
        {"kind": "exotic", "base": s, "chain": [["dagger"], ["power", -9], ["controlled", 1]]},
        {"kind": "exotic", "base": rx, "chain": [["power", -2], ["controlled", 5], ["dagger"]]},
        {"kind": "exotic", "base": s, "chain": [["controlled", 2], ["controlled", 3]]},
        {"kind": "exotic", "base": t, "chain": [["power", "1/8"], ["power", 8]]},
        {"kind": "exotic", "base": {"gate": "CNOT", "params": []}, "chain": [["power", "1/5"], ["replace", []]]},
        {"kind": "malformed", "base": x, "chain": [["controlled", 0]]},
        {"kind": "malformed", "base": x, "chain": [["controlled", 2], ["controlled", -1], ["dagger"]]},
        {"kind": "malformed", "base": rx, "chain": [["dagger"], ["replace", []], ["controlled", 1]]},
        {"kind": "malformed", "base": {"custom": "corpus_sing", "rows": [[[1, 0], [1, 0]], [[1, 0], [1, 0]]], "nsyms": 0, "params": []},
         "chain": [["controlled", 1], ["power", -1]]},
    ]


def generate(rng, tier):
    return _register(_generate(rng, tier))


def _generate(rng, tier):
    big = tier == "thorough"
    cases = []

    def add(kind, base, chain):
        cases.append({"kind": kind, "base": base, "chain": chain, "tier": tier})

    # every built-in once with each single modifier (depth 1) and one two-step chain
    for name in circ.BUILTIN_PARAMS:
        b = {"gate": name}
        b["params"] = _params_for(rng, b)
        for mod in (["dagger"], ["controlled", 1], ["power", -2], ["power", 3]):
            add("chain", b, [mod])
        add("chain", b, [["controlled", rng.randrange(1, 3)], ["dagger"], ["power", rng.choice([-2, 2, 3])]])
        add("chain", b, [["replace", _params_for(rng, b)], ["dagger"]])
    # integer-only chains, up to 4 qubits in total
    for _ in range(700 if big else 100):
        base = _random_base(rng, 2)
        depth = rng.choice([0, 1, 2, 2, 3, 3, 4, 4])
        add("chain", base, _random_chain(rng, base, depth, 5 if big and rng.random() < 0.2 else 4, False))
    # chains with exp / fractional powers, at most 2 qubits when the external is applied; no axis angles
    for _ in range(190 if big else 30):
        base = _random_base(rng, rng.choice([1, 1, 2]), axis_prob=0.0, custom_prob=0.2, small_custom=True)
        depth = rng.choice([1, 2, 2, 3, 3, 4])
        add("chain", base, _random_chain(rng, base, depth, 3, True))
    # fractional power followed (somewhere later) by dagger: the F16 neighbourhood, hermitian-flagged and not
    for _ in range(60 if big else 14):
        name = rng.choice(HERMITIAN + ["S", "T", "SX", "RX", "RZ", "PHASE", "ISWAP", "XX"])
        b = {"gate": name}
        b["params"] = _params_for(rng, b, 0.0)
        pre = rng.choice([[], [["controlled", 1]], [["dagger"]], [["power", 2]]])
        post = rng.choice([[], [["controlled", 1]], [["power", 2]]])
        add("chain", b, pre + [["power", f"1/{rng.choice([2, 3, 4])}"], ["dagger"]] + post)
    # sessions: a seed run, siblings that differ from it in exactly one component, the seed run again -- one process, shared
    # prototypes / definitions / (per `share`) gate objects; integer-only chains on any base gate
    for _ in range(170 if big else 30):
        cases.append(_session(rng, _int_seed_run(rng), False, tier, rng.choice([2, 3, 3, 4])))
    # the same with exp / non-integer powers, on gates where sympy answers quickly
    for _ in range(55 if big else 12):
        cases.append(_session(rng, _ext_seed_run(rng), True, tier, rng.choice([2, 3, 3])))
    # parameter values at which the matrix happens to be self-adjoint / the identity, replaced by generic ones (and back)
    cases.extend(_special_cases(rng, tier, 120 if big else 30))
    # exotic but legal arguments
    cases.extend(_exotic_cases(rng, tier, *((100, 24, 40) if big else (24, 6, 12))))
    # malformed stream
    for _ in range(120 if big else 24):
        base = _random_base(rng, 2)
        r = rng.random()
        if r < 0.35:
            chain = _random_chain(rng, base, rng.randrange(0, 3), 3, False) + [["controlled", rng.choice([0, -1, -2])]] \
                + _random_chain(rng, base, rng.randrange(0, 2), 3, False)
        elif r < 0.6:
            chain = [["controlled", rng.randrange(2, 4)], ["controlled", rng.choice([-1, -1, -3])], ["dagger"]]
        elif r < 0.8 and "gate" in base and circ.BUILTIN_PARAMS[base["gate"]] > 0 and base["gate"] != "Delay":
            wrong = _params_for(rng, base) + ([circ.rat_angle(rng)] if rng.random() < 0.5 else [])
            wrong = wrong if len(wrong) != circ.BUILTIN_PARAMS[base["gate"]] else wrong[:-1]
            chain = [rng.choice([["dagger"], ["controlled", 1]]), ["replace", wrong], ["power", 2]]
        else:
            _counter[0] += 1
            base = {"custom": f"sing{_counter[0]}", "rows": rng.choice([
                [[[1, 0], [1, 0]], [[1, 0], [1, 0]]], [[[0, 0], [1, 0]], [[0, 0], [0, 0]]], [[[1, 1], [2, 2]], [[1, 0], [2, 0]]]]),
                "nsyms": 0, "params": []}
            chain = rng.choice([[["power", -1]], [["controlled", 1], ["power", -2]], [["dagger"], ["power", -1]], [["power", 0], ["power", -1]]])
        add("malformed", base, chain)
    return cases


def nontrivial(case):
    if is_session(case):
        return len(case["runs"]) >= 3 and all(len(r["chain"]) >= 1 for r in case["runs"])
    return case["kind"] in ("chain", "special", "exotic") and len(case["chain"]) >= 2


def distribution(cases, outs):
    kinds, depth, nqh = {}, {}, {}
    orders, shares = {}, {}
    timeouts = exterr = mats = rereads = runs_total = 0
    for c, o in zip(cases, outs):
        runs = case_runs(c)
        routs = (o.get("runs", []) if is_session(c) else [o]) if isinstance(o, dict) else []
        for run in runs:
            runs_total += 1
            depth[len(run["chain"])] = depth.get(len(run["chain"]), 0) + 1
            if is_session(c):
                orders[run.get("order", "fwd")] = orders.get(run.get("order", "fwd"), 0) + 1
                shares[run.get("share", "none")] = shares.get(run.get("share", "none"), 0) + 1
            for m in run["chain"]:
                k = m[0] if m[0] != "power" else ("power-int" if unrat(m[1]).denominator == 1 else "power-frac")
                if m[0] == "power" and len(m) > 2:
                    k += "-as-float"
                kinds[k] = kinds.get(k, 0) + 1
        for ro in routs:
            for st in (ro.get("steps", []) if isinstance(ro, dict) else []):
                m = st.get("m")
                if isinstance(m, list):
                    mats += 1
                    nqh[st["nq"]] = nqh.get(st["nq"], 0) + 1
                elif isinstance(m, dict) and m.get("timeout"):
                    timeouts += 1
                elif isinstance(m, dict) and "exterr" in m:
                    exterr += 1
                if isinstance(st.get("m2"), list):
                    rereads += 1
    return {"modifier_kinds": kinds, "chain_depth": depth, "matrices_by_num_qubits": nqh, "matrices_evaluated": mats,
            "runs_total": runs_total, "session_run_order": orders, "session_object_sharing": shares,
            "matrices_read_twice_after_editing_first_answer": rereads, "matrix_property_calls": _EVALS[0],
            "sympy_timeouts": timeouts, "sympy_external_failures": exterr,
            "branch_ambiguous_matrix_comparisons_skipped": _SUPPRESSED[0],
            "branch_ambiguous_cases": sum(1 for f in _FLAGS.values() if f.get("ambiguous")),
            "external_unresolved_cases": sum(1 for f in _FLAGS.values() if f.get("unresolved")),
            "per_matrix_time_limit_s": _LIMIT[0]}
