"""C07 — gate modifiers (dagger, controlled, power, exp) mean what they say.

A RUN is a base gate plus a chain of modifier METHOD calls applied one after the other:
  {"base": <base spec>, "chain": [["dagger"], ["controlled", n(, TAG)], ["power", "p/q"(, TAG)], ["exp"], ["replace", [params]] ...],
   "order": "fwd"|"rev", "share": "none"|"base"|"all", "reread": bool, "decoy": bool, "recheck": bool}      (see `run_one`)
   TAG names the Python NUMBER TYPE that carries the exponent / control count (int, float, fractions.Fraction, sympy Integer /
   Rational / Float, numpy integer scalars, bool for one control): see "the NUMBER TYPE that carries a numeric argument" below
base spec:  {"gate": NAME, "params": [[ch, sh] | {"pi": "p/q"} | {"ty": "sF", "a": [ch, sh]} | {"ty": TAG, "r": "p/q"}, ...]}
                        built-in at rational half-angle points / at exactly p*pi/q / the same float as sympy.Float / the angle p/q in type TAG
            {"custom": name, "rows": [[entry]], "nsyms": k, "params": [{"v": [re, im](, "ty": TAG)} | {"x": NAME}, ...], "symflags": [...]}
                        entry = [re, im] constant | {"sym": i} | {"x": NAME} (a scalar of XTAB: a number whose nature is not
                        visible syntactically) | {"xp": [NAME, ...]} (product) | {"xs": "m1pow"|"expipi", "sym": i} ((-1)**p_i, exp(I pi p_i))
A CASE is either one run ({"kind": "chain"|"malformed"|"exotic"|"special"|"syntax"|"numtype", ...run fields}) or a SESSION
({"kind": "session"|"session-ext", "runs": [run, ...]}): several runs executed one after the other in the same process on shared
prototypes / gate definitions / (per `share`) gate objects.  Sessions exist because the property quantifies over gates, i.e.
values: whatever the library remembers between calls (module-level or per-object caches, shared result objects, objects updated
in place) must not change what a gate reports.  The sibling runs of a session differ in exactly one component, so a cache key
that leaves that component out collides.

The implementation is run step by step (real objects of /repo); after every step the object structure, num_qubits, params and
the numeric matrix are recorded; the object the library handed out is then edited in place (result poisoning).  The Lean model
(`C07 chain`, one request per run) does the same; sympy's `exp` / non-integer `**` are EXTERNALS of the model, supplied to it as
a table computed with scipy on the exact argument matrix the model asks for.
"""
import math
import signal
import time
from fractions import Fraction

from .. import common
from ..common import rat, unrat
from .. import circ

PROP = "C07"
RULE = ("random modifier chains (depth 0..4: dagger / controlled(1..3) / integer power -3..3 / power 1/q, q<=4 / exp / "
        "replace_params) over the 27 built-ins at rational half-angle points and over custom gates (Gaussian-integer matrices, "
        "optionally with symbols); exp and non-integer powers only while the total is <= 2 qubits; SESSIONS = a seed run, 2-4 "
        "sibling runs that differ from it in exactly one component (other gate under the same parameters / same custom name with "
        "one matrix entry changed / one parameter changed, negated, shifted by 2 pi or by a relative 1e-6 / one modifier argument "
        "changed / one modifier inserted, removed, exchanged / ONE numeric argument -- exponent, control count, parameter -- handed over in another "
        "number type) and the seed run again, all in "
        "one process on shared prototypes, definitions and (share=base|all) gate objects, matrices read stepwise (fwd) or only "
        "after all gates were made, outermost first (rev), optional decoy call of the same method with another argument before "
        "every modifier call; every matrix the library returns is edited in place after it was recorded and the last (or every) "
        "matrix is asked for again; EXOTIC = exponents up to +-12, integer exponents as floats, 4..5 controls, roots 1/5..1/16; "
        "SPECIAL = parameters at which the matrix is self-adjoint, replaced by generic ones and back, around a dagger; "
        "SYNTAX = custom gates (and parameter values) whose complexness / realness / zeroness / numberness / self-adjointness is "
        "not visible syntactically ((-1)**(p/q), root(-n,q), exp(I pi p/q), sqrt(-n), exp_polar, sqrt(2)/2, cos(1), z+1/z, "
        "unevaluated zeros, Float / python complex entries, products of these; diag / triangular / dense / unitary / "
        "disguised-self-adjoint / symmetric-non-self-adjoint 2x2 and 4x4 matrices; ZPow(t)=diag(1,(-1)**t) at exact rational t; "
        "symbols with real/positive/complex assumptions) and built-ins at exact sympy multiples of pi, two chains per base: one "
        "whose FIRST modifier is dealt round-robin over dagger / power -n / exp / controlled / power 1/q / power n / replace, one "
        "from a pattern list or random -- the model answers when every value lies in Q(zeta8), else the case is oracle-only; plus a "
        "malformed stream (control counts <= 0, wrong parameter arity, negative powers of singular matrices). "
        "DEFECTIVE = custom gates with exact small (Gaussian-)rational NON-UNITARY matrices, 2x2 and 4x4: rank one (idempotent or "
        "scaled), nilpotent (index 2..4, permuted strictly triangular), Jordan type lam + nilpotent (invertible, not diagonalisable), "
        "singular non-normal, singular block / Kronecker products with a singular factor, shears (invertible, non-normal), diagonal "
        "singular -- every pattern of a route table once per run: negative integer powers (directly, "
        "under / over controlled, dagger, exp, other powers; the exponent in int / float / Fraction / sympy / numpy types: every family), "
        "power 0, roots 1/q, dagger / controlled, exp (two of these groups per family and run; nilpotent / non-diagonalisable singular "
        "matrices always on a root route, nilpotent / Jordan-type always on an exp route); read fwd or rev, optionally twice / with decoys. "
        "NUMBER TYPES = every numeric argument of the modifier API is drawn from a type ladder (exponents: int / float / "
        "fractions.Fraction / sympy.Integer / sympy.Rational / sympy.Float / numpy int64, int32, int16, int8, uint8, each at "
        "negative, zero, positive whole values incl. whole-valued Fraction(3, 1) / Float(2.0), and Fraction / Rational / Float / "
        "float at 1/q; control counts: int / True / numpy integers / sympy.Integer; parameters of the base gate and of "
        "replace_params: float / sympy.Float of the same float / int, float, Fraction, sympy Integer, Rational, Float at the "
        "angle p/q / custom values as float, int, Fraction, sympy Integer, sympy Float, complex, numpy ints): (a) in the chain / "
        "special / exotic streams and in the seed runs of the sessions every such argument is retyped with probability 0.25-0.5, "
        "(b) a NUMTYPE stream holds each (route, type) cell once per run -- routes = which method of which wrapper receives or "
        "passes on the typed argument: power of dagger / of controlled / of power / of exp, Power.controlled / .dagger / .power / "
        ".exp / .replace_params, controlled of dagger / power / root / exp / controlled, ControlledGate.dagger / .power / "
        ".replace_params / .exp, replace_params of Dagger / ControlledGate / Power / Exponential and deeper nestings. "
        "non-trivial: chain "
        "of >= 2 modifiers, or a session of >= 3 runs; distinct = distinct canonical JSON of the case")
TRUSTED = [
    "sympy Matrix.inv: M * inv(M) = 1 (hypothesis `ExtLaws.inv_*`; the model's own inverse is exact Gauss-Jordan over Q(zeta8) and is compared with sympy on every negative power)",
    "sympy M ** (1/q): its q-th power is M (hypothesis `ExtLaws.root`; checked numerically by the oracle on every generated fractional power)",
    "sympy Matrix.exp is the matrix exponential (hypothesis `ExtLaws.exp`; compared with scipy.linalg.expm on every generated exp)",
    "sympy Matrix.adjoint / Matrix.diag / integer ** are conjugate transpose / block diagonal / repeated product (compared entrywise with the exact model)",
    "scipy.linalg.expm / fractional_matrix_power (principal branch) are used only to fill the model's external table; float tolerance 1e-8 relative",
    "the constructors of the number types of the ladders (fractions.Fraction, sympy.Integer / Rational / Float, numpy.int64 ... "
    "uint8, float, complex) produce the value named in the case (the values are small integers, unit fractions, dyadic "
    "rationals; floats are the nearest doubles)",
]
ASSUMPTIONS = [
    "parameters are numbers (no free symbols): Power/Exponential reject symbolic gates in __post_init__, bind is property C06",
    "a gate 'obtained by nesting modifiers' is built by the modifier METHODS (.dagger/.controlled/.power/.exp), not by calling the wrapper class constructors directly",
    "only integers and unit fractions are in the property's domain as exponent VALUES; the value may arrive in any number type "
    "which the unchanged library accepts and treats correctly (established by probing every type on every route): int, float, "
    "fractions.Fraction, sympy Integer / Rational / Float, numpy signed / unsigned integer scalars (whole values, within the "
    "type's range) -- NOT in the domain, because the unchanged library (sympy below it) raises on them in this environment: bool "
    "and numpy.bool_ exponents / parameters (TypeError: BooleanAtom not allowed), every numpy FLOATING scalar as exponent or "
    "parameter (sympy 1.x cannot sympify numpy-2 floats: ValueError in mpmath), float / Decimal control counts (sympy.eye(6.0)), "
    "numpy integers and Decimals as parameters of those built-in gates that halve the angle or multiply it by a complex; "
    "Decimal / complex exponents and Fraction control counts are accepted by the unchanged library but are not number types "
    "for a real exponent / a count (not numbers.Real / numbers.Integral), so a library that rejects them would be within the "
    "property: not generated",
    "control counts are integers >= 1 in any numbers.Integral type: int, bool (True = one control), numpy integers, sympy.Integer",
    "the model is asked about VALUES (its exponent is a rational, its count a natural number): the Python type that carries a "
    "number is not modelled, every rung of a type ladder is sent to the model as the same request; `the same parameters` is "
    "judged by value as well (0.75 reported where Fraction(3, 4) went in is the same parameter)",
    "built-in angles given as the number p/q itself (int / Fraction / sympy Rational ...) are not rational points of the "
    "circle: such runs are oracle-only (modifier sentences relative to the base matrix, replace_params route agreement)",
    "a gate is a value: 'its matrix' / 'its parameters' do not depend on which other gates were built or inspected before in the "
    "same process, on how often they were asked for, or on what the caller did to an earlier answer (this is what the sessions, "
    "the decoy calls and the in-place edits of returned matrices test; the property's sentences are then evaluated per run)",
    "two CustomGateDefinitions may carry the same gate_name (legal, though discouraged by the Gate.name docstring)",
    "custom-gate entries and parameters may be any sympy NUMBER expression (is_number), in any syntactic form; symbols may carry "
    "assumptions as long as the values substituted respect them; the oracle only ever looks at complex(evalf) of what the library "
    "returns (polar numbers are projected to the plane first)",
    "a NonInvertibleMatrixError / IndexError raised inside sympy's Matrix.exp() or non-integer ** although the argument matrix was "
    "computed is a failure of the external routine (jordan_form; e.g. a repeated eigenvalue written as (-1)**(3/4) and I**(3/2)): "
    "counted, not judged",
    "a custom gate's matrix may be ANY square matrix of dimension 2^n (CustomGateDefinition does not ask for unitarity): the sentences "
    "for dagger / controlled / non-negative integer powers / exp / roots are judged on singular, nilpotent, defective and non-normal "
    "matrices like on unitaries.  'Inverse for negative exponents' is judged as: IF a (finite) matrix M is handed out for exponent -k it "
    "satisfies M * A^k = 1; where A^k has no inverse, raising is the admissible behaviour (the unchanged library raises sympy's "
    "NonInvertibleMatrixError on every route probed) and any finite matrix is a failure (|M A^k - 1| >= 1 - |M| sigma_min(A^k)); "
    "dagger / controlled / non-zero integer powers OF such a refused gate have no matrix either (power 0, roots, exp of it: not judged)",
    "NOT generated (genuine defect of the unchanged library, reported): a negative power whose argument is a DIAGONAL singular matrix "
    "(diag(a, 0) ** -1, (N ** 2) ** -1 for nilpotent N): sympy's diagonal shortcut answers entrywise, 0 ** -1 = zoo, and Power.matrix "
    "hands out a matrix with infinite entries instead of raising; the oracle does not judge non-finite matrices",
    "a root 1/q of a nilpotent (more generally: singular and not diagonalisable) matrix need not exist; the unchanged library raises "
    "NonInvertibleMatrixError there: counted as external failure, not judged; a matrix that IS returned is judged by the root law",
    "the matrix of a BASE gate is not judged by the oracle (that is C02 / C06); a wrong base matrix is visible to the model "
    "comparison only",
]

TOL = 1e-8
LIMITS = {"quick": 0.5, "thorough": 3.0}
_LIMIT = [2.0]
SESSION_BUDGET = {"quick": 1.5, "thorough": 6.0}  # s of sympy time after which a session's per-matrix limit drops to 0.2 s
_SUPPRESSED = [0]
_EVALS = [0]
_FLAGS = {}  # canon(run) -> {"ambiguous": bool, "unresolved": bool}


# ------------------------------------------------------------------ per-evaluation wall-clock limit
class CaseTimeout(Exception):
    pass


class time_limit:
    """wall-clock limit for one sympy evaluation; preserves the runner's own SIGALRM deadline"""

    def __init__(self, sec):
        self.sec = sec

    def __enter__(self):
        self.t0 = time.time()
        self.remaining = signal.alarm(0)
        self.old = signal.signal(signal.SIGALRM, self._fire)
        signal.setitimer(signal.ITIMER_REAL, self.sec)

    def _fire(self, signum, frame):
        raise CaseTimeout()

    def __exit__(self, *exc):
        signal.setitimer(signal.ITIMER_REAL, 0)
        signal.signal(signal.SIGALRM, self.old)
        if self.remaining:
            signal.alarm(max(1, self.remaining - int(time.time() - self.t0)))
        return False


# ------------------------------------------------------------------ specs -> real objects
def _lib():
    common.use_repo()
    import orquestra.quantum.circuits as oqc
    from orquestra.quantum.circuits import _gates
    return oqc, _gates


# ---- scalars whose nature (complex / real / zero / a plain number) is NOT visible from their syntactic form.
# name -> exact value in Q(zeta8) as [a, b, c, d] (a + b*z + c*z^2 + d*z^3, z = e^{i pi/4}) when the field contains it, else None
# (then the case is oracle-only).  `_xexpr` builds the sympy expression.
XTAB = {
    # roots of unity written without the imaginary unit: .has(I) is False, is_real is False only after inference
    "m1^(1/4)": [0, 1, 0, 0], "m1^(3/4)": [0, 0, 0, 1], "m1^(-1/4)": [0, 0, 0, -1], "m1^(5/4)": [0, -1, 0, 0],
    "m1^(1/3)": None, "m1^(-1/3)": None, "m1^(2/3)": None, "m1^(-2/3)": None, "m1^(1/6)": None, "m1^(1/8)": None, "m1^(3/8)": None,
    "root(-1,3)^2": None, "root(-4,4)": [1, 0, 1, 0], "root(-16,4)": [0, 2, 0, 0], "root(-8,3)": None, "(-27)^(1/3)": None,
    # ... with it
    "sqrt(-2)": [0, 1, 0, 1], "sqrt(-9)": [0, 0, 3, 0], "exp(i pi/4)": [0, 1, 0, 0], "exp(-3i pi/4)": [0, -1, 0, 0],
    "exp(i pi/3)": None, "exp(-i pi/3)": None, "exp(-2i pi/3)": None, "exp(i pi/8)": None, "exp(i pi/2)": [0, 0, 1, 0], "exp(i pi)": [-1, 0, 0, 0],
    "sqrt(I)": [0, 1, 0, 0], "(1+I)/sqrt(2)": [0, 1, 0, 0], "I^(3/2)": [0, 0, 0, 1], "Mul(2,1/2+I)": [1, 0, 2, 0],
    # polar numbers
    "exp_polar(i pi/4)": [0, 1, 0, 0], "exp_polar(-i pi/3)": None,
    # real numbers that are not sympy Numbers (is_Number False, is_number True)
    "sqrt(2)/2": [0, "1/2", 0, "-1/2"], "1+sqrt(2)": [1, 1, 0, -1], "-sqrt(2)": [0, -1, 0, 1], "cos(1)": None, "2^(1/3)": None,
    "cos(pi/8)": None, "pi/4": None,
    # sums whose realness / imaginariness sympy cannot decide (is_real None)
    "z+1/z": [0, 1, 0, -1], "z-1/z": [0, 1, 0, 1],
    # zero that does not look like zero
    "hidden0": [0, 0, 0, 0], "hidden0b": [0, 0, 0, 0], "hidden0c": [0, 0, 0, 0],  # the last one: is_zero is None
    # Float / python complex next to exact entries
    "Float(0.5)": ["1/2", 0, 0, 0], "Float(-1.25)": ["-5/4", 0, 0, 0], "complex(0.5,-0.25)": ["1/2", 0, "-1/4", 0],
    "0.5*I": [0, 0, "1/2", 0], "complex(0,1)": [0, 0, 1, 0], "Float(2.0)": [2, 0, 0, 0],
}
XTAB["minus1"] = [-1, 0, 0, 0]
XCONJ = {"m1^(1/4)": "m1^(-1/4)", "m1^(3/4)": "m1^(5/4)", "m1^(1/3)": "m1^(-1/3)", "m1^(2/3)": "m1^(-2/3)",
         "exp(i pi/3)": "exp(-i pi/3)", "exp(i pi/4)": "m1^(-1/4)", "sqrt(I)": "m1^(-1/4)", "exp_polar(i pi/4)": "m1^(-1/4)"}
XZERO = ("hidden0", "hidden0b", "hidden0c")
X_UNDECIDED = ["z+1/z", "z-1/z"]  # non-zero, but sympy cannot tell (is_zero / is_real are None)
_XEXPR = {}


def _xexpr(name):
    import sympy as sp
    if not _XEXPR:
        R, I, pi = sp.Rational, sp.I, sp.pi
        z = sp.Integer(-1) ** R(1, 4)
        _XEXPR.update({
            "m1^(1/4)": sp.Integer(-1) ** R(1, 4), "m1^(3/4)": sp.Integer(-1) ** R(3, 4), "m1^(-1/4)": sp.Integer(-1) ** R(-1, 4),
            "m1^(5/4)": sp.Integer(-1) ** R(5, 4), "m1^(1/3)": sp.Integer(-1) ** R(1, 3), "m1^(-1/3)": sp.Integer(-1) ** R(-1, 3),
            "m1^(2/3)": sp.Integer(-1) ** R(2, 3), "m1^(-2/3)": sp.Integer(-1) ** R(-2, 3), "m1^(1/6)": sp.Integer(-1) ** R(1, 6),
            "m1^(1/8)": sp.Integer(-1) ** R(1, 8), "m1^(3/8)": sp.Integer(-1) ** R(3, 8),
            "root(-1,3)^2": sp.root(-1, 3) ** 2, "root(-4,4)": sp.root(-4, 4), "root(-16,4)": sp.root(-16, 4), "root(-8,3)": sp.root(-8, 3),
            "(-27)^(1/3)": sp.Integer(-27) ** R(1, 3),
            "sqrt(-2)": sp.sqrt(-2), "sqrt(-9)": sp.sqrt(-9), "exp(i pi/4)": sp.exp(I * pi / 4), "exp(-3i pi/4)": sp.exp(-3 * I * pi / 4),
            "exp(i pi/3)": sp.exp(I * pi / 3), "exp(-i pi/3)": sp.exp(-I * pi / 3), "exp(-2i pi/3)": sp.exp(-2 * I * pi / 3),
            "exp(i pi/8)": sp.exp(I * pi / 8), "exp(i pi/2)": sp.exp(I * pi / 2), "exp(i pi)": sp.exp(I * pi),
            "sqrt(I)": sp.sqrt(I), "(1+I)/sqrt(2)": (1 + I) / sp.sqrt(2), "I^(3/2)": I ** R(3, 2),
            "Mul(2,1/2+I)": sp.Mul(2, R(1, 2) + I, evaluate=False),
            "exp_polar(i pi/4)": sp.exp_polar(I * pi / 4), "exp_polar(-i pi/3)": sp.exp_polar(-I * pi / 3),
            "sqrt(2)/2": sp.sqrt(2) / 2, "1+sqrt(2)": 1 + sp.sqrt(2), "-sqrt(2)": -sp.sqrt(2), "cos(1)": sp.cos(1),
            "2^(1/3)": sp.Integer(2) ** R(1, 3), "cos(pi/8)": sp.cos(pi / 8), "pi/4": pi / 4,
            "z+1/z": z + 1 / z, "z-1/z": z - 1 / z,
            "hidden0": sp.Add(sp.sqrt(2), -sp.sqrt(2), evaluate=False), "hidden0b": (1 + sp.sqrt(2)) ** 2 - 3 - 2 * sp.sqrt(2),
            "hidden0c": z + 1 / z - sp.sqrt(2),
            "Float(0.5)": sp.Float(0.5), "Float(-1.25)": sp.Float(-1.25), "complex(0.5,-0.25)": sp.sympify(complex(0.5, -0.25)),
            "0.5*I": sp.Float(0.5) * I, "complex(0,1)": sp.sympify(complex(0, 1)), "Float(2.0)": sp.Float(2.0),
            "minus1": sp.Integer(-1),
        })
        assert set(_XEXPR) == set(XTAB)
    return _XEXPR[name]


_XVAL = {}


def _xval(name):
    """numeric value, by evalf of the expression (used by the generators only, for size / invertibility discipline)"""
    import sympy as sp
    if name not in _XVAL:
        _XVAL[name] = complex(sp.N(_xexpr(name), 30))
    return _XVAL[name]


def _gauss_expr(e):
    import sympy
    return sympy.Rational(str(unrat(e[0]))) + sympy.I * sympy.Rational(str(unrat(e[1])))


# ------------------------------------------------------------------ the NUMBER TYPE that carries a numeric argument
# The property quantifies over VALUES (integer and unit-fraction exponents, control counts >= 1, real / complex parameters).  A
# value reaches the library inside some Python number type, and the library (and sympy below it) may branch on that type.  Every
# numeric argument of the modifier API is therefore drawn from a TYPE LADDER; the tag names the type, the value stays exact in the
# case.  The ladders hold exactly the types which the UNCHANGED library accepts and treats correctly in this environment
# (established by probing every rung on every route, see ASSUMPTIONS): rejected there -- hence outside the domain -- are bool /
# numpy.bool_ exponents and parameters (sympy: "BooleanAtom not allowed"), every numpy FLOATING scalar (this sympy cannot
# sympify them under numpy 2: ValueError from mpmath), float-typed control counts (sympy.eye refuses 6.0), numpy integers as
# parameters of the built-in rotations (theta / 2 becomes a numpy float).
#   exponent tags   i int | f float | F fractions.Fraction | sI sympy.Integer | sR sympy.Rational | sF sympy.Float |
#                   n64 n32 n16 n8 nu8 numpy integer scalars            (no tag: int for whole values, float otherwise)
#   count tags      i int | b bool (True = one control) | n64 n32 n16 n8 nu8 | sI sympy.Integer
#   parameter tags  built-in: {"ty": "sF", "a": [ch, sh]} = sympy.Float of the float the untagged spec stands for;
#                             {"ty": i|f|F|sI|sR|sF, "r": "p/q"} = the angle p/q (radians) itself in that type (not a rational
#                             point of the circle: oracle-only unless it is 0)
#                   custom:   {"v": [re, im], "ty": f|i|F|sI|sF|c|n64|n32} (f i F sI n*: real values only; c = python complex)
EXP_TAGS_WHOLE = ["i", "f", "F", "sI", "sF", "n64", "n32", "n16", "n8", "nu8"]
EXP_TAGS_FRAC = ["f", "F", "sR", "sF"]
CTL_TAGS = ["i", "b", "n64", "n32", "n16", "n8", "nu8", "sI"]
NP_INT_TAGS = ["n64", "n32", "n16", "n8", "nu8"]
BUILTIN_R_TAGS = ["i", "f", "F", "sI", "sR", "sF"]
CUSTOM_V_TAGS_REAL = ["f", "i", "F", "sI", "sF", "c", "n64", "n32"]
CUSTOM_V_TAGS_EXACT = ["i", "F", "sI", "n64", "n32"]  # keep the matrix exact (sympy's exp / roots of Float matrices mostly fail)
_NP_RANGE = {"n64": (-2 ** 63, 2 ** 63 - 1), "n32": (-2 ** 31, 2 ** 31 - 1), "n16": (-2 ** 15, 2 ** 15 - 1), "n8": (-128, 127), "nu8": (0, 255)}
_NP_NAME = {"n64": "int64", "n32": "int32", "n16": "int16", "n8": "int8", "nu8": "uint8"}


def _typed_real(f, tag):
    """the rational f in the Python number type named by tag (the tag must be able to hold it: see the eff_* functions)"""
    import numpy
    import sympy
    f = Fraction(f)
    if tag == "i":
        return int(f)
    if tag == "b":
        return bool(f)
    if tag == "f":
        return float(f)
    if tag == "F":
        return Fraction(f.numerator, f.denominator)
    if tag == "sI":
        return sympy.Integer(int(f))
    if tag == "sR":
        return sympy.Rational(f.numerator, f.denominator)
    if tag == "sF":
        return sympy.Float(float(f))
    if tag in _NP_NAME:
        return getattr(numpy, _NP_NAME[tag])(int(f))
    raise ValueError(f"unknown number type tag {tag!r}")


def _whole_tag_ok(f, tag):
    return f.denominator == 1 and (tag not in _NP_RANGE or _NP_RANGE[tag][0] <= f <= _NP_RANGE[tag][1])


def eff_exp_tag(e, tag=None):
    """the type that actually carries exponent e: the requested tag where it can hold the value, else the nearest rung"""
    f = unrat(e)
    if tag in (None, "i"):
        return "i" if f.denominator == 1 else "f"
    if tag in ("f", "F", "sF", "sR"):
        return tag
    if tag == "sI":
        return "sI" if f.denominator == 1 else "sR"
    if tag in _NP_RANGE:
        return tag if _whole_tag_ok(f, tag) else ("n64" if f.denominator == 1 else "F")
    raise ValueError(f"unknown exponent tag {tag!r}")


def eff_ctl_tag(k, tag=None):
    if tag in (None, "i") or k < 1:
        return "i"
    if tag == "b":
        return "b" if k == 1 else "i"
    if tag == "sI":
        return "sI"
    if tag in _NP_RANGE:
        return tag if _whole_tag_ok(Fraction(k), tag) else "n64"
    raise ValueError(f"unknown control-count tag {tag!r}")


def eff_custom_tag(p):
    """effective type tag of a custom-gate parameter spec {"v": [re, im], "ty": tag} (None = exact sympy Rational + I*Rational)"""
    tag = p.get("ty")
    if tag is None or "v" not in p:
        return None
    re_, im_ = unrat(p["v"][0]), unrat(p["v"][1])
    if im_ != 0:
        return tag if tag in ("c", "sF") else None
    if tag in ("i", "sI") or tag in _NP_RANGE:
        return tag if _whole_tag_ok(re_, tag) else "F"
    return tag


def mod_tag(mod):
    """effective number-type tag of a power / controlled modifier"""
    if mod[0] == "power":
        return eff_exp_tag(mod[1], mod[2] if len(mod) > 2 else None)
    if mod[0] == "controlled":
        return eff_ctl_tag(mod[1], mod[2] if len(mod) > 2 else None)
    return None


def _custom_param_value(p):
    import sympy
    if "x" in p:
        return _xexpr(p["x"])
    tag = eff_custom_tag(p)
    if tag is None:
        return _gauss_expr(p["v"])
    re_, im_ = unrat(p["v"][0]), unrat(p["v"][1])
    if tag == "c":
        return complex(float(re_), float(im_))
    if tag == "sF" and im_ != 0:
        return sympy.Float(float(re_)) + sympy.I * sympy.Float(float(im_))
    return _typed_real(re_, tag)


def _is_typed_angle(a):
    return isinstance(a, dict) and "ty" in a


def _builtin_param_value(a):
    import sympy
    if isinstance(a, dict):
        if "pi" in a:  # the exact sympy number p*pi/q (the gate matrix is then exact: cos(pi/6) = sqrt(3)/2, exp(-I*pi/8) ...)
            return sympy.pi * sympy.Rational(str(unrat(a["pi"])))
        if "a" in a:   # the float of the untagged spec, carried by another type
            if a["ty"] != "sF":
                raise ValueError(f"angle type {a['ty']!r} cannot carry a float")
            return sympy.Float(circ.theta_of(a["a"]))
        r = unrat(a["r"])
        tag = a["ty"]
        if tag in ("i", "sI") and r.denominator != 1:
            tag = "F" if tag == "i" else "sR"
        return _typed_real(r, tag)
    return circ.theta_of(a)


def py_params(bspec, params):
    """python values handed to the library for a list of parameter specs"""
    if "gate" in bspec:
        if bspec["gate"] == "Delay":
            return tuple(float(unrat(a[0])) for a in params)
        return tuple(_builtin_param_value(a) for a in params)
    return tuple(_custom_param_value(p) for p in params)


_DEFS = {}
SYM_FLAGS = {"real": {"real": True}, "positive": {"positive": True}, "complex": {"complex": True}}


def _cyc_mul(u, v):
    """product in Q(zeta8) = Q[z]/(z^4 + 1) on coefficient lists"""
    u, v = [unrat(x) for x in u], [unrat(x) for x in v]
    out = [Fraction(0)] * 4
    for i in range(4):
        for j in range(4):
            k, sgn = (i + j) % 4, (-1 if i + j >= 4 else 1)
            out[k] += sgn * u[i] * v[j]
    return [rat(x) for x in out]


def _xp_cyc(names):
    acc = [1, 0, 0, 0]
    for n in names:
        if XTAB[n] is None:
            return None
        acc = _cyc_mul(acc, XTAB[n])
    return acc


def _entry_expr(e, syms):
    import sympy
    if isinstance(e, dict):
        if "x" in e:
            return _xexpr(e["x"])
        if "xp" in e:  # a product of such scalars (sympy combines what it can: (-1)**(1/4)*sqrt(2)/2 stays free of I)
            out = sympy.Integer(1)
            for n in e["xp"]:
                out = out * _xexpr(n)
            return out
        if "xs" in e:  # a parameter inside an expression whose value is complex without showing it
            if e["xs"] == "m1pow":
                return sympy.Integer(-1) ** syms[e["sym"]]
            if e["xs"] == "expipi":
                return sympy.exp(sympy.I * sympy.pi * syms[e["sym"]])
            raise ValueError(e)
        return syms[e["sym"]]
    return _gauss_expr(e)


def custom_definition(bspec):
    import sympy
    oqc, _ = _lib()
    flags = bspec.get("symflags") or [None] * bspec["nsyms"]
    key = common.canon([bspec["custom"], bspec["rows"], bspec["nsyms"], flags])
    if key not in _DEFS:
        syms = tuple(sympy.Symbol(f"p{i}", **SYM_FLAGS.get(flags[i], {})) for i in range(bspec["nsyms"]))
        rows = [[_entry_expr(e, syms) for e in row] for row in bspec["rows"]]
        _DEFS[key] = oqc.CustomGateDefinition(bspec["custom"], sympy.Matrix(rows), syms)
    return _DEFS[key]


def build_base(bspec, params=None):
    oqc, _ = _lib()
    params = bspec["params"] if params is None else params
    vals = py_params(bspec, params)
    if "gate" in bspec:
        ref = getattr(oqc, bspec["gate"])
        if circ.BUILTIN_PARAMS[bspec["gate"]] == 0 and not vals:
            return ref
        if circ.BUILTIN_PARAMS[bspec["gate"]] == 0:
            return ref.replace_params(vals)
        return ref(*vals)
    return custom_definition(bspec)(*vals)


def py_exponent(e, tag=None):
    """the exponent e (exact rational in the case) in the number type named by tag"""
    return _typed_real(unrat(e), eff_exp_tag(e, tag))


def py_count(k, tag=None):
    return _typed_real(Fraction(k), eff_ctl_tag(k, tag))


def apply_mod(g, mod, bspec):
    t = mod[0]
    if t == "dagger":
        return g.dagger
    if t == "exp":
        return g.exp
    if t == "controlled":
        return g.controlled(py_count(mod[1], mod[2] if len(mod) > 2 else None))
    if t == "power":
        return g.power(py_exponent(mod[1], mod[2] if len(mod) > 2 else None))
    if t == "replace":
        return g.replace_params(py_params(bspec, mod[1]))
    raise ValueError(mod)


# ------------------------------------------------------------------ canonical description of a real gate object
def _exp_str(x):
    """the VALUE of the exponent a Power object holds, whatever type carries it: "n" / "p/q" (floats: the rational of
    denominator <= 10^6 they are the double of)"""
    import numbers
    if isinstance(x, bool):
        return repr(x)
    if isinstance(x, numbers.Rational):  # int, Fraction, numpy integers, sympy Integer / Rational
        f = Fraction(int(x.numerator), int(x.denominator))
        return str(f.numerator) if f.denominator == 1 else f"{f.numerator}/{f.denominator}"
    try:
        v = float(x)
        f = Fraction(v).limit_denominator(10 ** 6)
    except (TypeError, ValueError, OverflowError):
        return repr(x)
    if float(f) == v:
        return str(f.numerator) if f.denominator == 1 else f"{f.numerator}/{f.denominator}"
    return repr(x)


def _match_params(actual, bspec, candidates):
    actual = tuple(actual)
    # first the candidate that is the same value of the same type (Float(2.0) == Integer(2) in sympy), then equal values
    for same_type in (True, False):
        for cand in candidates:
            try:
                if len(cand) == len(actual) and all(a == b and (not same_type or type(a) is type(b))
                                                    for a, b in zip(py_params(bspec, cand), actual)):
                    return cand
            except Exception:
                pass
    return {"unmatched": repr(actual)[:120]}


def struct(g, bspec, candidates):
    _, G = _lib()
    if type(g) is G.MatrixFactoryGate:
        return {"t": "base", "name": g.name, "params": _match_params(g.params, bspec, candidates),
                "nq": int(g.num_qubits), "herm": bool(g.is_hermitian)}
    if type(g) is G.ControlledGate:
        return {"t": "ctl", "k": int(g.num_control_qubits), "g": struct(g.wrapped_gate, bspec, candidates)}
    if type(g) is G.Dagger:
        return {"t": "dag", "g": struct(g.wrapped_gate, bspec, candidates)}
    if type(g) is G.Power:
        return {"t": "pow", "e": _exp_str(g.exponent), "g": struct(g.wrapped_gate, bspec, candidates)}
    if type(g) is G.Exponential:
        return {"t": "exp", "g": struct(g.wrapped_gate, bspec, candidates)}
    return {"t": "unknown:" + type(g).__name__}


def has_external(s):
    while isinstance(s, dict) and "g" in s:
        if s["t"] == "exp" or (s["t"] == "pow" and "/" in s["e"]):
            return True
        s = s["g"]
    return False


def has_fraction(s):
    while isinstance(s, dict) and "g" in s:
        if s["t"] == "pow" and "/" in s["e"]:
            return True
        s = s["g"]
    return False


def _root_order(s):
    """product of the denominators q of the unit-fraction powers inside a gate structure; None when there is none, when an
    exponent is not a unit fraction, when an exp sits above a root, or when the product is beyond 10^5"""
    Q, seen_exp = 1, False
    while isinstance(s, dict) and "g" in s:
        if s["t"] == "exp":
            seen_exp = True
        if s["t"] == "pow" and "/" in s["e"]:
            num, den = s["e"].split("/")
            if num != "1" or seen_exp:
                return None
            Q *= int(den)
        elif s["t"] == "pow" and not s["e"].lstrip("-").isdigit():
            return None
        s = s["g"]
    return Q if 1 < Q <= 10 ** 5 else None


def _poison(m):
    """the caller edits the object it got back (result poisoning): the gate must answer the same when asked again.
    Immutable results refuse the edit; that is fine."""
    try:
        n = m.shape[0]
        m[0, 0] = m[0, 0] + 3
        m[n - 1, 0] = m[n - 1, 0] - 2
    except Exception:
        pass


def has_negative_power(s):
    while isinstance(s, dict) and "g" in s:
        if s["t"] == "pow" and "/" not in s["e"] and s["e"].startswith("-"):
            return True
        s = s["g"]
    return False


def eval_matrix(g, external, inverse_involved=True):
    """numeric matrix of a real gate (JSON [[ [re, im], …], …]) or an error / timeout marker.  The object the library
    returned is converted first and then edited in place (see `_poison`)."""
    import sympy
    from sympy.matrices.common import MatrixError, NonInvertibleMatrixError
    _EVALS[0] += 1
    try:
        with time_limit(_LIMIT[0]):
            raw = g.matrix
            try:
                m = circ.impl_matrix_to_numpy(raw)
            except TypeError:
                # polar numbers on the Riemann surface (exp_polar(I*pi), products of exp_polar) do not evalf to a complex:
                # project them to the plane first.  This is a limitation of the conversion, not an answer of the library.
                if not (isinstance(raw, sympy.MatrixBase) and raw.has(sympy.exp_polar)):
                    raise
                m = circ.impl_matrix_to_numpy(raw.applyfunc(sympy.unpolarify))
    except CaseTimeout:
        return {"timeout": True}
    except NonInvertibleMatrixError:
        if external and not inverse_involved:
            # no inverse is asked for anywhere in the gate: the error comes from inside Matrix.exp() / the fractional power
            # (jordan_form inverts its eigenvector matrix; it is singular when a repeated eigenvalue is written in two
            # syntactic forms, e.g. diag entries (-1)**(3/4) and I**(3/2))
            return {"exterr": "NonInvertibleMatrixError"}
        return {"err": "err:noninv"}
    except TypeError:
        if external:
            return {"exterr": "TypeError"}
        return {"err": "err:type"}
    except (NotImplementedError, MatrixError, ValueError, ZeroDivisionError, AttributeError, RecursionError, IndexError) as e:
        if external:  # failure inside sympy's exp / fractional power routine (IndexError: jordan_form on a float matrix)
            return {"exterr": type(e).__name__}
        raise
    out = [[[float(x.real), float(x.imag)] for x in row] for row in m.tolist()]
    _poison(raw)
    return out


def describe_static(g, bspec, candidates):
    s = struct(g, bspec, candidates)
    return {"struct": s, "nq": int(g.num_qubits), "params": _match_params(g.params, bspec, candidates)}


def _eval_into(d, g, skip=False, reread=False):
    """fill d["m"] (and d["m2"]: the matrix asked for a second time, after the first answer was edited by the caller)"""
    if skip:
        d["m"] = {"timeout": True, "skipped": True}
        return
    ext = has_external(d["struct"])
    inv = has_negative_power(d["struct"])
    d["m"] = eval_matrix(g, ext, inv)
    if reread and _is_mat(d["m"]):
        d["m2"] = eval_matrix(g, ext, inv)


def _timed_out(d):
    return isinstance(d.get("m"), dict) and bool(d["m"].get("timeout"))


def _prefix_key(bspec, chain, i):
    return common.canon([bspec, [list(m) for m in chain[:i]]])


def _decoy_mod(mod, bspec):
    """the same modifier method with a DIFFERENT argument (same call for the argument-less ones): made on the same object
    right before the real call, result thrown away.  A gate is a value: what an earlier call on it returned or left behind
    must not influence the next call."""
    t = mod[0]
    if t in ("dagger", "exp"):
        return [t]
    if t == "controlled":  # (the decoy argument arrives in the same number type as the real one)
        return ["controlled", mod[1] + 1] + list(mod[2:]) if mod[1] >= 1 else None
    if t == "power":
        e = unrat(mod[1])
        return (["power", rat(e + 1)] if e.denominator == 1 else ["power", rat(Fraction(1, e.denominator + 1))]) + list(mod[2:])
    if t == "replace":
        ps = [dict(p) if isinstance(p, dict) else list(p) for p in mod[1]]
        if not ps:
            return ["replace", ps]
        if "gate" in bspec:
            if bspec["gate"] == "Delay":
                ps[0] = [rat(unrat(ps[0][0]) + Fraction(1, 4)), 0]
            elif isinstance(ps[0], dict) and "r" in ps[0]:
                ps[0] = dict(ps[0], r=rat(unrat(ps[0]["r"]) + 1))
            elif isinstance(ps[0], dict) and "a" in ps[0]:
                a = ps[0]["a"]
                ps[0] = dict(ps[0], a=[a[0], rat(-unrat(a[1]))] if unrat(a[1]) != 0 else ["3/5", "4/5"])
            elif isinstance(ps[0], dict):
                ps[0] = {"pi": rat(unrat(ps[0]["pi"]) + Fraction(1, 2))}
            elif unrat(ps[0][1]) != 0:
                ps[0] = [ps[0][0], rat(-unrat(ps[0][1]))]
            else:
                ps[0] = ["3/5", "4/5"] if unrat(ps[0][0]) != Fraction(3, 5) else ["4/5", "3/5"]
        elif "v" in ps[0]:
            ps[0] = dict(ps[0], v=[rat(unrat(ps[0]["v"][0]) + 1), ps[0]["v"][1]])
        else:
            ps[0] = {"x": "m1^(3/4)" if ps[0]["x"] != "m1^(3/4)" else "sqrt(2)/2"}
        return ["replace", ps]
    return None


def _decoy_call(g, mod, bspec, with_matrix):
    dm = _decoy_mod(mod, bspec)
    if dm is None:
        return
    try:
        gd = apply_mod(g, dm, bspec)
    except ValueError:
        return
    nq = int(gd.num_qubits)
    tuple(gd.params)
    if with_matrix and nq <= 4 and not has_external(struct(gd, bspec, [])):
        eval_matrix(gd, True)  # looked at (and edited) like any other result; its value is not judged here


def run_one(run, tier="quick", shared=None):
    """one base gate + chain of modifier method calls on the REAL objects.

    order  "fwd": the matrix of every intermediate gate is read right after the gate was made (so every later modifier
                  is applied to an object whose matrix has already been looked at);
           "rev": all gates are made first, without any matrix access, then the matrices are read from the outermost
                  gate inwards.
    share  "none": every object is made afresh; "base": the base gate object is the one an earlier run of the same
           session made from the same spec; "all": so is every intermediate gate of an equal chain prefix (the matrices
           are then read again from the very same long-lived objects).
    reread  the matrix of every step (not only of the last one) is read twice.
    decoy   before every modifier call the same method is called on the same object with another argument (`_decoy_mod`).
    recheck structure / num_qubits / params of every gate made on the way are read once more at the end."""
    _LIMIT[0] = LIMITS.get(tier, 2.0)
    bspec, chain = run["base"], run["chain"]
    order, share = run.get("order", "fwd"), run.get("share", "none")
    reread_all = bool(run.get("reread"))
    shared = shared if shared is not None else {}
    candidates = [bspec["params"]] + [m[1] for m in chain if m[0] == "replace"]

    def obtain(i, make):
        key = _prefix_key(bspec, chain, i)
        if (share == "all" or (share == "base" and i == 0)) and key in shared:
            return shared[key]
        g = make()
        shared[key] = g
        return g

    n = len(chain)
    g = obtain(0, lambda: build_base(bspec))
    objs = [g]
    steps = [describe_static(g, bspec, candidates)]
    pending = []  # (step record, object, rebuilt object or None) whose matrices are still to be read (rev order)

    slow = shared.setdefault("__slow__", set())  # chain prefixes on which sympy already ran out of time in this session
    spent = shared.setdefault("__spent__", [0.0])  # seconds of matrix evaluation used by this session so far

    def read(d, obj, h, last, skip=False, idx=0):
        external = has_external(d["struct"])
        if any(_prefix_key(bspec, chain, j) in slow for j in range(idx + 1)):
            skip = True
        if len(slow) >= 2 or spent[0] > SESSION_BUDGET.get(tier, 3.0):
            _LIMIT[0] = min(_LIMIT[0], 0.2)  # a session that keeps running into sympy's slow paths is not given more time
        t_read = time.time()
        _eval_into(d, obj, skip=skip, reread=(reread_all or (last and not external)))
        spent[0] += time.time() - t_read
        if _timed_out(d) and not d["m"].get("skipped"):
            slow.add(_prefix_key(bspec, chain, idx))
        if h is not None:
            d["rebuilt"] = describe_static(h, bspec, candidates)
            _eval_into(d["rebuilt"], h, skip=_timed_out(d))

    if order == "fwd":
        read(steps[0], g, None, n == 0)
    else:
        pending.append((steps[0], g, None, n == 0, 0))
    applied = []
    for i, mod in enumerate(chain):
        if run.get("decoy"):
            _decoy_call(g, mod, bspec, with_matrix=(order == "fwd" and not _timed_out(steps[-1])))
        try:
            g2 = obtain(i + 1, lambda: apply_mod(g, mod, bspec))
        except ValueError as e:
            steps.append({"err": "err:value", "msg": str(e)[:80]})
            break
        d = describe_static(g2, bspec, candidates)
        h = None
        if mod[0] == "replace":
            # the other side of the last sentence: the same modifiers applied to the base built with the new parameters
            h = build_base(bspec, mod[1])
            for m2 in applied:
                h = apply_mod(h, m2, bspec)
            d["rebuilt_equal"] = bool(g2 == h)
            d["rebuilt_equal_rev"] = bool(h == g2)
            d["rebuilt_unequal"] = bool(g2 != h)
        else:
            applied.append(mod)
        last = i == n - 1
        if order == "fwd":
            # once sympy ran out of time on a prefix, every longer chain contains the same computation: not retried
            read(d, g2, h, last, skip=_timed_out(steps[-1]) and mod[0] != "replace", idx=i + 1)
        else:
            pending.append((d, g2, h, last, i + 1))
        steps.append(d)
        objs.append(g2)
        g = g2
    for d, obj, h, last, idx in reversed(pending):
        read(d, obj, h, last, idx=idx)
    # a failure inside sympy's exp / root routine is inherited by every gate built on top of it (until the parameters are replaced)
    broken = False
    for i, d in enumerate(steps):
        if i > 0 and chain[i - 1][0] == "replace":
            broken = False
        if i > 0 and isinstance(d, dict) and _is_ext_mod(chain[i - 1]) and _is_mat(steps[i - 1].get("m")) \
                and isinstance(d.get("m"), dict) and d["m"].get("err") == "err:noninv":
            # the argument of exp / the root was computed (every inverse it needs exists): the error is jordan_form's own
            d["m"] = {"exterr": "NonInvertibleMatrixError"}
        for dd in (d, d.get("rebuilt") if isinstance(d, dict) else None):
            m = dd.get("m") if isinstance(dd, dict) else None
            if isinstance(m, dict) and "exterr" in m and dd is d:
                broken = True
            elif broken and isinstance(m, dict) and m.get("err") == "err:noninv":
                dd["m"] = {"exterr": "NonInvertibleMatrixError", "inherited": True}
    if run.get("recheck"):
        # the gates made on the way must still be what they were: structure / num_qubits / params read once more at the end
        for d, obj in zip(steps, objs):
            d["static_again"] = describe_static(obj, bspec, candidates)
    return {"steps": steps}


def is_session(case):
    return str(case.get("kind", "")).startswith("session")


def case_runs(case):
    return case["runs"] if is_session(case) else [case]


def run_impl(case):
    tier = case.get("tier", "quick")
    if not is_session(case):
        return run_one(case, tier)
    shared = {}
    outs = []
    for run in case["runs"]:
        try:
            outs.append(run_one(run, tier, shared))
        except (CaseTimeout, KeyboardInterrupt):
            raise
        except Exception as e:  # judged by the oracle (an implementation that raises on an in-domain input)
            if type(e).__name__ == "Timeout":
                raise
            outs.append({"exc": type(e).__name__, "msg": str(e)[:200]})
    return {"runs": outs}


# ------------------------------------------------------------------ numeric helpers
def _np(m):
    import numpy as np
    return np.array([[complex(e[0], e[1]) for e in row] for row in m], dtype=complex)


def _is_mat(m):
    return isinstance(m, list)


def _close(a, b, tol=TOL):
    import numpy as np
    if a.shape != b.shape:
        return False
    if not (np.all(np.isfinite(a)) and np.all(np.isfinite(b))):
        return False
    scale = max(1.0, float(np.abs(a).max()), float(np.abs(b).max()))
    return bool(np.abs(a - b).max() <= tol * scale)


def _arity(bspec):
    return circ.BUILTIN_PARAMS[bspec["gate"]] if "gate" in bspec else bspec["nsyms"]


# ------------------------------------------------------------------ oracle: the property's sentences on the implementation only
def _base_label(bspec):
    if "gate" in bspec:
        return f"{bspec['gate']}{bspec['params']}"
    return f"custom {bspec['custom']} rows={bspec['rows']} params={bspec['params']}"


def oracle(case, out):
    if not is_session(case):
        return _oracle_run(case, out)
    if "runs" not in out:
        return ("impl-raise", f"implementation raised {out}")
    for j, (run, o) in enumerate(zip(case["runs"], out["runs"])):
        r = _oracle_run(run, o)
        if r is not None:
            return (r[0], f"run {j} of {len(case['runs'])} in one process (base {_base_label(run['base'])}, chain {run['chain']}, "
                          f"order={run.get('order', 'fwd')}, share={run.get('share', 'none')}; earlier runs of this session: "
                          f"{[[_base_label(x['base']), x['chain']] for x in case['runs'][:j]]}): {r[1]}")
    return None


def _sentence(t, mod, i, prev, cur, A, B, which):
    """the property's sentence for modifier `mod`: A = matrix of the original gate, B = matrix of the modified gate"""
    import numpy as np
    import scipy.linalg as sl
    if B.shape != (2 ** cur["nq"], 2 ** cur["nq"]):
        return (t + "-dimension", f"step {i} {mod}: {which} shape {B.shape} for {cur['nq']} qubits")
    if not (np.all(np.isfinite(A)) and np.all(np.isfinite(B))) or max(np.abs(A).max(), np.abs(B).max()) > 1e12:
        return None  # float overflow / total loss of precision (e.g. exp of a matrix with entries ~1e4): not judged
    if t == "dagger":
        if not _close(B, A.conj().T):
            sig, extra = "dagger-adjoint", ""
            if has_fraction(prev["struct"]):
                # F16 (known finding): the dagger of a root is built as the root of the dagger, which is the adjoint only when no
                # eigenvalue lies on the branch cut.  What F16 does NOT excuse: with Q = the product of the denominators of the
                # roots inside the gate, B = A^H implies B^Q = (A^Q)^H, and the library's own construction satisfies this on the
                # cut as well (root law + the sentences for the gates below; not when an exp sits above a root: exp(R') != exp(R)^H).
                sig = "power-fraction-dagger"
                Q = _root_order(prev["struct"])
                if Q is not None:
                    with np.errstate(all="ignore"):
                        L, R = np.linalg.matrix_power(B, Q), np.linalg.matrix_power(A, Q).conj().T
                    if np.all(np.isfinite(L)) and np.all(np.isfinite(R)) and max(np.abs(L).max(), np.abs(R).max()) < 1e6 \
                            and not _close(L, R, 1e-6):
                        sig = "dagger-adjoint"
                        extra = f" -- and not in the way of the known finding F16 either: its {Q}-th power is not the conjugate transpose of the {Q}-th power of that matrix"
            return (sig, f"step {i}: {which} of {_show(cur['struct'])} is not the conjugate transpose of the matrix of "
                         f"{_show(prev['struct'])}{extra}")
    elif t == "controlled":
        k, n = mod[1], prev["nq"]
        d0 = 2 ** n * (2 ** k - 1)
        want = np.zeros((d0 + 2 ** n, d0 + 2 ** n), dtype=complex)
        want[:d0, :d0] = np.eye(d0)
        want[d0:, d0:] = A
        if not _close(B, want):
            return ("controlled-block", f"step {i}: controlled({k}) {which} is not identity on the first {d0} states followed by the original")
    elif t == "power":
        e = unrat(mod[1])
        if e.denominator == 1:
            n = int(e)
            if n >= 0:
                if not _close(B, np.linalg.matrix_power(A, n)):
                    return ("power-integer", f"step {i}: power({n}) {which} is not the {n}-fold product")
            else:
                P = np.linalg.matrix_power(A, -n)
                eye = np.eye(A.shape[0])
                # "inverse for negative exponents": a matrix M that IS returned must satisfy M * A^k = 1.  Where the k-fold product
                # P has no inverse nothing can be returned: for every M, |M P - 1|_2 >= 1 - |M|_2 * sigma_min(P) (take the unit
                # vector that P maps to length sigma_min), so a finite answer with |M|_2 * sigma_min(P) < 1e-3 is off by >= 0.999
                # whatever it is.  Raising is the only admissible behaviour there (and what the unchanged library does).
                if np.all(np.isfinite(P)) and np.all(np.isfinite(B)):
                    sv = np.linalg.svd(P, compute_uv=False)
                    if sv[-1] <= 1e-9 * max(1.0, sv[0]) and np.linalg.norm(B, 2) * sv[-1] < 1e-3:
                        R = B @ P
                        return ("power-negative-singular",
                                f"step {i}: power({n}) returned a {which} {np.round(B, 6).tolist()} although the {-n}-fold product of the "
                                f"original matrix {np.round(A, 6).tolist()} has no inverse (smallest singular value {sv[-1]:.1e}); "
                                f"(returned) x (original^{-n}) = {np.round(R, 6).tolist()}, not the identity")
                # judged only where the float product is meaningful (the -n fold product is well conditioned)
                if np.all(np.isfinite(P)) and np.linalg.cond(P) < 1e6 and np.linalg.cond(A) < 1e6 \
                        and not (_close(B @ P, eye, 1e-7) and _close(P @ B, eye, 1e-7)):
                    return ("power-negative", f"step {i}: power({n}) {which} is not the inverse of the {-n}-fold product")
        elif e.numerator == 1 and e.denominator >= 2:
            if not _close(np.linalg.matrix_power(B, e.denominator), A, 1e-7):
                return ("power-root", f"step {i}: the {e.denominator}-th power of power(1/{e.denominator}) ({which}) is not the original matrix")
    elif t == "exp":
        # judge only where floating-point exp is meaningful: a generator of moderate norm and finite results
        # (exp of a matrix with entries ~1e4 overflows / loses all digits in BOTH implementations)
        if np.all(np.isfinite(A)) and np.linalg.norm(A, 2) <= 20:
            E = sl.expm(A)
            if np.all(np.isfinite(E)) and np.all(np.isfinite(B)) and not _close(B, E, 1e-7):
                return ("exp-matrix", f"step {i}: exp {which} is not the matrix exponential of the original")
    return None


def _spec_value(p):
    """a parameter spec without the number type that carries it"""
    if isinstance(p, dict):
        if "ty" in p and "a" in p:
            return ["a", rat(unrat(p["a"][0])), rat(unrat(p["a"][1]))]
        if "r" in p:
            return ["r", rat(unrat(p["r"]))]
        if "v" in p:
            return ["v", rat(unrat(p["v"][0])), rat(unrat(p["v"][1]))]
        return p
    if isinstance(p, (list, tuple)) and len(p) == 2:
        return ["a", rat(unrat(p[0])), rat(unrat(p[1]))]
    return p


def _params_differ(reported, expected):
    """`the same parameters` is a statement about values: 0.75 reported where Fraction(3, 4) went in is the same parameter"""
    if reported == expected:
        return False
    if not isinstance(reported, list) or not isinstance(expected, list) or len(reported) != len(expected):
        return True
    return [_spec_value(p) for p in reported] != [_spec_value(p) for p in expected]


def _oracle_run(case, out):
    import numpy as np
    if "steps" not in out:
        return ("impl-raise", f"implementation raised {out}")
    steps = out["steps"]
    bspec = case["base"]
    cur_params = bspec["params"]
    arity_ok = len(cur_params) == _arity(bspec) or bspec.get("gate") == "Delay"
    if _is_mat(steps[0].get("m")):
        d = len(steps[0]["m"])
        if d != 2 ** steps[0]["nq"]:
            return ("base-dimension", f"base gate reports {steps[0]['nq']} qubits but its matrix is {d}x{d}")
        if _is_mat(steps[0].get("m2")) and not _close(_np(steps[0]["m"]), _np(steps[0]["m2"])):
            return ("matrix-unstable", "the base gate's matrix, asked for twice (the first answer was edited in place by the "
                                       "caller in between), differs: there is no 'original matrix' for the modifiers to refer to")
    undefined = None  # index of the step whose gate has NO matrix: a negative power of a matrix without inverse
    for i, mod in enumerate(case["chain"]):
        if i + 1 >= len(steps):
            return ("steps-missing", "implementation output has fewer steps than modifiers")
        prev, cur = steps[i], steps[i + 1]
        t = mod[0]
        if undefined is not None:
            # the original gate of this modifier has no matrix (rightly refused, see below).  "followed by the original matrix" /
            # "the conjugate transpose" / "the repeated product" of something that does not exist is nothing: a finite matrix
            # handed out for dagger / controlled / a non-zero integer power of it cannot be what the sentence describes.
            # (power 0, roots, exp, replace_params: not judged, tracking ends.)
            keep = t in ("dagger", "controlled") or (t == "power" and unrat(mod[1]).denominator == 1 and unrat(mod[1]) != 0)
            if keep and t == "controlled" and mod[1] < 1:
                keep = False
            if not keep:
                undefined = None
            else:
                for wb in ("m", "m2"):
                    Bw = cur.get(wb) if isinstance(cur, dict) else None
                    if _is_mat(Bw) and np.all(np.isfinite(_np(Bw))):
                        return ("matrix-of-undefined",
                                f"step {i} {mod}: a matrix {np.round(_np(Bw), 6).tolist()} was returned for {_show(cur.get('struct'))}, but the "
                                f"gate it modifies ({_show(prev.get('struct'))}) has no matrix: step {undefined} {case['chain'][undefined]} is a "
                                f"negative power of a matrix without inverse")
        if "struct" not in cur:  # the modifier call itself raised
            if t == "controlled" and mod[1] >= 1:
                return ("controlled-raise", f"controlled({mod[1]}) raised {cur}")
            if t != "controlled":
                return ("modifier-raise", f"{mod} raised {cur}")
            return None  # control count < 1: outside the quantifier, nothing more is reachable
        if t == "controlled" and mod[1] < 1:
            return None  # accepted only because counts add up (ControlledGate.controlled); outside the quantifier
        # ---- number of qubits and parameters
        want_nq = prev["nq"] + (mod[1] if t == "controlled" else 0)
        if cur["nq"] != want_nq:
            return (t + "-num-qubits", f"step {i} {mod}: num_qubits {cur['nq']}, implied {want_nq}")
        if t == "replace":
            cur_params = mod[1]
            arity_ok = len(cur_params) == _arity(bspec) or bspec.get("gate") == "Delay"
        if _params_differ(cur["params"], cur_params):
            return (t + "-params", f"step {i} {mod}: params {cur['params']}, expected {cur_params}")
        # the same two questions asked again after all later modifier calls were made on these objects
        sa = prev.get("static_again")
        if i == 0 and sa is not None and (sa["nq"] != prev["nq"] or _params_differ(sa["params"], prev["params"])):
            return ("original-changed", f"step {i} {mod}: after the modifier calls the ORIGINAL gate reports num_qubits/params "
                                        f"{sa['nq']}/{sa['params']} (before: {prev['nq']}/{prev['params']})")
        sa = cur.get("static_again")
        if sa is not None and sa["nq"] != want_nq:
            return (t + "-num-qubits", f"step {i} {mod}: num_qubits read again later {sa['nq']}, implied {want_nq}")
        if sa is not None and _params_differ(sa["params"], cur_params):
            return (t + "-params", f"step {i} {mod}: params read again later {sa['params']}, expected {cur_params}")
        # ---- matrices
        A, B = prev.get("m"), cur.get("m")
        if t == "replace":
            if not cur.get("rebuilt_equal") or not cur.get("rebuilt_equal_rev", True) or cur.get("rebuilt_unequal", False):
                return ("replace-not-equal", f"step {i}: replace_params result != modifiers applied to the re-parameterised base "
                                             f"(a==b {cur.get('rebuilt_equal')}, b==a {cur.get('rebuilt_equal_rev')}, a!=b {cur.get('rebuilt_unequal')}): "
                                             f"{cur['struct']} vs {cur['rebuilt']['struct']}")
            rb = cur["rebuilt"]
            if rb["nq"] != cur["nq"] or _params_differ(rb["params"], cur["params"]):
                return ("replace-not-equal", f"step {i}: rebuilt gate differs in num_qubits/params")
            for which in ("m", "m2"):
                Bw = cur.get(which)
                if _is_mat(Bw) and _is_mat(rb["m"]) and not _close(_np(Bw), _np(rb["m"])):
                    return ("replace-matrix", f"step {i}: matrix after replace_params{' (second reading)' if which == 'm2' else ''} "
                                              f"differs from the rebuilt gate's matrix")
            if arity_ok and isinstance(B, dict) and B.get("err") == "err:type":
                return ("matrix-raise", f"step {i}: matrix raised TypeError with the right number of parameters")
            continue
        if not (_is_mat(A) and _is_mat(B)):
            if _is_mat(A) and isinstance(B, dict) and B.get("err") == "err:type" and arity_ok:
                return ("matrix-raise", f"step {i} {mod}: matrix raised TypeError")
            if _is_mat(A) and isinstance(B, dict) and B.get("err") == "err:noninv":
                if abs(np.linalg.det(_np(A))) > 1e-6:
                    return ("matrix-raise", f"step {i} {mod}: NonInvertibleMatrixError on an invertible matrix")
                if t == "power" and unrat(mod[1]).denominator == 1 and unrat(mod[1]) < 0 and np.all(np.isfinite(_np(A))):
                    sv = np.linalg.svd(_np(A), compute_uv=False)
                    if sv[-1] <= 1e-12 * max(1.0, sv[0]):
                        undefined = i  # rightly refused: the gates built on top of this one have no matrix either
            continue  # timeouts / failures inside sympy's routines are counted, not judged
        # the sentence must hold for every reading of the two matrices (m2 = asked again after the caller edited the first answer)
        for wa, Aw in (("m", A), ("m2", prev.get("m2"))):
            if not _is_mat(Aw):
                continue
            for wb, Bw in (("m", B), ("m2", cur.get("m2"))):
                if not _is_mat(Bw):
                    continue
                which = "matrix" if (wa, wb) == ("m", "m") else \
                    f"matrix ({'second' if wb == 'm2' else 'first'} reading; original: {'second' if wa == 'm2' else 'first'} reading)"
                r = _sentence(t, mod, i, prev, cur, _np(Aw), _np(Bw), which)
                if r is not None:
                    return r
    return None


def _show(s):
    if not isinstance(s, dict):
        return str(s)
    t = s.get("t")
    if t == "base":
        return s["name"]
    if t == "ctl":
        return f"C{s['k']}[{_show(s['g'])}]"
    if t == "dag":
        return f"Dagger[{_show(s['g'])}]"
    if t == "pow":
        return f"Power[{_show(s['g'])},{s['e']}]"
    if t == "exp":
        return f"Exp[{_show(s['g'])}]"
    return str(t)


# ------------------------------------------------------------------ model requests (externals resolved through a table)
def _cyc_of_rat(x):
    return [rat(unrat(x)), 0, 0, 0]


class NotInField(Exception):
    """the value is not an element of Q(zeta8): the model cannot be asked (the case is oracle-only)"""


def _cyc(v):
    return [rat(unrat(x)) for x in v]


_COS8 = [[1, 0, 0, 0], [0, "1/2", 0, "-1/2"], [0, 0, 0, 0], [0, "-1/2", 0, "1/2"],
         [-1, 0, 0, 0], [0, "-1/2", 0, "1/2"], [0, 0, 0, 0], [0, "1/2", 0, "-1/2"]]


def _pi_halfangle(pq):
    """theta = (p/q) pi -> [cos(theta/2), sin(theta/2)] in Q(zeta8); possible iff theta is a multiple of pi/2"""
    k = unrat(pq) * 2  # theta/2 = k * pi/4
    if k.denominator != 1:
        raise NotInField(pq)
    k = int(k) % 8
    return [_cyc(_COS8[k]), _cyc(_COS8[(k - 2) % 8])]


def _model_param(p):
    """the model is asked about VALUES: the number type that carries a parameter / exponent / count is not part of it"""
    if isinstance(p, dict):
        if "a" in p:    # typed built-in angle: the same float as the untagged half-angle point
            return [rat(unrat(p["a"][0])), rat(unrat(p["a"][1]))]
        if "r" in p:    # the angle p/q itself: (cos, sin)(theta / 2) is in Q(zeta8) only for theta = 0
            if unrat(p["r"]) != 0:
                raise NotInField(p["r"])
            return [1, 0]
        if "pi" in p:
            return _pi_halfangle(p["pi"])
        if "x" in p:
            if XTAB[p["x"]] is None:
                raise NotInField(p["x"])
            return {"v": _cyc(XTAB[p["x"]])}
        return {"v": [rat(unrat(p["v"][0])), rat(unrat(p["v"][1]))]}
    return [rat(unrat(p[0])), rat(unrat(p[1]))]


def _model_params(params):
    return [_model_param(p) for p in params]


def _model_rows(rows):
    out = []
    for row in rows:
        r = []
        for e in row:
            if isinstance(e, dict) and "x" in e:
                if XTAB[e["x"]] is None:
                    raise NotInField(e["x"])
                r.append(_cyc(XTAB[e["x"]]))
            elif isinstance(e, dict) and "xp" in e:
                c = _xp_cyc(e["xp"])
                if c is None:
                    raise NotInField(e["xp"])
                r.append(_cyc(c))
            elif isinstance(e, dict) and "xs" in e:
                raise NotInField(e["xs"])
            else:
                r.append(e)
        out.append(r)
    return out


def _payload(case, table):
    b = {k: v for k, v in case["base"].items() if k != "symflags"}
    b["params"] = _model_params(b["params"])
    if "rows" in b:
        b["rows"] = _model_rows(b["rows"])
    chain = []
    for m in case["chain"]:
        if m[0] == "replace":
            chain.append(["replace", _model_params(m[1])])
        elif m[0] == "power":
            chain.append(["power", rat(unrat(m[1]))])
        elif m[0] == "controlled":
            chain.append(["controlled", m[1]])
        else:
            chain.append(list(m))
    return {"base": b, "chain": chain, "table": table}


def modelable(run):
    try:
        _payload(run, [])
        return True
    except NotInField:
        return False


def _dyadic(x):
    return rat(Fraction(round(x * 2 ** 44), 2 ** 44))


def _to_cyc_matrix(a):
    return [[[_dyadic(float(z.real)), 0, _dyadic(float(z.imag)), 0] for z in row] for row in a.tolist()]


def _resolve(need, flags):
    """value of an external on the exact argument the model asks for (scipy, principal branch)"""
    import numpy as np
    import scipy.linalg as sl
    A = circ.model_matrix_to_numpy(need["arg"])
    entry = {"fn": need["fn"], "arg": need["arg"], "e": need["e"]}
    try:
        with np.errstate(all="ignore"):
            if need["fn"] == "exp":
                V = sl.expm(A)
            else:
                e = unrat(need["e"])
                ev = np.linalg.eigvals(A)
                if np.any((ev.real < 0) & (np.abs(ev.imag) <= 1e-6 * np.maximum(np.abs(ev), 1e-300))):
                    flags["ambiguous"] = True  # eigenvalue on the branch cut: float noise decides the branch
                if np.any(np.abs(ev) < 1e-9):
                    raise ValueError("singular")
                V = sl.fractional_matrix_power(A, float(e))
        V = np.asarray(V, dtype=complex)
        if not np.all(np.isfinite(V)) or np.abs(V).max() > 1e9:
            raise ValueError("non-finite")
        entry["val"] = _to_cyc_matrix(V)
    except Exception as ex:  # the external could not be evaluated: the model reports it as an external failure
        entry["err"] = type(ex).__name__
        flags["unresolved"] = True
    return entry


_REQ_CACHE = {}
_ORACLE_ONLY = [0]
_GENERATED = []  # the cases handed out by corpus() / generate(): their external tables are resolved in one batch


def _run_key(run):
    return common.canon([run["base"], run["chain"]])


def _needs_external(run):
    return any(m[0] == "exp" or (m[0] == "power" and unrat(m[1]).denominator != 1) for m in run["chain"])


def _prefetch(runs):
    """fill _REQ_CACHE for the given runs.  Runs with externals need a few rounds with the driver (it names the argument
    matrix of every exp / non-integer power it meets, scipy supplies the value); all runs share one driver call per round."""
    todo = {}
    for run in runs:
        key = _run_key(run)
        if key in _REQ_CACHE or key in todo:
            continue
        _FLAGS[key] = {"ambiguous": False, "unresolved": False}
        if _needs_external(run):
            todo[key] = {"run": run, "table": [], "seen": set()}
        else:
            _REQ_CACHE[key] = [("chain", _payload(run, []))]
    drv = common.Driver(PROP)
    active = list(todo)
    for _ in range(8):
        if not active:
            break
        resps = drv.run([("chain", _payload(todo[k]["run"], todo[k]["table"])) for k in active])
        nxt = []
        for k, resp in zip(active, resps):
            if not isinstance(resp, list):
                continue
            new = []
            for st in resp:
                nd = st.get("m", {}).get("need") if isinstance(st.get("m"), dict) else None
                if nd is not None:
                    kk = common.canon(nd)
                    if kk not in todo[k]["seen"]:
                        todo[k]["seen"].add(kk)
                        new.append(nd)
            if new:
                todo[k]["table"].extend(_resolve(nd, _FLAGS[k]) for nd in new)
                nxt.append(k)
        active = nxt
    for k, v in todo.items():
        _REQ_CACHE[k] = [("chain", _payload(v["run"], v["table"]))]


def _requests_run(run):
    key = _run_key(run)
    if key not in _REQ_CACHE:
        pending = [r for c in _GENERATED if all(modelable(x) for x in case_runs(c)) for r in case_runs(c)]
        del _GENERATED[:]
        _prefetch(pending + [run])
    return _REQ_CACHE[key]


def requests(case, out):
    """one `chain` request per run (a session is answered run by run: the model is a pure function of base + chain, which is
    exactly what the property says the implementation must be)"""
    if not all(modelable(run) for run in case_runs(case)):
        _ORACLE_ONLY[0] += 1
        return []  # some value is outside Q(zeta8): oracle-only
    return [r for run in case_runs(case) for r in _requests_run(run)]


def _norm_model_params(ps):
    """model parameters -> canonical {"c": cyc} (custom value) / {"a": [cyc, cyc]} (built-in half-angle point)"""
    out = []
    for p in ps:
        if isinstance(p, dict):
            out.append({"c": _cyc(p["v"])})
        else:
            out.append({"a": [_cyc(p[0]), _cyc(p[1])]})
    return out


def _norm_params(ps):
    """implementation-side parameter specs -> the same canonical form (already canonical entries pass through)"""
    if isinstance(ps, dict):
        return ps
    out = []
    for p in ps:
        if isinstance(p, dict) and "ty" in p and "a" in p:
            out.append({"a": [_cyc([p["a"][0], 0, 0, 0]), _cyc([p["a"][1], 0, 0, 0])]})
        elif isinstance(p, dict) and "r" in p:
            out.append({"a": [_cyc([1, 0, 0, 0]), _cyc([0, 0, 0, 0])]} if unrat(p["r"]) == 0 else p)
        elif isinstance(p, dict) and ("c" in p or "a" in p):
            out.append(p)
        elif isinstance(p, dict) and "pi" in p:
            try:
                out.append({"a": _pi_halfangle(p["pi"])})
            except NotInField:
                out.append(p)
        elif isinstance(p, dict) and "x" in p:
            out.append({"c": _cyc(XTAB[p["x"]])} if XTAB[p["x"]] is not None else p)
        elif isinstance(p, dict):
            out.append({"c": _cyc([p["v"][0], 0, p["v"][1], 0])})
        else:
            out.append({"a": [_cyc([p[0], 0, 0, 0]), _cyc([p[1], 0, 0, 0])]})
    return out


def _norm_struct(s, model):
    if not isinstance(s, dict):
        return s
    s = dict(s)
    if s.get("t") == "base":
        s["params"] = _norm_model_params(s["params"]) if model else _norm_params(s["params"])
        if model:
            s["params"] = _norm_params(s["params"])
    if "g" in s:
        s["g"] = _norm_struct(s["g"], model)
    return s


def _roots_lawful(run, isteps):
    """every non-integer power step of the implementation satisfies the root law on the implementation's own matrices"""
    import numpy as np
    ok = False
    for i, mod in enumerate(run["chain"]):
        if mod[0] != "power" or i + 1 >= len(isteps):
            continue
        e = unrat(mod[1])
        if e.denominator == 1:
            continue
        if e.numerator != 1:
            return False
        A, B = isteps[i].get("m"), isteps[i + 1].get("m")
        if not (_is_mat(A) and _is_mat(B)):
            continue
        if not _close(np.linalg.matrix_power(_np(B), e.denominator), _np(A), 1e-7):
            return False
        ok = True
    return ok


def compare(case, out, resp):
    if not is_session(case):
        return _compare_run(case, out, resp[0])
    if "runs" not in out:
        return None  # the oracle already fails this case
    for j, (run, o, r) in enumerate(zip(case["runs"], out["runs"], resp)):
        msg = _compare_run(run, o, r)
        if msg:
            return f"session run {j} ({_base_label(run['base'])} {run['chain']}): {msg}"
    return None


def _compare_run(case, out, r):
    if isinstance(r, dict) and "driver_error" in r:
        return "driver error: " + r["driver_error"]
    if "steps" not in out:
        return None  # the oracle already fails this case
    flags = _FLAGS.get(_run_key(case), {})
    isteps = out["steps"]
    if len(isteps) != len(r):
        return f"implementation produced {len(isteps)} steps, model {len(r)}: impl {isteps[-1] if isteps else None} model {r[-1] if r else None}"
    for i, (a, b) in enumerate(zip(isteps, r)):
        what = "base" if i == 0 else f"step {i - 1} {case['chain'][i - 1]}"
        if "struct" not in a or "struct" not in b:
            if a.get("err") != b.get("err"):
                return f"{what}: impl {a} model {b}"
            continue
        sb = _norm_struct(b["struct"], True)
        pb = _norm_params(_norm_model_params(b["params"]))
        for tag, aa in (("", a), (" (read again at the end)", a.get("static_again"))):
            if aa is None:
                continue
            sa = _norm_struct(aa["struct"], False)
            if sa != sb:
                return f"{what}{tag}: object structure differs: impl {common.canon(sa)} model {common.canon(sb)}"
            if aa["nq"] != b["nq"]:
                return f"{what}{tag}: num_qubits impl {aa['nq']} model {b['nq']}"
            pa = _norm_params(aa["params"])
            if pa != pb:
                return f"{what}{tag}: params impl {pa} model {pb}"
        mb = b["m"]
        for tag, ma in (("", a["m"]), (" (second reading)", a.get("m2"))):
            if ma is None:
                continue
            if _is_mat(ma) and _is_mat(mb):
                A, B = _np(ma), circ.model_matrix_to_numpy(mb)
                if not _close(A, B):
                    if has_fraction(a["struct"]) and (flags.get("ambiguous") or _roots_lawful(case, isteps)):
                        # a q-th root is not unique: eigenvalue on the branch cut (float noise decides), or sympy rewrote
                        # (M**2)**(1/6) as M**(1/3) (a root, but not the principal one the table holds).  The model only assumes
                        # the root LAW (ExtLaws.root); the oracle checks that law on the implementation's own matrices.
                        _SUPPRESSED[0] += 1
                        continue
                    return f"{what}{tag}: matrix differs: impl {ma} model {B.round(9).tolist()}"
            elif isinstance(ma, dict) and isinstance(mb, dict):
                if "err" in ma or "err" in mb:
                    if ma.get("err") != mb.get("err") and not ("timeout" in ma or "exterr" in ma or "exterr" in mb or "need" in mb):
                        return f"{what}{tag}: matrix error impl {ma} model {mb}"
            else:
                d = ma if isinstance(ma, dict) else mb
                if "err" in d:
                    return f"{what}{tag}: one side raised {d}, the other returned a matrix"
                # timeout / external failure on one side only: counted in the evidence, not comparable
    return None


# ------------------------------------------------------------------ generators
HERMITIAN = ["X", "Y", "Z", "H", "I", "GPi", "CNOT", "CZ", "SWAP", "Delay"]
_counter = [0]


def _gauss_rows(rng, k, syms=0, lo=-2, hi=2):
    d = 2 ** k
    rows = [[[rng.randrange(lo, hi + 1), rng.randrange(lo, hi + 1)] for _ in range(d)] for _ in range(d)]
    for s in range(syms):
        rows[rng.randrange(d)][rng.randrange(d)] = {"sym": s}
    if syms:  # every symbol must occur
        present = {e["sym"] for row in rows for e in row if isinstance(e, dict)}
        for s in range(syms):
            if s not in present:
                rows[s % d][(s + 1) % d] = {"sym": s}
    return rows


def _val(rng):
    return {"v": [rat(Fraction(rng.randrange(-6, 7), rng.choice([1, 2, 4]))), rat(Fraction(rng.randrange(-6, 7), rng.choice([1, 2, 4])))]}


def _params_for(rng, bspec, axis_prob=0.1):
    if "gate" in bspec:
        n = circ.BUILTIN_PARAMS[bspec["gate"]]
        if bspec["gate"] == "Delay":
            return [[rat(Fraction(rng.randrange(0, 16), 4)), 0]]
        return [circ.rat_angle(rng, axis_prob) for _ in range(n)]
    return [_val(rng) for _ in range(bspec["nsyms"])]


def _random_base(rng, max_q, axis_prob=0.1, custom_prob=0.3, small_custom=False):
    if rng.random() < custom_prob:
        k = 1 if (small_custom or max_q < 2) else rng.choice([1, 1, 2])
        syms = rng.choice([0, 0, 1, 2])
        _counter[0] += 1
        b = {"custom": f"cg{_counter[0]}", "rows": _gauss_rows(rng, k, syms), "nsyms": syms}
    else:
        names = [n for n in circ.BUILTIN_PARAMS if circ.BUILTIN_QUBITS[n] <= max_q]
        b = {"gate": rng.choice(names)}
    b["params"] = _params_for(rng, b, axis_prob)
    return b


def _base_nq(b):
    return circ.BUILTIN_QUBITS[b["gate"]] if "gate" in b else int(math.log2(len(b["rows"])))


def _random_chain(rng, base, depth, max_total, externals):
    """modifier chain keeping the total number of qubits <= max_total; exp / fractional powers only on <= 2 qubits"""
    nq = _base_nq(base)
    chain = []
    ext_used = 0
    for _ in range(depth):
        kinds = ["dagger", "dagger", "power", "power", "controlled", "replace"]
        if nq < max_total:
            kinds.append("controlled")
        if externals and nq <= 2 and ext_used < 2:
            kinds += ["exp", "exp", "frac", "frac"]
        t = rng.choice(kinds)
        if t == "controlled":
            if nq >= max_total:
                t = "dagger"
            else:
                n = rng.randrange(1, min(3, max_total - nq) + 1)
                chain.append(["controlled", n])
                nq += n
                continue
        if t == "dagger":
            chain.append(["dagger"])
        elif t == "power":
            chain.append(["power", rng.choice([-3, -2, -1, 0, 1, 2, 3, 2, -1])])
        elif t == "frac":
            chain.append(["power", f"1/{rng.choice([2, 2, 3, 4])}"])
            ext_used += 1
        elif t == "exp":
            chain.append(["exp"])
            ext_used += 1
        elif t == "replace":
            chain.append(["replace", _params_for(rng, base)])
    return chain


# ------------------------------------------------------------------ sessions: sibling runs on long-lived objects
# gates on which sympy's exp / fractional power / integer power of the exp return in well under 0.3 s
FAST0 = ["X", "Y", "Z", "H", "S", "I", "SX", "CNOT", "CZ", "SWAP", "ISWAP"]
FAST1 = ["RZ", "PHASE", "RY", "RX", "GPi", "CPHASE"]
# ... and on which Matrix.exp() does too (measured at random rational angles; RZ / PHASE / CPHASE / RX / SX / ISWAP do not)
EXP0 = ["X", "Y", "Z", "H", "S", "I", "CZ", "CNOT"]
EXP1 = ["RY", "GPi"]
NO_NAME_SIBLING = ("U3", "MS", "Delay")


def _is_ext_mod(m):
    return m[0] == "exp" or (m[0] == "power" and unrat(m[1]).denominator != 1)


def _run_ok(run, max_total=4):
    """size discipline of every generated run: total <= max_total qubits; exp / non-integer powers only while the gate has
    <= 2 qubits, at most two of them, never a non-integer power of something that contains an exp (sympy does not return)"""
    nq = _base_nq(run["base"])
    ext = 0
    seen_exp = False
    for m in run["chain"]:
        if m[0] == "controlled":
            if m[1] < 1:
                return False
            nq += m[1]
        if _is_ext_mod(m):
            ext += 1
            if nq > 2 or ext > 2:
                return False
            if m[0] == "exp":
                if seen_exp:
                    return False
                seen_exp = True
            elif seen_exp:
                return False
        if m[0] == "replace" and len(m[1]) != len(run["base"]["params"]):
            return False
    return nq <= max_total


def _has_ext(run):
    return any(_is_ext_mod(m) for m in run["chain"])


def _near_angle(a):
    """an angle that differs from `a` by about 1e-6 relative: equal for every tolerant comparison (np.allclose in
    MatrixFactoryGate.__eq__), different for the matrix (entries move by ~5e-7, tolerance of this check 1e-8)"""
    ch, sh = unrat(a[0]), unrat(a[1])
    # t = tan(theta/4) of the half-angle point; perturb it by 2^-20 relative and map back to the circle (exact rationals)
    if ch == -1:
        return None
    t = sh / (1 + ch)
    if t == 0:
        t2 = Fraction(1, 2 ** 20)
    else:
        t2 = t * (1 + Fraction(1, 2 ** 20))
    return [rat((1 - t2 * t2) / (1 + t2 * t2)), rat(2 * t2 / (1 + t2 * t2))]


def _vary_param_list(rng, bspec, params):
    """the same parameter list with exactly one entry changed (or two entries exchanged)"""
    if not params:
        return None
    ps = [dict(p) if isinstance(p, dict) else list(p) for p in params]
    j = rng.randrange(len(ps))
    if "gate" in bspec:
        if bspec["gate"] == "Delay":
            ps[j] = [rat(unrat(ps[j][0]) + Fraction(rng.randrange(1, 8), 4)), 0]
            return ps
        if any(isinstance(q, dict) for q in ps):
            # typed / exact-multiple-of-pi angles: the value inside changes, the type that carries it stays
            q = ps[j]
            if isinstance(q, dict) and "a" in q:
                inner = _vary_param_list(rng, bspec, [q["a"]])
                if inner is None:
                    return None
                ps[j] = dict(q, a=inner[0])
            elif isinstance(q, dict) and "r" in q:
                ps[j] = dict(q, r=rat(rng.choice([-unrat(q["r"]), unrat(q["r"]) + 1, unrat(q["r"]) - 2, Fraction(0)])))
            elif isinstance(q, dict):
                ps[j] = {"pi": rat(unrat(q["pi"]) + rng.choice([Fraction(1, 2), 1, Fraction(-1, 4), 2]))}
            else:
                inner = _vary_param_list(rng, bspec, [q])
                if inner is None:
                    return None
                ps[j] = inner[0]
            return ps if ps != [dict(p) if isinstance(p, dict) else list(p) for p in params] else None
        r = rng.random()
        if r < 0.25:
            ps[j] = [ps[j][0], rat(-unrat(ps[j][1]))]          # theta -> -theta
        elif r < 0.45:
            ps[j] = [rat(-unrat(ps[j][0])), rat(-unrat(ps[j][1]))]  # theta -> theta +- 2 pi (matrix changes sign for rotations)
        elif r < 0.65:
            near = _near_angle(ps[j])
            ps[j] = near if near is not None else circ.rat_angle(rng, 0.0)
        elif r < 0.8 and len(ps) > 1:
            k = (j + 1) % len(ps)
            ps[j], ps[k] = ps[k], ps[j]
        else:
            ps[j] = circ.rat_angle(rng, 0.2)
    else:
        if "v" not in ps[j]:
            ps[j] = {"x": rng.choice([n for n in ("m1^(3/4)", "sqrt(2)/2", "m1^(-1/4)", "root(-4,4)") if n != ps[j]["x"]])}
            return ps
        v = ps[j]["v"]
        ps[j] = dict(ps[j], v=[rat(unrat(v[0]) + rng.choice([-1, 1, Fraction(1, 2)])), v[1]]) if rng.random() < 0.5 else \
            dict(ps[j], v=[v[0], rat(unrat(v[1]) + rng.choice([-1, 1, Fraction(1, 4)]))])
    return ps if ps != params else None


def _v_name(rng, run, fast):
    """another gate under the same modifiers: a different built-in with the same parameters; for custom gates a second
    definition with the SAME NAME and one matrix entry changed, or the same matrix under another name"""
    b = run["base"]
    if "gate" in b:
        if b["gate"] in NO_NAME_SIBLING:
            return None
        ar = circ.BUILTIN_PARAMS[b["gate"]]
        pool = [n for n in circ.BUILTIN_PARAMS if circ.BUILTIN_PARAMS[n] == ar and n != b["gate"] and n not in NO_NAME_SIBLING
                and (not fast or n in ((EXP0 + EXP1) if any(m[0] == "exp" for m in run["chain"]) else (FAST0 + FAST1)))]
        if not pool:
            return None
        nb = dict(b, gate=rng.choice(pool))
    else:
        r = rng.random()
        if r < 0.25:
            # same name, same symbols, another SIZE: 2x2 -> block diag(M, M with its symbols set to 1); 4x4 -> its top-left block
            rows = [[e if isinstance(e, dict) else list(e) for e in row] for row in b["rows"]]
            if len(rows) == 2:
                z = [0, 0]
                lower = [[[1, 0] if (isinstance(e, dict) and "sym" in e) else (e if isinstance(e, dict) else list(e)) for e in row] for row in rows]
                rows = [rows[0] + [z, z], rows[1] + [z, z], [z, z] + lower[0], [z, z] + lower[1]]
            else:
                rows = [row[:2] for row in rows[:2]]
                if {e["sym"] for row in rows for e in row if isinstance(e, dict) and "sym" in e} != set(range(b["nsyms"])):
                    return None
            nb = dict(b, rows=rows)
        elif r < 0.8:
            rows = [[e if isinstance(e, dict) else list(e) for e in row] for row in b["rows"]]
            consts = [(i, j) for i, row in enumerate(rows) for j, e in enumerate(row) if not isinstance(e, dict)]
            if not consts:
                return None
            i, j = rng.choice(consts)
            rows[i][j] = [rows[i][j][0] + rng.choice([-1, 1]), rows[i][j][1] + rng.choice([0, 0, 1])]
            nb = dict(b, rows=rows)
        else:
            nb = dict(b, custom=b["custom"] + "_alias")
    return dict(run, base=nb)


def _v_params(rng, run, fast):
    ps = _vary_param_list(rng, run["base"], run["base"]["params"])
    return None if ps is None else dict(run, base=dict(run["base"], params=ps))


def _v_near(rng, run, fast):
    """one parameter moved by a relative 1e-6: equal for every tolerant comparison, a different matrix"""
    b = run["base"]
    if "gate" not in b or not b["params"] or b["gate"] == "Delay":
        return None
    ps = [dict(p) if isinstance(p, dict) else list(p) for p in b["params"]]
    j = rng.randrange(len(ps))
    if isinstance(ps[j], dict):
        if "a" not in ps[j]:
            return None
        near = _near_angle(ps[j]["a"])
        if near is None:
            return None
        ps[j] = dict(ps[j], a=near)
        return dict(run, base=dict(b, params=ps))
    near = _near_angle(ps[j])
    if near is None:
        return None
    ps[j] = near
    return dict(run, base=dict(b, params=ps))


def _v_arg(rng, run, fast):
    """one modifier's argument changed: control count, exponent, replacement parameters"""
    idx = [i for i, m in enumerate(run["chain"]) if len(m) > 1]
    if not idx:
        return None
    i = rng.choice(idx)
    m = list(run["chain"][i])
    if m[0] == "controlled":
        m[1] = rng.choice([k for k in (1, 2, 3) if k != m[1]])
    elif m[0] == "power":
        e = unrat(m[1])
        if e.denominator == 1:
            opts = [-e, e + 1, e - 1, 2 * e, 0]
            if fast and 2 <= abs(e) <= 4:
                opts.append(Fraction(1, int(abs(e))))
            opts = [o for o in opts if o != e]
        else:
            opts = [Fraction(1, q) for q in (2, 3, 4, 5) if Fraction(1, q) != e] + [Fraction(e.denominator)]
        m = ["power", rat(rng.choice(opts))] + m[2:]
    elif m[0] == "replace":
        ps = _vary_param_list(rng, run["base"], m[1])
        if ps is None:
            return None
        m[1] = ps
    return dict(run, chain=run["chain"][:i] + [m] + run["chain"][i + 1:])


def _v_struct(rng, run, fast):
    """one modifier inserted, removed, or two neighbours exchanged"""
    ch = [list(m) for m in run["chain"]]
    r = rng.random()
    if r < 0.45 or not ch:
        new = rng.choice([["dagger"], ["dagger"], ["controlled", 1], ["power", rng.choice([-1, 2, 3])]] + ([["exp"]] if fast else []))
        ch.insert(rng.randrange(len(ch) + 1), new)
    elif r < 0.7:
        ch.pop(rng.randrange(len(ch)))
    elif len(ch) >= 2:
        i = rng.randrange(len(ch) - 1)
        ch[i], ch[i + 1] = ch[i + 1], ch[i]
    else:
        return None
    return dict(run, chain=ch)


def _retype_params(rng, bspec, params, exact_only=False):
    """the same parameter VALUES with ONE of them carried by another number type (None when no entry has another rung)"""
    if not params or bspec.get("gate") == "Delay":
        return None
    ps = [dict(p) if isinstance(p, dict) else list(p) for p in params]
    idx = list(range(len(ps)))
    rng.shuffle(idx)
    for j in idx:
        q = ps[j]
        if "gate" in bspec:
            if isinstance(q, list):
                ps[j] = {"ty": "sF", "a": q}
            elif "a" in q:
                ps[j] = list(q["a"])
            elif "r" in q:
                r = unrat(q["r"])
                opts = [t for t in BUILTIN_R_TAGS if t != q["ty"] and (r.denominator == 1 or t not in ("i", "sI"))]
                ps[j] = dict(q, ty=rng.choice(opts))
            else:
                continue
            return ps
        if "v" not in q:
            continue
        cur = eff_custom_tag(q)
        pool = CUSTOM_V_TAGS_EXACT if exact_only else CUSTOM_V_TAGS_REAL
        opts = [t for t in pool + [None] if eff_custom_tag(dict(q, ty=t) if t else {"v": q["v"]}) == t and t != cur]
        if not opts:
            continue
        t = rng.choice(opts)
        ps[j] = dict({"v": q["v"]}, **({"ty": t} if t else {}))
        return ps
    return None


def _retype_mod(rng, m):
    """the same power / controlled modifier with its argument carried by another number type"""
    cur = mod_tag(m)
    if m[0] == "power":
        pool = EXP_TAGS_WHOLE if unrat(m[1]).denominator == 1 else EXP_TAGS_FRAC
        opts = [t for t in pool if eff_exp_tag(m[1], t) == t and t != cur]
    elif m[0] == "controlled" and m[1] >= 1:
        opts = [t for t in CTL_TAGS if eff_ctl_tag(m[1], t) == t and t != cur]
    else:
        return None
    return [m[0], m[1], rng.choice(opts)] if opts else None


def _v_numtype(rng, run, fast):
    """ONE numeric argument (an exponent, a control count, a parameter of the base gate or of a replace_params) handed over
    in another number type -- 2 -> 2.0 / Fraction(2) / sympy.Integer(2) / numpy.int32(2); 1/3 -> Fraction(1, 3) /
    sympy.Rational(1, 3) / sympy.Float(1/3): the same value, so the same gate and the same matrix are expected"""
    sites = [("mod", i) for i, m in enumerate(run["chain"]) if m[0] in ("power", "controlled")] * 2
    sites += [("rep", i) for i, m in enumerate(run["chain"]) if m[0] == "replace" and m[1]]
    if run["base"]["params"]:
        sites.append(("base", -1))
    rng.shuffle(sites)
    for what, i in sites:
        if what == "mod":
            m = _retype_mod(rng, run["chain"][i])
            if m is not None:
                return dict(run, chain=run["chain"][:i] + [m] + run["chain"][i + 1:])
        elif what == "rep":
            ps = _retype_params(rng, run["base"], run["chain"][i][1], exact_only=_has_ext(run))
            if ps is not None:
                return dict(run, chain=run["chain"][:i] + [["replace", ps]] + run["chain"][i + 1:])
        else:
            ps = _retype_params(rng, run["base"], run["base"]["params"], exact_only=_has_ext(run))
            if ps is not None:
                return dict(run, base=dict(run["base"], params=ps))
    return None


VARIATIONS = [_v_name, _v_name, _v_params, _v_near, _v_near, _v_arg, _v_arg, _v_struct, _v_numtype, _v_numtype]


def _session(rng, seed, fast, tier, n_variants):
    """[seed run, siblings that differ from it in exactly one component ..., seed run again], all in one process on shared
    prototypes / gate definitions (and, per `share`, on the same gate objects)"""
    max_total = 4
    if rng.random() < 0.35:
        seed = _retag_run(rng, seed, 0.5, 0.3)  # the siblings inherit the number types of the seed run's arguments
    variants, tried = [], 0
    ops = list(VARIATIONS)
    forced = [_v_name, rng.choice([_v_params, _v_near, _v_arg])]  # every session has a same-shape sibling with another gate
    while len(variants) < n_variants and tried < 40:
        tried += 1
        op = forced.pop(0) if forced and tried <= 8 + len(variants) * 4 and len(variants) < 2 else rng.choice(ops)
        v = op(rng, seed, fast)
        if v is None and op in (_v_name, _v_params, _v_near) and tried < 8:
            forced.insert(0, op)  # a few more attempts (random choices inside), then give up on it
        if v is None or not _run_ok(v, max_total) or (not fast and _has_ext(v)):
            continue
        if any(_run_key(v) == _run_key(w) for w in variants + [seed]):
            continue
        variants.append(v)
    share = rng.choice(["none", "base", "all", "all"])
    runs = []
    for k, r in enumerate([seed] + variants + [seed]):
        runs.append({"base": r["base"], "chain": r["chain"], "order": "fwd" if (k == 0 or rng.random() < 0.65) else "rev",
                     "share": share, "reread": bool(rng.random() < 0.5), "recheck": True, "decoy": bool(rng.random() < 0.5)})
    return {"kind": "session-ext" if fast else "session", "runs": runs, "tier": tier}


def _int_seed_run(rng):
    base = _random_base(rng, 2, custom_prob=0.3)
    if rng.random() < 0.12:
        base = _syntax_const_base(rng) or base
    if "gate" in base and rng.random() < 0.5:
        # parametric built-ins are where a key made of too few components collides
        base = {"gate": rng.choice([n for n in circ.BUILTIN_PARAMS if circ.BUILTIN_PARAMS[n] > 0 and n != "RH"])}
        base["params"] = _params_for(rng, base, 0.15)
    for _ in range(20):
        chain = _random_chain(rng, base, rng.choice([1, 2, 2, 3]), 3, False)
        if base["params"] and rng.random() < 0.35:
            chain = list(chain)
            chain.insert(rng.randrange(1, len(chain) + 1) if chain else 0, ["replace", _params_for(rng, base, 0.1)])
        run = {"base": base, "chain": chain}
        if chain and _run_ok(run, 3):
            return run
    return {"base": base, "chain": [["dagger"]]}


EXT_PATTERNS = [
    [["exp"], ["power", "n"]], [["exp"], ["power", "n"]], [["exp"], ["dagger"]], [["exp"], ["controlled", 1]],
    [["exp"], ["power", "n"], ["controlled", 1]], [["exp"], ["power", "n"], ["dagger"]], [["dagger"], ["exp"], ["power", "n"]],
    [["power", "1/q"]], [["power", "1/q"], ["controlled", 1]], [["power", "1/q"], ["power", "n"]], [["power", "n"], ["exp"]],
    [["controlled", 1], ["exp"]], [["controlled", 1], ["exp"], ["power", "n"]], [["exp"], ["replace"], ["power", "n"]],
    [["power", "1/q"], ["replace"]], [["exp"], ["controlled", 1], ["power", "n"]],
    [["exp"], ["replace"]], [["exp"], ["dagger"], ["replace"]], [["exp"], ["controlled", 1], ["replace"]],
    [["power", "n"], ["exp"], ["replace"]], [["power", "1/q"], ["controlled", 1], ["replace"]],
]


def _ext_seed_run(rng):
    for _ in range(40):
        pat = rng.choice(EXT_PATTERNS)
        needs_params = any(m[0] == "replace" for m in pat)
        ctl_first = pat[0][0] == "controlled"
        has_exp = any(m[0] == "exp" for m in pat)
        pool0, pool1 = (EXP0, EXP1) if has_exp else (FAST0, FAST1)
        if (needs_params and rng.random() < 0.7) or (not needs_params and rng.random() < 0.45):
            base = {"gate": rng.choice([n for n in pool1 if not (ctl_first and circ.BUILTIN_QUBITS[n] > 1)])}
        elif needs_params or rng.random() < 0.2:
            _counter[0] += 1
            syms = 1 if needs_params else rng.choice([0, 1])
            base = {"custom": f"sg{_counter[0]}", "rows": _diagish_rows(rng, syms), "nsyms": syms}
        else:
            base = {"gate": rng.choice([n for n in pool0 if not (ctl_first and circ.BUILTIN_QUBITS[n] > 1)])}
        base["params"] = _params_for(rng, base, 0.0)
        chain = []
        for m in pat:
            if m[0] == "power" and m[1] == "n":
                chain.append(["power", rng.choice([-2, -1, 2, 3, 2, -1])])
            elif m[0] == "power":
                chain.append(["power", f"1/{rng.choice([2, 2, 3, 4, 5])}"])
            elif m[0] == "replace":
                chain.append(["replace", _params_for(rng, base, 0.0)])
            else:
                chain.append(list(m))
        run = {"base": base, "chain": chain}
        if _run_ok(run, 3):
            return run
    return {"base": {"gate": "Z", "params": []}, "chain": [["exp"], ["power", 2]]}


def _diagish_rows(rng, syms):
    """2x2 triangular Gaussian-integer matrix with non-zero diagonal (sympy's exp / roots of it return quickly)"""
    a, d = rng.choice([1, 2, -1, 3]), rng.choice([1, 2, -2, 3])
    rows = [[[a, rng.choice([0, 1])], [rng.choice([0, 1, 2]), 0]], [[0, 0], [d, rng.choice([0, -1])]]]
    if syms:
        rows[0][1] = {"sym": 0}
    return rows


# ------------------------------------------------------------------ exotic but legal inputs
def _exotic_cases(rng, tier, n_pow, n_ctl, n_root):
    out = []
    for _ in range(n_pow):  # large exponents, integer exponents handed over as floats
        base = _random_base(rng, 2, custom_prob=0.2)
        if rng.random() < 0.5:
            e = rng.choice([4, 5, 6, 7, 8, 9, 12, -4, -5, -6, -8, -11] if "gate" in base else [4, 5, 6, -4, -5])
            mod = ["power", e] + (["f"] if rng.random() < 0.3 else [])
        else:
            mod = ["power", rng.choice([-3, -2, -1, 0, 1, 2, 3]), "f"]
        pre = rng.choice([[], [], [["dagger"]], [["controlled", 1]], [["replace", _params_for(rng, base)]]])
        post = rng.choice([[], [], [["dagger"]], [["controlled", 1]], [["power", 2]], [["replace", _params_for(rng, base)]]])
        out.append({"kind": "exotic", "base": base, "chain": pre + [mod] + post, "tier": tier})
    for _ in range(n_ctl):  # many controls (up to 6 qubits in total)
        base = _random_base(rng, 1, custom_prob=0.2, small_custom=True)
        chain = rng.choice([
            [["controlled", 4]], [["controlled", 5]], [["controlled", 2], ["controlled", 3]], [["dagger"], ["controlled", 4]],
            [["power", -2], ["controlled", 4]], [["controlled", 4], ["dagger"]], [["controlled", 3], ["controlled", 1], ["power", 2]],
            [["controlled", 1], ["controlled", 1], ["controlled", 2], ["dagger"]], [["power", 3], ["controlled", 5], ["dagger"]],
            [["controlled", 4], ["replace", _params_for(rng, base)]]])
        out.append({"kind": "exotic", "base": base, "chain": chain, "tier": tier})
    for _ in range(n_root):  # unit fractions beyond 1/4
        name = rng.choice(["X", "Y", "Z", "H", "S", "T", "CZ", "CNOT", "SWAP", "ISWAP", "RZ", "PHASE", "RX", "RY", "GPi", "CPHASE", "ZZ"])
        base = {"gate": name}
        base["params"] = _params_for(rng, base, 0.0)
        # the property has no bound on q: a ladder across the round numbers where a rationalisation / cap / table would sit
        q = rng.choice([5, 6, 7, 8, 9, 16] + [17, 31, 32, 33, 63, 64, 65, 99, 100, 101, 127, 128, 129, 255, 256, 257, 360, 999, 1000, 1001, 1024, 4097, 65537])
        pre = rng.choice([[], [], [["dagger"]], [["power", 2]]])
        post = rng.choice([[], [], [["controlled", 1]], [["power", q if q <= 64 else 2]], [["replace", _params_for(rng, base, 0.0)]]])
        out.append({"kind": "exotic", "base": base, "chain": pre + [["power", f"1/{q}"]] + post, "tier": tier})
    return out


# ------------------------------------------------------------------ the number type of every numeric argument
def _retag_run(rng, run, p_mod=0.5, p_par=0.3):
    """the same run with its numeric arguments handed over in other rungs of their type ladders (each exponent / control
    count with probability p_mod, each parameter list with p_par).  Values do not change, so neither does anything the
    oracle or the model expects."""
    ext = _has_ext(run)
    chain = []
    for m in run["chain"]:
        m2 = None
        if m[0] in ("power", "controlled") and len(m) == 2 and rng.random() < p_mod:
            m2 = _retype_mod(rng, m)
        elif m[0] == "replace" and rng.random() < p_par:
            ps = _retype_params(rng, run["base"], m[1], exact_only=ext)
            m2 = ["replace", ps] if ps is not None else None
        chain.append(m2 if m2 is not None else list(m))
    base = run["base"]
    if base["params"] and rng.random() < p_par:
        ps = _retype_params(rng, base, base["params"], exact_only=ext)
        if ps is not None:
            base = dict(base, params=ps)
    return dict(run, base=base, chain=chain)


# routes: which METHOD of which wrapper class receives (or passes on) the typed argument.  E = the typed exponent, E2 = a second
# typed whole exponent, K / K2 = typed control counts, P = new parameters, W = whole exponents only (exp involved)
# (every prefix of a chain is judged, so a route that is a prefix of another one is not listed: gate.power, power.dagger,
# exp.power, gate.controlled are the first steps of the routes below)
EXP_ROUTES = [
    ("dagger.power", [["dagger"], "E"], "nonherm"), ("controlled.power", [["controlled", 1], "E"], ""),
    ("power.controlled", ["E", ["controlled", 1]], ""),
    ("power.power", ["E", "E2"], ""), ("power-of-power", [["power", 2], "E"], ""), ("power.replace", ["E", ["replace", "P"]], "params"),
    ("controlled.dagger.power", [["controlled", 1], ["dagger"], "E"], "nonherm"),
    ("power.dagger.controlled.replace", ["E", ["dagger"], ["controlled", 2], ["replace", "P"]], "params nonherm"),
    ("power.power.dagger", [["power", -1], "E", ["dagger"]], "nonherm"),
    ("power.exp", ["E", ["exp"]], "W"), ("exp.power.controlled", [["exp"], "E", ["controlled", 1]], "W"),
]
CTL_ROUTES = [
    ("controlled.controlled", ["K", "K2"], ""), ("dagger.controlled", [["dagger"], "K"], "nonherm"),
    ("power.controlled", [["power", -2], "K"], ""), ("root.controlled", [["power", "1/2"], "K"], ""), ("exp.controlled", [["exp"], "K"], "W"),
    ("controlled.dagger", ["K", ["dagger"]], "nonherm"), ("controlled.power", ["K", ["power", 3]], ""),
    ("controlled.replace", ["K", ["replace", "P"]], "params"), ("controlled.exp", ["K1", ["exp"]], "W"),
]
PAR_ROUTES = [
    ("dagger.replace", [["dagger"], ["replace", "P"]]), ("controlled.replace", [["controlled", 1], ["replace", "P"]]),
    ("power.replace", [["power", -2], ["replace", "P"]]), ("exp.replace", [["exp"], ["replace", "P"]]),
    ("replace.dagger", [["replace", "P"], ["dagger"]]), ("base.power.controlled", [["power", 2], ["controlled", 1]]),
    ("dagger.controlled.power.replace", [["dagger"], ["controlled", 1], ["power", 2], ["replace", "P"]]),
    ("base.exp.dagger", [["exp"], ["dagger"]]), ("root.replace", [["power", "1/2"], ["replace", "P"]]),
]
NONHERM1 = ["S", "T", "SX", "RZ", "PHASE", "RX", "RY"]
WHOLE_LADDER = [2, -1, 0, -2, 3, 1, -3, 5]
ROOT_LADDER = [2, 3, 4, 5, 8]


def _nt_base(rng, flags, ext):
    """a cheap 1-qubit base for the number-type stream: built-ins on which sympy's exp (ext == "exp") / roots (ext == "root")
    return quickly, or an invertible triangular custom gate"""
    params = "params" in flags
    if ext == "exp":
        pool = EXP1 if params else (EXP0[:6] + EXP1)
    else:
        pool = [n for n in (FAST0[:7] + FAST1[:5]) if circ.BUILTIN_QUBITS[n] == 1]
        if params:
            pool = [n for n in pool if circ.BUILTIN_PARAMS[n] > 0]
    if "nonherm" in flags:
        pool = [n for n in pool if n in NONHERM1] or ["RY"]
    if rng.random() < 0.25:
        _counter[0] += 1
        syms = 1 if params else rng.choice([0, 1])
        b = {"custom": f"nt{_counter[0]}", "rows": _diagish_rows(rng, syms), "nsyms": syms}
    else:
        b = {"gate": rng.choice(pool)}
    b["params"] = _params_for(rng, b, 0.0)
    return b


def _typed_params(rng, bspec, tag):
    """a fresh parameter list for bspec in which ONE entry is carried by the number type `tag` (built-in: "a:sF" = float value
    as sympy.Float, "r:<tag>" = the angle p/q itself in that type; custom: a real / complex value in that type)"""
    ps = _params_for(rng, bspec, 0.0)
    if not ps:
        return ps
    j = rng.randrange(len(ps))
    if "gate" in bspec:
        if tag == "a:sF":
            ps[j] = {"ty": "sF", "a": ps[j]}
        else:
            t = tag.split(":")[1]
            r = Fraction(rng.choice([-3, -2, -1, 0, 1, 2, 3, 4]), 1 if t in ("i", "sI") else rng.choice([1, 2, 3, 4, 5, 8]))
            ps[j] = {"ty": t, "r": rat(r)}
        return ps
    whole = tag in ("i", "sI") or tag in _NP_RANGE
    re_ = Fraction(rng.choice([-3, -2, -1, 1, 2, 3]), 1 if whole else rng.choice([1, 2, 4]))
    im_ = Fraction(rng.choice([-2, -1, 1, 3]), rng.choice([1, 2, 4])) if (tag in ("c", "sF") and rng.random() < 0.6) else Fraction(0)
    ps[j] = {"v": [rat(re_), rat(im_)], "ty": tag}
    return ps


def _numtype_cases(rng, tier, full=False):
    """every rung of every type ladder on every route of the modifier API, each judged by the ordinary sentences: the typed
    argument as exponent (whole: negative, zero, positive; unit fractions), as control count, as parameter (of the base gate and
    of replace_params), on plain gates and under nesting.  quick: the numpy integer types share one column (rotating), so each
    run holds every (route, type family) cell once; thorough (`full`): every numpy type has its own column and two values."""
    out = []
    ctr = [rng.randrange(1000)]

    def nxt(seq):
        ctr[0] += 1
        return seq[ctr[0] % len(seq)]

    def fill(route, flags, subst, ext, max_total=4):
        for _ in range(20):
            base = _nt_base(rng, flags, ext)
            chain = []
            for m in route:
                if isinstance(m, str):
                    chain.append(list(subst[m]))
                elif m[0] == "replace":
                    chain.append(["replace", _params_for(rng, base, 0.0)])
                else:
                    chain.append(list(m))
            run = {"base": base, "chain": chain}
            if _run_ok(run, max_total):
                return run
        return None

    def add(kind_route, run):
        if run is not None:
            out.append({"kind": "numtype", "route": kind_route, "base": run["base"], "chain": run["chain"], "tier": tier})

    np_cols = NP_INT_TAGS if full else [None]
    # --- exponents: whole values
    for name, route, flags in EXP_ROUTES:
        ext = "exp" if "W" in flags else None
        for fam in ["f", "F", "sI", "sF"] + np_cols:
            for _ in range(2 if full else 1):
                tag = fam if fam is not None else nxt(NP_INT_TAGS)
                e = nxt(WHOLE_LADDER)
                if tag == "nu8":
                    e = abs(e)
                if ext and name != "power.exp":
                    e = max(-2, min(e, 3))  # integer powers of an exp: sympy expands them; keep the exponent small
                e2 = ["power", nxt([2, -1, 3]), nxt(["F", "sI", "sF", "f"] + NP_INT_TAGS)]
                add("exponent:" + name, fill(route, flags, {"E": ["power", e, tag], "E2": e2}, ext))
    # --- exponents: unit fractions (only routes without exp; the root is taken while the gate has <= 2 qubits)
    for name, route, flags in EXP_ROUTES:
        if "W" in flags:
            continue
        for tag in ["F", "sR", "sF"] + (["f"] if full else []):
            q = nxt(ROOT_LADDER)
            e2 = ["power", nxt([2, 3, q]), nxt(["F", "sI", "sF", "f"] + NP_INT_TAGS)]
            add("root:" + name, fill(route, flags, {"E": ["power", f"1/{q}", tag], "E2": e2}, "root"))
    # --- control counts
    for name, route, flags in CTL_ROUTES:
        ext = "exp" if "W" in flags else ("root" if name == "root.controlled" else None)
        for fam in ["b", "sI"] + np_cols:
            tag = fam if fam is not None else nxt(NP_INT_TAGS)
            k = 1 if tag == "b" else nxt([1, 2, 1, 3, 2])
            if ext:
                k = min(k, 2)
            k2 = ["controlled", nxt([1, 2]), nxt(["b", "sI"] + NP_INT_TAGS)]
            add("count:" + name, fill(route, flags, {"K": ["controlled", k, tag], "K1": ["controlled", 1, tag], "K2": k2}, ext, 6))
    # --- parameters: of the base gate and of replace_params, under every wrapper's replace_params
    ptags = ["a:sF"] + ["r:" + t for t in BUILTIN_R_TAGS] + CUSTOM_V_TAGS_REAL
    for tag in ptags + [nxt(ptags) for _ in range(5)]:
        for _ in range(3 if full else 1):
            name, route = nxt(PAR_ROUTES)
            ext = any(m == ["exp"] or (m[0] == "power" and isinstance(m[1], str)) for m in route if not isinstance(m, str))
            custom = ":" not in tag
            if custom and ext and tag not in CUSTOM_V_TAGS_EXACT:
                name, route = PAR_ROUTES[0]
                ext = False
            for _ in range(20):
                if custom:
                    _counter[0] += 1
                    base = {"custom": f"ntp{_counter[0]}", "rows": _diagish_rows(rng, 1), "nsyms": 1}
                else:
                    base = {"gate": rng.choice(EXP1 if ext else ["RZ", "PHASE", "RX", "RY", "GPi", "GPi2", "U3", "RH"])}
                typed_base = rng.random() < 0.5 or not any(m[0] == "replace" for m in route)
                base["params"] = _typed_params(rng, base, tag) if typed_base else _params_for(rng, base, 0.0)
                chain = [["replace", _typed_params(rng, base, tag)] if m[0] == "replace" else list(m) for m in route]
                run = {"base": base, "chain": chain}
                if _run_ok(run, 4):
                    add("parameter:" + name, run)
                    break
    return out


# ------------------------------------------------------------------ parameter values at which the matrix happens to be special
AXIS = [[1, 0], [0, 1], [-1, 0], [0, -1]]


def _herm_custom(rng):
    """parametric custom gate + parameter values at which its matrix is self-adjoint (and generic ones at which it is not)"""
    d = 2
    H = [[None] * d for _ in range(d)]
    for i in range(d):
        H[i][i] = [rng.randrange(-2, 3), 0]
        for j in range(i + 1, d):
            re, im = rng.randrange(-2, 3), rng.randrange(-2, 3)
            H[i][j], H[j][i] = [re, im], [re, -im]
    nsyms = rng.choice([1, 1, 2])
    pos = rng.sample([(i, j) for i in range(d) for j in range(d)], nsyms)
    special, generic = [], []
    G = [[complex(*e) for e in row] for row in H]
    for s, (i, j) in enumerate(pos):
        special.append({"v": [H[i][j][0], H[i][j][1]]})
        gv = [H[i][j][0] + Fraction(rng.choice([-3, -1, 1, 2, 3]), rng.choice([1, 2])),
              H[i][j][1] + Fraction(rng.choice([-2, -1, 1, 3]), rng.choice([1, 2, 4]))]
        generic.append({"v": [rat(gv[0]), rat(gv[1])]})
        G[i][j] = complex(float(gv[0]), float(gv[1]))
    S = [[complex(*e) for e in row] for row in H]
    if abs(S[0][0] * S[1][1] - S[0][1] * S[1][0]) < 0.5 or abs(G[0][0] * G[1][1] - G[0][1] * G[1][0]) < 0.05:
        return _herm_custom(rng)  # negative powers of singular matrices belong to the malformed stream
    for s, (i, j) in enumerate(pos):
        H[i][j] = {"sym": s}
    _counter[0] += 1
    return {"custom": f"hg{_counter[0]}", "rows": H, "nsyms": nsyms}, special, generic


SPECIAL_PATTERNS = [
    ("S", [["dagger"], ["replace", "G"]]), ("S", [["replace", "G"], ["dagger"]]),
    ("S", [["controlled", 1], ["dagger"], ["replace", "G"]]), ("S", [["dagger"], ["controlled", 2], ["replace", "G"]]),
    ("S", [["power", 2], ["dagger"], ["replace", "G"]]), ("S", [["replace", "G"], ["power", -1], ["dagger"]]),
    ("S", [["dagger"], ["power", -1], ["replace", "G"]]), ("S", [["controlled", 1], ["replace", "G"], ["dagger"]]),
    ("G", [["replace", "S"], ["dagger"]]), ("G", [["dagger"], ["replace", "S"]]),
    ("G", [["dagger"], ["replace", "S"], ["replace", "G"]]), ("G", [["replace", "S"], ["controlled", 1], ["dagger"], ["replace", "G"]]),
    ("S", [["dagger"], ["replace", "G"], ["dagger"]]), ("S", [["power", 3], ["replace", "G"], ["dagger"], ["controlled", 1]]),
]


def _special_cases(rng, tier, n):
    out = []
    for _ in range(n):
        if rng.random() < 0.5:
            base, special, generic = _herm_custom(rng)
        else:
            base = {"gate": rng.choice([g for g in circ.BUILTIN_PARAMS if circ.BUILTIN_PARAMS[g] > 0 and g != "Delay"])}
            k = circ.BUILTIN_PARAMS[base["gate"]]
            special = [list(rng.choice(AXIS)) for _ in range(k)]
            generic = [circ.rat_angle(rng, 0.0) for _ in range(k)]
        start, pat = rng.choice(SPECIAL_PATTERNS)
        vals = {"S": special, "G": generic}
        chain = [["replace", vals[m[1]]] if m[0] == "replace" else list(m) for m in pat]
        out.append({"kind": "special", "base": dict(base, params=vals[start]), "chain": chain, "tier": tier})
    return out


# ------------------------------------------------------------------ values whose nature is not visible syntactically
X_UNIT = ["m1^(1/4)", "m1^(3/4)", "m1^(-1/4)", "m1^(5/4)", "m1^(1/3)", "m1^(2/3)", "m1^(-2/3)", "m1^(1/6)", "m1^(1/8)", "m1^(3/8)",
          "root(-1,3)^2", "exp(i pi/4)", "exp(-3i pi/4)", "exp(i pi/3)", "exp(-2i pi/3)", "exp(i pi/8)", "sqrt(I)", "(1+I)/sqrt(2)",
          "I^(3/2)", "exp_polar(i pi/4)", "exp_polar(-i pi/3)", "exp(i pi/2)", "complex(0,1)"]
X_COMPLEX = X_UNIT + ["root(-4,4)", "root(-16,4)", "root(-8,3)", "(-27)^(1/3)", "sqrt(-2)", "sqrt(-9)", "Mul(2,1/2+I)", "z-1/z",
                      "complex(0.5,-0.25)", "0.5*I"]
X_REAL = ["sqrt(2)/2", "1+sqrt(2)", "-sqrt(2)", "cos(1)", "2^(1/3)", "cos(pi/8)", "pi/4", "z+1/z", "Float(0.5)", "Float(-1.25)",
          "Float(2.0)", "exp(i pi)"]
X_HIDDEN_COMPLEX = [n for n in X_COMPLEX if n.startswith(("m1^", "root(", "(-27)", "z-1/z"))]  # complex, no syntactic I
PI_MULTIPLES = [0, "1/2", 1, "-1/2", "3/2", 2, "1/4", "-3/4", "1/3", "2/3", "-1/6", "1/8", "5/4"]
PI_GATES = ["RX", "RY", "RZ", "PHASE", "GPi", "GPi2", "CPHASE", "XX", "YY", "ZZ", "XY"]
PI_DIAGONAL = ["RZ", "PHASE", "CPHASE", "ZZ"]


def _entry_value(e, params=None):
    if isinstance(e, dict):
        if "x" in e:
            return _xval(e["x"])
        if "xp" in e:
            out = 1
            for n in e["xp"]:
                out *= _xval(n)
            return out
        return None
    return complex(float(unrat(e[0])), float(unrat(e[1])))


def _det2_ok(rows):
    vals = [[_entry_value(e) for e in row] for row in rows]
    if any(v is None for row in vals for v in row):
        return True
    if len(vals) != 2:
        return True
    return abs(vals[0][0] * vals[1][1] - vals[0][1] * vals[1][0]) > 0.3


def _syntax_base(rng):
    """custom gate (or built-in at an exact multiple of pi) whose entries / parameters hide what they are.
    returns (base spec without params, parameter generator, externals_ok)"""
    _counter[0] += 1
    name = f"xg{_counter[0]}"
    def X(pool):
        inside = [n for n in pool if XTAB[n] is not None]  # half of the time a value the model's field Q(zeta8) contains
        return {"x": rng.choice(inside if (inside and rng.random() < 0.5) else pool)}
    g = lambda: [rng.randrange(-2, 3), rng.randrange(-2, 3)]  # noqa: E731
    gr = lambda: [rng.choice([-2, -1, 1, 2, 3]), 0]  # noqa: E731
    Z = [0, 0]
    for _ in range(50):
        t = rng.choice(["diag1x", "diag1x", "diag1x", "diagxy", "tri", "dense", "dense", "herm", "symm", "symm", "diag4", "block4",
                        "zpow", "zpow", "zpow", "unitary", "unitary", "unitary", "symparam", "symparam", "flags", "pi", "pi", "pi",
                        "undecided", "undecided"])
        pgen = lambda: []  # noqa: E731
        ext = False
        if t == "diag1x":  # cirq-style phase gate at a fixed root of unity
            b = {"custom": name, "rows": [[[1, 0], Z], [Z, X(X_UNIT + X_HIDDEN_COMPLEX)]], "nsyms": 0}
            ext = True
        elif t == "diagxy":
            b = {"custom": name, "rows": [[X(X_COMPLEX + X_REAL), Z], [Z, X(X_COMPLEX)]], "nsyms": 0}
            ext = True
        elif t == "tri":
            b = {"custom": name, "rows": [[X(X_COMPLEX + X_REAL), rng.choice([g(), X(list(XZERO)), X(X_COMPLEX), X(X_UNDECIDED), X(X_UNDECIDED)])],
                                          [rng.choice([Z, X(list(XZERO))]), X(X_COMPLEX + X_REAL)]], "nsyms": 0}
            ext = True
        elif t == "undecided":  # off-diagonal entries that are non-zero (or zero) without sympy being able to tell
            u = rng.choice([X(X_UNDECIDED), X(X_UNDECIDED), {"x": "hidden0c"}])
            v = rng.choice([Z, Z, X(X_UNDECIDED), {"x": "hidden0c"}])
            b = {"custom": name, "rows": [[rng.choice([gr(), X(X_COMPLEX + X_REAL)]), u], [v, rng.choice([gr(), X(X_COMPLEX)])]], "nsyms": 0}
            ext = True
        elif t == "dense":
            b = {"custom": name, "rows": [[rng.choice([gr(), X(X_REAL)]), X(X_COMPLEX)], [rng.choice([g(), X(X_COMPLEX)]), rng.choice([g(), X(X_COMPLEX + X_REAL)])]],
                 "nsyms": 0}
        elif t == "unitary":  # sqrt(2)/2 * [[1, x], [y, -x y]] with |x| = |y| = 1: unitary; self-adjoint iff y = conj(x)
            hid = [n for n in X_UNIT if n.startswith(("m1^", "root("))]
            x = rng.choice(hid if rng.random() < 0.7 else X_UNIT)
            y = XCONJ[x] if (x in XCONJ and rng.random() < 0.35) else rng.choice(hid if rng.random() < 0.7 else X_UNIT)
            h = "sqrt(2)/2"
            b = {"custom": name, "rows": [[{"x": h}, {"xp": [h, x]}], [{"xp": [h, y]}, {"xp": ["minus1", h, x, y]}]], "nsyms": 0}
            ext = rng.random() < 0.3
        elif t == "herm":  # self-adjoint, but only after evaluation: conj(x) is written as a different expression
            x = rng.choice(list(XCONJ))
            b = {"custom": name, "rows": [[gr(), {"x": x}], [{"x": XCONJ[x]}, gr()]], "nsyms": 0}
        elif t == "symm":  # symmetric and without I -- looks like a real symmetric (= self-adjoint) matrix, is neither
            x = X(X_HIDDEN_COMPLEX)
            b = {"custom": name, "rows": [[rng.choice([gr(), X(X_REAL)]), x], [x, rng.choice([gr(), X(X_HIDDEN_COMPLEX)])]], "nsyms": 0}
            ext = rng.random() < 0.3
        elif t == "diag4":
            d = [[1, 0], X(X_UNIT), X(X_UNIT if rng.random() < 0.6 else X_COMPLEX), rng.choice([[1, 0], [1, 0], X(X_REAL)])]
            rng.shuffle(d)
            b = {"custom": name, "rows": [[d[i] if i == j else Z for j in range(4)] for i in range(4)], "nsyms": 0}
        elif t == "block4":
            m = [[gr(), X(X_COMPLEX)], [g(), X(X_COMPLEX)]]
            b = {"custom": name, "rows": [[[1, 0], Z, Z, Z], [Z, X(X_UNIT), Z, Z], [Z, Z] + m[0], [Z, Z] + m[1]], "nsyms": 0}
            if not _det2_ok(m):
                continue
        elif t == "zpow":  # ZPow(t) = diag(1, (-1)**t) / diag(1, exp(i pi t)) at exact rational t
            kind = rng.choice(["m1pow", "m1pow", "expipi"])
            other = rng.choice([Z, Z, g()])
            b = {"custom": name, "rows": [[[1, 0], other], [Z, {"xs": kind, "sym": 0}]], "nsyms": 1,
                 "symflags": [rng.choice([None, None, "real"])]}
            pgen = lambda: [{"v": [rat(Fraction(rng.choice([1, -1, 2, -2, 3, 5, 1, 3]), rng.choice([4, 3, 4, 3, 6, 8, 2, 1]))), 0]}]  # noqa: E731
            ext = other == Z
        elif t == "symparam":  # ordinary symbol entries, exotic VALUES substituted for them
            rows = [[gr(), {"sym": 0}], [rng.choice([Z, g()]), rng.choice([gr(), {"sym": 1}])]]
            n = 2 if rows[1][1] == {"sym": 1} else 1
            b = {"custom": name, "rows": rows, "nsyms": n}
            pgen = lambda n=n: [({"x": rng.choice(X_COMPLEX + X_REAL)} if rng.random() < 0.8 else _val(rng)) for _ in range(n)]  # noqa: E731
        elif t == "flags":  # symbols that carry assumptions; the values handed in respect them
            fl = rng.choice(["real", "positive", "complex"])
            b = {"custom": name, "rows": [[{"sym": 0}, X(X_COMPLEX)], [rng.choice([g(), X(X_HIDDEN_COMPLEX)]), gr()]], "nsyms": 1, "symflags": [fl]}
            if fl == "complex":
                pgen = lambda: [rng.choice([_val(rng), {"x": rng.choice(X_COMPLEX)}])]  # noqa: E731
            else:
                pgen = lambda: [rng.choice([{"v": [rat(Fraction(rng.randrange(1, 7), rng.choice([1, 2, 4]))), 0]},  # noqa: E731
                                            {"x": rng.choice(["sqrt(2)/2", "1+sqrt(2)", "cos(1)", "2^(1/3)", "Float(0.5)", "Float(2.0)", "pi/4"])}])]
        else:  # built-in gate at an exact multiple of pi: exact matrices, the code path next to the float one
            gname = rng.choice(PI_GATES)
            b = {"gate": gname}
            pgen = lambda: [{"pi": rng.choice(PI_MULTIPLES)}]  # noqa: E731
            ext = gname in PI_DIAGONAL
        if "rows" in b and len(b["rows"]) == 2 and not _det2_ok(b["rows"]):
            continue
        if "rows" in b:  # a hidden zero on the diagonal would make the gate singular: that is the malformed stream's business
            if any(isinstance(b["rows"][i][i], dict) and b["rows"][i][i].get("x") in XZERO for i in range(len(b["rows"]))):
                continue
        return b, pgen, ext
    return {"custom": name, "rows": [[[1, 0], Z], [Z, {"x": "m1^(1/4)"}]], "nsyms": 0}, (lambda: []), True


SYNTAX_PATTERNS = [  # (needs externals, needs parameters, chain); "n" = integer, "-n" = negative integer, "1/q", "P" = new parameters
    (0, 0, [["dagger"]]), (0, 0, [["dagger"], ["controlled", 1]]), (0, 0, [["controlled", 2], ["dagger"]]),
    (0, 0, [["dagger"], ["power", "n"]]), (0, 0, [["power", "-n"]]), (0, 0, [["power", "-n"], ["dagger"]]),
    (0, 0, [["controlled", 1], ["power", "-n"]]), (0, 0, [["power", "-n"], ["controlled", 1], ["dagger"]]), (0, 0, [["dagger"], ["power", "-n"]]),
    (1, 0, [["exp"], ["dagger"]]), (1, 0, [["dagger"], ["exp"]]), (1, 0, [["exp"], ["power", "-n"]]), (1, 0, [["exp"], ["dagger"], ["controlled", 1]]),
    (1, 0, [["power", "1/q"]]), (1, 0, [["power", "1/q"], ["power", "n"]]), (1, 0, [["dagger"], ["power", "1/q"]]), (1, 0, [["power", "-n"], ["exp"]]),
    (0, 1, [["replace", "P"], ["dagger"]]), (0, 1, [["dagger"], ["replace", "P"]]), (0, 1, [["power", "-n"], ["replace", "P"]]),
    (0, 1, [["controlled", 1], ["replace", "P"], ["dagger"]]), (1, 1, [["exp"], ["replace", "P"], ["dagger"]]), (1, 1, [["power", "1/q"], ["replace", "P"]]),
]


def _syntax_chain(rng, base, pgen, ext_ok, depth):
    nq = _base_nq(base)
    has_params = bool(base["params"])
    if rng.random() < 0.65:
        ok = [c for (e, pr, c) in SYNTAX_PATTERNS if (not e or (ext_ok and nq == 1)) and (not pr or has_params)]
        chain = []
        for m in rng.choice(ok):
            if m[0] == "power" and m[1] == "n":
                chain.append(["power", rng.choice([-2, 2, 3])])
            elif m[0] == "power" and m[1] == "-n":
                chain.append(["power", rng.choice([-1, -1, -2, -3])] + (["f"] if rng.random() < 0.1 else []))
            elif m[0] == "power":
                chain.append(["power", f"1/{rng.choice([2, 2, 3, 4, 5])}"])
            elif m[0] == "replace":
                chain.append(["replace", pgen()])
            else:
                chain.append(list(m))
        return chain
    chain, ext_used = [], 0
    for _ in range(depth):
        kinds = ["dagger", "dagger", "dagger", "power", "power", "controlled"]
        if has_params:
            kinds += ["replace", "replace"]
        if ext_ok and nq <= 1 + (1 if "gate" in base else 0) and ext_used < 1:
            kinds += ["exp", "frac"]
        t = rng.choice(kinds)
        if t == "controlled":
            if nq >= 3:
                t = "dagger"
            else:
                k = rng.randrange(1, 4 - nq)
                chain.append(["controlled", k])
                nq += k
                continue
        if t == "dagger":
            chain.append(["dagger"])
        elif t == "power":
            chain.append(["power", rng.choice([-3, -2, -1, -1, 0, 2, 3, 4])] + (["f"] if rng.random() < 0.15 else []))
        elif t == "frac":
            chain.append(["power", f"1/{rng.choice([2, 2, 3, 4, 5])}"])
            ext_used += 1
        elif t == "exp":
            chain.append(["exp"])
            ext_used += 1
        elif t == "replace":
            chain.append(["replace", pgen()])
    return chain


FIRST_MODIFIERS = ["dagger", "power-neg", "exp", "controlled", "power-frac", "power-pos", "replace", "power-neg", "dagger", "exp"]


def _first_modifier_chain(rng, base, pgen, ext_ok, which):
    """the modifier that is applied FIRST sees the matrix exactly as the user wrote it"""
    small = _base_nq(base) == 1
    if which == "replace" and not base["params"]:
        which = "power-neg"
    if which in ("exp", "power-frac") and not (ext_ok and small):
        which = "dagger" if which == "exp" else "power-neg"
    first = {"dagger": ["dagger"], "exp": ["exp"], "controlled": ["controlled", rng.choice([1, 2])],
             "power-neg": ["power", rng.choice([-1, -2, -3])], "power-pos": ["power", rng.choice([2, 3])],
             "power-frac": ["power", f"1/{rng.choice([2, 3, 4])}"]}.get(which) or ["replace", pgen()]
    rest = rng.choice([[], [["dagger"]], [["dagger"]], [["controlled", 1]], [["power", rng.choice([-1, 2])]], [["dagger"], ["controlled", 1]]])
    if first == ["dagger"] and rest[:1] == [["dagger"]]:
        rest = [["power", -1]]
    return [first] + rest


def _syntax_cases(rng, tier, n):
    out = []
    for i in range(n // 2):
        base, pgen, ext_ok = _syntax_base(rng)
        base["params"] = pgen()
        out.append({"kind": "syntax", "base": base, "tier": tier,
                    "chain": _first_modifier_chain(rng, base, pgen, ext_ok, FIRST_MODIFIERS[i % len(FIRST_MODIFIERS)])})
        chain = _syntax_chain(rng, base, pgen, ext_ok, rng.choice([1, 2, 2, 3, 3]))
        if not any(m[0] == "dagger" for m in chain) and rng.random() < 0.5:
            chain.insert(rng.randrange(len(chain) + 1), ["dagger"])  # conjugation is where a hidden complex number shows
        out.append({"kind": "syntax", "base": base, "chain": chain, "tier": tier})
    return out


def _syntax_const_base(rng):
    """a non-parametric custom gate with hidden-nature entries, for the sessions"""
    for _ in range(30):
        b, pgen, _ = _syntax_base(rng)
        if "rows" in b and b["nsyms"] == 0 and len(b["rows"]) == 2:
            b["params"] = []
            return b
    return None


# ------------------------------------------------------------------ custom gates whose matrix is NOT unitary: singular, nilpotent,
# defective (not diagonalisable), non-normal.  The property's sentences are statements about matrices, not about unitaries: the
# conjugate transpose, the block structure, the repeated product, the matrix exponential (a finite series for a nilpotent matrix)
# and the root law are defined for every square matrix; the inverse power is defined exactly for the invertible ones, and where
# it is not defined no matrix may be handed out (raising is what the unchanged library does, established by probing every family
# below on every route).  Entries are exact small (Gaussian) rationals, so the model answers every case that has no external.
DEFECTIVE_FAMILIES_1 = ["rank-one", "nilpotent", "jordan", "singular-nonnormal", "shear", "diag-singular"]
DEFECTIVE_FAMILIES_2 = ["rank-one", "nilpotent", "jordan", "singular-block", "kron-singular", "shear"]
NO_INVERSE = ("rank-one", "nilpotent", "singular-nonnormal", "diag-singular", "singular-block", "kron-singular")
# tokens: "-n" negative integer power, "n" integer power >= 2, "0", "1/q", "q" (the power q after a root 1/q), "d" dagger,
# "c" controlled, "e" exp.  Every route on which an exponent / the matrix of such a gate can reach Power.matrix, Dagger.matrix,
# ControlledGate.matrix, Exponential.matrix or one of the re-association rules.
DEFECTIVE_PATTERNS = {
    "neg": [["-n"], ["c", "-n"], ["-n", "c"], ["-n", "d"], ["d", "-n"], ["e", "-n"], ["n", "-n"], ["-n", "-n"], ["0", "-n"],
            ["c", "d", "-n"], ["-n", "n"], ["c", "-n", "d"], ["-n", "e"], ["-n", "c", "d"], ["d", "c", "-n"], ["-n", "d", "c"]],
    "zero": [["0"], ["c", "0"], ["0", "d"], ["d", "0", "c"], ["e", "0"], ["0", "c"]],
    # (the dagger OF a root is the F16 neighbourhood -- known finding, exercised by its own stream -- and is left out here)
    "root": [["1/q"], ["1/q", "q"], ["c", "1/q"], ["d", "1/q"], ["1/q", "c"], ["n", "1/q"], ["1/q", "n"]],
    "adj": [["d"], ["c", "d"], ["d", "c"], ["n", "d"], ["d", "n", "c"], ["c", "c", "d"], ["n", "c"], ["d", "d"]],
    "exp": [["e"], ["d", "e"], ["e", "d"], ["c", "e"], ["e", "c"], ["n", "e"], ["e", "n"], ["e", "d", "c"]],
}


def _small(rng, nonzero=False, gauss=False):
    """a small exact (Gaussian) rational [re, im]"""
    while True:
        re_ = Fraction(rng.randrange(-3, 4), rng.choice([1, 1, 1, 2]))
        im_ = Fraction(rng.randrange(-2, 3), rng.choice([1, 2])) if gauss and rng.random() < 0.5 else Fraction(0)
        if not nonzero or re_ != 0 or im_ != 0:
            return complex_frac(re_, im_)


def complex_frac(re_, im_=0):
    return (Fraction(re_), Fraction(im_))


def _cf_mul(a, b):
    return (a[0] * b[0] - a[1] * b[1], a[0] * b[1] + a[1] * b[0])


def _cf_add(a, b):
    return (a[0] + b[0], a[1] + b[1])


def _cf_div(a, b):
    n = b[0] * b[0] + b[1] * b[1]
    return ((a[0] * b[0] + a[1] * b[1]) / n, (a[1] * b[0] - a[0] * b[1]) / n)


def _cf_rows(M):
    return [[[rat(e[0]), rat(e[1])] for e in row] for row in M]


def _cf_matmul(A, B):
    n = len(A)
    out = [[complex_frac(0) for _ in range(n)] for _ in range(n)]
    for i in range(n):
        for j in range(n):
            acc = complex_frac(0)
            for k in range(n):
                acc = _cf_add(acc, _cf_mul(A[i][k], B[k][j]))
            out[i][j] = acc
    return out


def _cf_kron(A, B):
    n, m = len(A), len(B)
    return [[_cf_mul(A[i // m][j // m], B[i % m][j % m]) for j in range(n * m)] for i in range(n * m)]


def _cf_permute(rng, M):
    """P M P^T for a random permutation: similar matrix (same rank, Jordan structure), no longer triangular / block shaped"""
    n = len(M)
    perm = list(range(n))
    rng.shuffle(perm)
    return [[M[perm[i]][perm[j]] for j in range(n)] for i in range(n)]


def _cf_offdiag(M):
    return any(M[i][j] != (0, 0) for i in range(len(M)) for j in range(len(M)) if i != j)


def _rank_one(rng, d, nilpotent):
    """u v^T scaled: an idempotent (v.u = 1 after scaling) or, with v.u = 0, a nilpotent of index 2; never diagonal"""
    while True:
        gauss = rng.random() < 0.3
        u = [_small(rng, gauss=gauss) for _ in range(d)]
        v = [_small(rng, gauss=gauss) for _ in range(d)]
        if nilpotent:  # make v orthogonal (bilinear) to u: v_last := -(sum of the others) / u_last
            if u[-1] == (0, 0):
                continue
            acc = complex_frac(0)
            for a, b in zip(u[:-1], v[:-1]):
                acc = _cf_add(acc, _cf_mul(a, b))
            v[-1] = _cf_div((-acc[0], -acc[1]), u[-1])
        dot = complex_frac(0)
        for a, b in zip(u, v):
            dot = _cf_add(dot, _cf_mul(a, b))
        if (dot == (0, 0)) != nilpotent:
            continue
        scale = complex_frac(1) if nilpotent or rng.random() < 0.3 else dot  # unscaled: u v^T = dot * idempotent, still singular
        M = [[_cf_div(_cf_mul(u[i], v[j]), scale) for j in range(d)] for i in range(d)]
        if _cf_offdiag(M) and max(abs(e[0]) + abs(e[1]) for row in M for e in row) <= 12 \
                and max(max(e[0].denominator, e[1].denominator) for row in M for e in row) <= 12:
            return M


def _strict_upper(rng, d):
    while True:
        M = [[(_small(rng) if j > i and (j == i + 1 or rng.random() < 0.4) else complex_frac(0)) for j in range(d)] for i in range(d)]
        if any(M[i][i + 1] != (0, 0) for i in range(d - 1)):
            return M


def _eye_cf(d, lam=(Fraction(1), Fraction(0))):
    return [[lam if i == j else complex_frac(0) for j in range(d)] for i in range(d)]


def _madd(A, B):
    return [[_cf_add(a, b) for a, b in zip(ra, rb)] for ra, rb in zip(A, B)]


def _defective_matrix(rng, family, k):
    d = 2 ** k
    lam = rng.choice([complex_frac(1), complex_frac(2), complex_frac(-1), complex_frac(Fraction(1, 2)), complex_frac(0, 1), complex_frac(-2)])
    if family == "rank-one":
        return _rank_one(rng, d, False)
    if family == "nilpotent":
        return _rank_one(rng, d, True) if (d == 2 and rng.random() < 0.5) else _cf_permute(rng, _strict_upper(rng, d))
    if family == "jordan":     # lam + nilpotent: invertible, not diagonalisable
        N = _rank_one(rng, d, True) if rng.random() < 0.4 else _cf_permute(rng, _strict_upper(rng, d))
        return _madd(_eye_cf(d, lam), N)
    if family == "singular-nonnormal":
        a, b = _small(rng, True), _small(rng, True)
        z = complex_frac(0)
        return rng.choice([[[a, b], [z, z]], [[z, z], [a, b]], [[a, z], [b, z]], [[z, a], [z, b]]])
    if family == "shear":      # invertible, not normal, not unitary
        while True:
            M = [[(_small(rng, True, gauss=(rng.random() < 0.2)) if j >= i else complex_frac(0)) for j in range(d)] for i in range(d)]
            if rng.random() < 0.5:
                M = [list(r) for r in zip(*M)]
            return _cf_permute(rng, M) if d == 4 else M
    if family == "diag-singular":
        a = _small(rng, True)
        return rng.choice([[[a, complex_frac(0)], [complex_frac(0), complex_frac(0)]], [[complex_frac(0), complex_frac(0)], [complex_frac(0), a]]])
    if family == "singular-block":  # 1 (+) [[a, a], [a, a]] (+) 1 and relatives, permuted
        a = _small(rng, True)
        M = _eye_cf(4)
        M[1][1] = M[1][2] = M[2][1] = M[2][2] = a
        if rng.random() < 0.5:
            M[3][3] = complex_frac(0)
            M[0][3] = _small(rng, True)
        return _cf_permute(rng, M)
    if family == "kron-singular":
        S = _defective_matrix(rng, rng.choice(["rank-one", "nilpotent", "singular-nonnormal"]), 1)
        T = _defective_matrix(rng, rng.choice(["shear", "jordan"]), 1)
        return _cf_kron(S, T) if rng.random() < 0.5 else _cf_kron(T, S)
    raise ValueError(family)


def _defective_chain(rng, pattern, k, family):
    nq, chain, q = k, [], None
    for tok in pattern:
        if tok == "-n":
            chain.append(["power", rng.choice([-1, -1, -2, -3]), rng.choice(["i", "i", "i", "f", "sI", "sF", "F", "n64", "n8"])])
        elif tok == "n":
            chain.append(["power", rng.choice([2, 2, 3]), rng.choice(["i", "i", "f", "sI", "nu8"])])
        elif tok == "0":
            chain.append(["power", 0, rng.choice(["i", "i", "f", "sI", "F"])])
        elif tok == "1/q":
            q = rng.choice([2, 2, 3, 4])
            chain.append(["power", f"1/{q}", rng.choice(["f", "sR", "F"])])
        elif tok == "q":
            chain.append(["power", q])
        elif tok == "d":
            chain.append(["dagger"])
        elif tok == "e":
            chain.append(["exp"])
        elif tok == "c":
            n = rng.randrange(1, 3) if nq + 2 <= 4 and not any(t in ("e", "1/q") for t in pattern) else 1
            chain.append(["controlled", n] + ([rng.choice(["b", "n64", "sI"])] if n == 1 and rng.random() < 0.3 else []))
            nq += n
    return chain


def _defective_ok(pattern, family, k):
    """routes not generated: (1) a negative power whose ARGUMENT is a diagonal singular matrix -- sympy answers entrywise there
    (0 ** -1 = zoo) and the unchanged library hands out a matrix with infinite entries instead of raising: a genuine defect of
    /repo, reported, excluded; that is family diag-singular and the positive power of a nilpotent matrix (N ** n = 0);
    (2) externals on more than 2 qubits (size discipline of the whole check)"""
    neg = "-n" in pattern
    if neg and family == "diag-singular":
        return False
    if neg and "n" in pattern and pattern.index("n") < pattern.index("-n") and family in ("nilpotent", "kron-singular"):
        return False
    nq = k
    for tok in pattern:
        if tok == "c":
            nq += 1
        if tok in ("e", "1/q") and nq > 2:
            return False
    return nq <= 4


def _defective_cases(rng, tier, n_extra):
    cases = []
    fams = [(f, 1) for f in DEFECTIVE_FAMILIES_1] + [(f, 2) for f in DEFECTIVE_FAMILIES_2]
    rng.shuffle(fams)

    def make(fam, k, group, pattern):
        _counter[0] += 1
        base = {"custom": f"nu{_counter[0]}", "rows": _cf_rows(_defective_matrix(rng, fam, k)), "nsyms": 0, "params": []}
        c = {"kind": "defective", "family": fam, "route": group + ":" + " ".join(pattern), "base": base,
             "chain": _defective_chain(rng, pattern, k, fam), "tier": tier}
        r = rng.random()
        if r < 0.3:
            c["order"] = "rev"
        if rng.random() < 0.3:
            c["reread"] = True
        if rng.random() < 0.2:
            c["decoy"] = True
        if rng.random() < 0.3:
            c["recheck"] = True
        cases.append(c)

    # (a) every pattern at least once, the families dealt round-robin over them (offset by the seed's shuffle)
    j = 0
    for group, pats in DEFECTIVE_PATTERNS.items():
        for pattern in pats:
            for _ in range(len(fams)):
                fam, k = fams[j % len(fams)]
                j += 1
                if _defective_ok(pattern, fam, k):
                    make(fam, k, group, pattern)
                    break
    # (b) every family on the negative-power routes and on two more groups of routes
    for fam, k in fams:
        others = [g for g in DEFECTIVE_PATTERNS if g != "neg"]
        rng.shuffle(others)
        for group in ["neg"] + others[:2]:
            pats = DEFECTIVE_PATTERNS[group]
            ok = [p for p in pats if _defective_ok(p, fam, k)]
            if ok:
                make(fam, k, group, rng.choice(ok))
    # (c) the matrices that have no inverse on further negative-power routes
    sing = [(f, k) for f, k in fams if f in NO_INVERSE and f != "diag-singular"]
    for _ in range(n_extra):
        fam, k = rng.choice(sing)
        ok = [p for p in DEFECTIVE_PATTERNS["neg"] if _defective_ok(p, fam, k)]
        make(fam, k, "neg", rng.choice(ok))
    # (d) every run: the matrices that may have NO q-th root (nilpotent, singular and not diagonalisable) on a root route, and the
    # nilpotent / Jordan-type ones (finite exponential series, lam + N) on an exp route, 2x2 and 4x4
    for fam, k in fams:
        for group, wanted in (("root", ("nilpotent", "kron-singular", "singular-nonnormal")), ("exp", ("nilpotent", "jordan"))):
            if fam in wanted:
                ok = [p for p in DEFECTIVE_PATTERNS[group] if _defective_ok(p, fam, k)]
                make(fam, k, group, rng.choice(ok))
    return cases


def corpus():
    return _register(_corpus())


def _register(cases):
    _GENERATED.extend(cases)
    return cases


def _corpus():
    x = {"gate": "X", "params": []}
    s = {"gate": "S", "params": []}
    t = {"gate": "T", "params": []}
    rx = {"gate": "RX", "params": [["4/5", "3/5"]]}
    u3 = {"gate": "U3", "params": [["4/5", "3/5"], ["12/13", "5/13"], ["3/5", "-4/5"]]}
    cg = {"custom": "corpus_v", "rows": [[[1, 2], [3, 0]], [{"sym": 0}, [2, -1]]], "nsyms": 1, "params": [{"v": [1, "1/2"]}]}
    return [
        {"kind": "chain", "base": x, "chain": [["power", "1/2"], ["dagger"]]},                       # F16
        {"kind": "chain", "base": x, "chain": [["controlled", 2], ["power", "1/2"], ["dagger"]]},    # F16 under controls
        {"kind": "chain", "base": s, "chain": [["power", "1/2"], ["dagger"]]},                       # holds: Dagger(S)^(1/2)
        {"kind": "chain", "base": t, "chain": [["controlled", 1], ["dagger"], ["exp"]]},
        {"kind": "chain", "base": t, "chain": [["dagger"], ["controlled", 2], ["power", 3]]},
        {"kind": "chain", "base": rx, "chain": [["power", -2], ["dagger"], ["controlled", 1], ["replace", [["3/5", "4/5"]]]]},
        {"kind": "chain", "base": rx, "chain": [["exp"], ["dagger"], ["controlled", 1]]},
        {"kind": "chain", "base": u3, "chain": [["controlled", 1], ["controlled", 2], ["dagger"], ["power", 2]]},
        {"kind": "chain", "base": cg, "chain": [["dagger"], ["power", -1], ["replace", [{"v": ["-3/2", 2]}]], ["controlled", 1]]},
        # --- sessions: sibling runs in one process (same wrapper name / same parameters / same exponent, different content)
        {"kind": "session-ext", "runs": [
            {"base": x, "chain": [["exp"], ["power", 2]], "share": "all", "recheck": True},
            {"base": {"gate": "Y", "params": []}, "chain": [["exp"], ["power", 2]], "share": "all", "recheck": True},
            {"base": {"gate": "SWAP", "params": []}, "chain": [["exp"], ["power", 2], ["controlled", 1]], "order": "rev", "recheck": True},
            {"base": x, "chain": [["exp"], ["power", 2]], "share": "all", "reread": True, "recheck": True}]},
        {"kind": "session-ext", "runs": [
            {"base": {"gate": "Z", "params": []}, "chain": [["controlled", 1], ["exp"], ["power", -1]]},
            {"base": s, "chain": [["controlled", 1], ["exp"], ["power", -1]], "order": "rev"},
            {"base": {"gate": "Z", "params": []}, "chain": [["controlled", 1], ["exp"], ["dagger"]], "reread": True}]},
        {"kind": "session", "runs": [
            {"base": {"custom": "corpus_u", "rows": [[[1, 0], [1, 0]], [[0, 0], [1, 0]]], "nsyms": 0, "params": []}, "chain": [["power", 3], ["dagger"]]},
            {"base": {"custom": "corpus_u", "rows": [[[2, 0], [0, 0]], [[0, 0], [1, 1]]], "nsyms": 0, "params": []}, "chain": [["power", 3], ["dagger"]]},
            {"base": {"custom": "corpus_u", "rows": [[[1, 0], [1, 0]], [[0, 0], [1, 0]]], "nsyms": 0, "params": []}, "chain": [["power", 3, "f"], ["controlled", 2]],
             "order": "rev"}]},
        {"kind": "session", "runs": [
            {"base": rx, "chain": [["dagger"], ["controlled", 1], ["power", -2]], "share": "all", "recheck": True},
            {"base": {"gate": "RY", "params": [["4/5", "3/5"]]}, "chain": [["dagger"], ["controlled", 1], ["power", -2]], "share": "all"},
            {"base": {"gate": "RX", "params": [["4/5", "-3/5"]]}, "chain": [["dagger"], ["controlled", 1], ["power", -2]], "order": "rev"},
            {"base": {"gate": "RX", "params": [_near_angle(["4/5", "3/5"])]}, "chain": [["dagger"], ["controlled", 1], ["power", -2]]},
            {"base": rx, "chain": [["dagger"], ["controlled", 2], ["power", -2]], "share": "all"},
            {"base": rx, "chain": [["dagger"], ["controlled", 1], ["power", 2]], "share": "all"},
            {"base": rx, "chain": [["dagger"], ["controlled", 1], ["power", -2]], "share": "all", "reread": True, "recheck": True}]},
        {"kind": "session", "runs": [
            {"base": u3, "chain": [["controlled", 1], ["replace", [["3/5", "4/5"], ["12/13", "5/13"], ["3/5", "-4/5"]]], ["dagger"]], "share": "base"},
            {"base": u3, "chain": [["controlled", 1], ["replace", [["12/13", "5/13"], ["3/5", "4/5"], ["3/5", "-4/5"]]], ["dagger"]], "share": "base"},
            {"base": u3, "chain": [["controlled", 1], ["replace", [["3/5", "4/5"], ["12/13", "5/13"], ["3/5", "-4/5"]]], ["dagger"]], "share": "base",
             "order": "rev"}]},
        # same wrapper name / same custom name, different SIZE
        {"kind": "session-ext", "runs": [
            {"base": x, "chain": [["exp"], ["controlled", 1], ["dagger"]], "share": "all", "recheck": True},
            {"base": {"gate": "CNOT", "params": []}, "chain": [["exp"], ["controlled", 1], ["dagger"]], "decoy": True, "recheck": True},
            {"base": x, "chain": [["exp"], ["controlled", 1], ["dagger"]], "share": "all", "order": "rev", "recheck": True}]},
        {"kind": "session", "runs": [
            {"base": {"custom": "corpus_w", "rows": [[[1, 0], [2, 0]], [[0, 1], [1, 0]]], "nsyms": 0, "params": []},
             "chain": [["controlled", 1], ["power", -1], ["dagger"]], "recheck": True},
            {"base": {"custom": "corpus_w", "rows": [[[1, 0], [2, 0], [0, 0], [0, 0]], [[0, 1], [1, 0], [0, 0], [0, 0]],
                                                     [[0, 0], [0, 0], [1, 0], [0, 0]], [[0, 0], [0, 0], [1, 1], [1, 0]]], "nsyms": 0, "params": []},
             "chain": [["controlled", 1], ["power", -1], ["dagger"]], "decoy": True, "recheck": True}]},
        # --- parameter values at which the matrix happens to be self-adjoint, then replaced by generic ones (and back)
        {"kind": "special", "base": {"custom": "corpus_ph", "rows": [[[1, 0], [0, 0]], [[0, 0], {"sym": 0}]], "nsyms": 1, "params": [{"v": [1, 0]}]},
         "chain": [["dagger"], ["replace", [{"v": ["3/4", "2/3"]}]], ["dagger"]]},
        {"kind": "special", "base": {"custom": "corpus_ph", "rows": [[[1, 0], [0, 0]], [[0, 0], {"sym": 0}]], "nsyms": 1, "params": [{"v": [1, 0]}]},
         "chain": [["replace", [{"v": ["3/4", "2/3"]}]], ["controlled", 1], ["dagger"], ["replace", [{"v": [1, 0]}]]]},
        {"kind": "special", "base": {"gate": "PHASE", "params": [[0, 1]]}, "chain": [["power", 2], ["dagger"], ["replace", [["4/5", "3/5"]]]]},
        {"kind": "special", "base": {"gate": "RZ", "params": [[1, 0]]}, "chain": [["dagger"], ["replace", [["4/5", "3/5"]]], ["dagger"]]},
        # --- values whose nature is not visible syntactically
        {"kind": "syntax", "base": {"custom": "corpus_zpow", "rows": [[[1, 0], [0, 0]], [[0, 0], {"xs": "m1pow", "sym": 0}]], "nsyms": 1,
                                    "params": [{"v": ["1/4", 0]}]},
         "chain": [["dagger"], ["controlled", 1], ["replace", [{"v": ["-2/3", 0]}]], ["power", 2]]},
        {"kind": "syntax", "base": {"custom": "corpus_omega", "rows": [[[1, 0], [0, 0]], [[0, 0], {"x": "root(-1,3)^2"}]], "nsyms": 0, "params": []},
         "chain": [["controlled", 2], ["dagger"], ["power", -1]]},
        {"kind": "syntax", "base": {"custom": "corpus_z8", "rows": [[[2, 0], {"x": "m1^(1/4)"}], [{"x": "m1^(1/4)"}, {"x": "sqrt(2)/2"}]], "nsyms": 0, "params": []},
         "chain": [["exp"], ["dagger"], ["power", -1]]},
        {"kind": "syntax", "base": {"custom": "corpus_hd", "rows": [[[1, 0], {"x": "m1^(3/4)"}], [{"x": "m1^(5/4)"}, [2, 0]]], "nsyms": 0, "params": []},
         "chain": [["dagger"], ["power", -2], ["controlled", 1]]},
        {"kind": "syntax", "base": {"custom": "corpus_sv", "rows": [[[1, 0], {"sym": 0}], [{"x": "hidden0"}, [2, 0]]], "nsyms": 1,
                                    "params": [{"x": "root(-4,4)"}]},
         "chain": [["power", -1], ["dagger"], ["replace", [{"x": "exp_polar(i pi/4)"}]], ["power", "1/2"]]},
        {"kind": "syntax", "base": {"gate": "RZ", "params": [{"pi": "1/2"}]}, "chain": [["dagger"], ["power", "1/2"], ["replace", [{"pi": "2/3"}]], ["exp"]]},
        {"kind": "syntax", "base": {"gate": "XX", "params": [{"pi": "3/2"}]}, "chain": [["power", -3], ["dagger"], ["controlled", 1]]},
        # --- exotic but legal: float-typed integer exponents, large exponents, many controls, roots beyond 1/4
        {"kind": "exotic", "base": rx, "chain": [["power", 2, "f"], ["dagger"], ["power", -1, "f"]]},
        {"kind": "exotic", "base": cg, "chain": [["power", 0, "f"], ["controlled", 1]]},
        {"kind": "exotic", "base": rx, "chain": [["power", 12], ["dagger"]]},
        {"kind": "exotic", "base": s, "chain": [["dagger"], ["power", -9], ["controlled", 1]]},
        {"kind": "exotic", "base": rx, "chain": [["power", -2], ["controlled", 5], ["dagger"]]},
        {"kind": "exotic", "base": s, "chain": [["controlled", 2], ["controlled", 3]]},
        {"kind": "exotic", "base": t, "chain": [["power", "1/8"], ["power", 8]]},
        {"kind": "exotic", "base": {"gate": "X", "params": []}, "chain": [["power", "1/101"], ["controlled", 1]]},
        {"kind": "exotic", "base": s, "chain": [["power", "1/257"], ["power", 3]]},
        {"kind": "exotic", "base": {"gate": "ISWAP", "params": []}, "chain": [["dagger"], ["power", "1/1000"]]},
        {"kind": "exotic", "base": {"gate": "CNOT", "params": []}, "chain": [["power", "1/5"], ["replace", []]]},
        # --- the number type that carries a numeric argument: unit fraction as Fraction / sympy.Rational, whole exponent as
        # sympy.Integer / numpy scalar / whole-valued Fraction, counts as numpy int / bool, parameters as sympy.Float / Fraction
        {"kind": "numtype", "route": "corpus", "base": x, "chain": [["power", "1/3", "F"]]},
        {"kind": "numtype", "route": "corpus", "base": {"gate": "PHASE", "params": [["3/5", "4/5"]]},
         "chain": [["controlled", 1, "n64"], ["power", "1/2", "sR"], ["dagger"]]},
        {"kind": "numtype", "route": "corpus", "base": t, "chain": [["dagger"], ["power", -2, "sI"], ["controlled", 1, "b"], ["power", 3, "F"]]},
        {"kind": "numtype", "route": "corpus", "base": {"gate": "RX", "params": [{"ty": "sF", "a": ["4/5", "3/5"]}]},
         "chain": [["power", 2, "nu8"], ["dagger"], ["replace", [{"ty": "F", "r": "3/4"}]], ["controlled", 2, "sI"]]},
        {"kind": "numtype", "route": "corpus", "base": dict(cg, params=[{"v": ["1/2", 0], "ty": "F"}]),
         "chain": [["power", -1, "sF"], ["controlled", 1, "n8"], ["replace", [{"v": ["-3/2", "1/4"], "ty": "c"}]], ["dagger"]]},
        # --- custom gates that are not unitary: no inverse (rank one; must be refused on every route that ends in a negative
        # power), nilpotent (exp is the finite series 1 + N + N^2/2), defective but invertible (Jordan block: true inverse power)
        {"kind": "defective", "family": "rank-one", "route": "corpus", "base": {"custom": "corpus_projplus", "rows": [[["1/2", 0], ["1/2", 0]], [["1/2", 0], ["1/2", 0]]],
                                                                                  "nsyms": 0, "params": []},
         "chain": [["power", -1, "f"], ["controlled", 1], ["dagger"]], "order": "rev"},
        {"kind": "defective", "family": "nilpotent", "route": "corpus",
         "base": {"custom": "corpus_nil4", "rows": [[[0, 0], [1, 0], [0, 0], [0, 0]], [[0, 0], [0, 0], [2, 0], [0, 0]],
                                                    [[0, 0], [0, 0], [0, 0], [0, 1]], [[0, 0], [0, 0], [0, 0], [0, 0]]], "nsyms": 0, "params": []},
         "chain": [["exp"], ["dagger"], ["power", -2]]},
        {"kind": "defective", "family": "jordan", "route": "corpus", "base": {"custom": "corpus_jordan", "rows": [[[2, 0], [1, 0]], [[0, 0], [2, 0]]], "nsyms": 0, "params": []},
         "chain": [["controlled", 1], ["power", -2], ["dagger"], ["power", 0]], "reread": True},
        {"kind": "malformed", "base": x, "chain": [["controlled", 0]]},
        {"kind": "malformed", "base": x, "chain": [["controlled", 2], ["controlled", -1], ["dagger"]]},
        {"kind": "malformed", "base": rx, "chain": [["dagger"], ["replace", []], ["controlled", 1]]},
        {"kind": "malformed", "base": {"custom": "corpus_sing", "rows": [[[1, 0], [1, 0]], [[1, 0], [1, 0]]], "nsyms": 0, "params": []},
         "chain": [["controlled", 1], ["power", -1]]},
    ]


def generate(rng, tier):
    return _register(_generate(rng, tier))


def _generate(rng, tier):
    big = tier == "thorough"
    cases = []

    def add(kind, base, chain):
        cases.append({"kind": kind, "base": base, "chain": chain, "tier": tier})

    # every built-in once with each single modifier (depth 1) and one two-step chain
    for name in circ.BUILTIN_PARAMS:
        b = {"gate": name}
        b["params"] = _params_for(rng, b)
        for mod in (["dagger"], ["controlled", 1], ["power", -2], ["power", 3]):
            add("chain", b, [mod])
        add("chain", b, [["controlled", rng.randrange(1, 3)], ["dagger"], ["power", rng.choice([-2, 2, 3])]])
        add("chain", b, [["replace", _params_for(rng, b)], ["dagger"]])
    # integer-only chains, up to 4 qubits in total
    for _ in range(700 if big else 100):
        base = _random_base(rng, 2)
        depth = rng.choice([0, 1, 2, 2, 3, 3, 4, 4])
        add("chain", base, _random_chain(rng, base, depth, 5 if big and rng.random() < 0.2 else 4, False))
    # chains with exp / fractional powers, at most 2 qubits when the external is applied; no axis angles
    for _ in range(190 if big else 30):
        base = _random_base(rng, rng.choice([1, 1, 2]), axis_prob=0.0, custom_prob=0.2, small_custom=True)
        depth = rng.choice([1, 2, 2, 3, 3, 4])
        add("chain", base, _random_chain(rng, base, depth, 3, True))
    # fractional power followed (somewhere later) by dagger: the F16 neighbourhood, hermitian-flagged and not
    for _ in range(60 if big else 14):
        name = rng.choice(HERMITIAN + ["S", "T", "SX", "RX", "RZ", "PHASE", "ISWAP", "XX"])
        b = {"gate": name}
        b["params"] = _params_for(rng, b, 0.0)
        pre = rng.choice([[], [["controlled", 1]], [["dagger"]], [["power", 2]]])
        post = rng.choice([[], [["controlled", 1]], [["power", 2]]])
        add("chain", b, pre + [["power", f"1/{rng.choice([2, 3, 4])}"], ["dagger"]] + post)
    # sessions: a seed run, siblings that differ from it in exactly one component, the seed run again -- one process, shared
    # prototypes / definitions / (per `share`) gate objects; integer-only chains on any base gate
    for _ in range(170 if big else 30):
        cases.append(_session(rng, _int_seed_run(rng), False, tier, rng.choice([2, 3, 3, 4])))
    # the same with exp / non-integer powers, on gates where sympy answers quickly
    for _ in range(55 if big else 12):
        cases.append(_session(rng, _ext_seed_run(rng), True, tier, rng.choice([2, 3, 3])))
    # parameter values at which the matrix happens to be self-adjoint / the identity, replaced by generic ones (and back)
    cases.extend(_special_cases(rng, tier, 120 if big else 30))
    # matrix entries / parameter values whose complexness, realness, zeroness or numberness is not visible syntactically
    cases.extend(_syntax_cases(rng, tier, 240 if big else 60))
    # exotic but legal arguments
    cases.extend(_exotic_cases(rng, tier, *((100, 24, 40) if big else (24, 6, 12))))
    # the NUMBER TYPE of every numeric argument: in all the streams above each exponent / control count / parameter list is,
    # with some probability, handed over in another rung of its type ladder (sessions: see _session -- the seed run is
    # retyped, the siblings inherit its types, and `_v_numtype` siblings differ from it in the type of ONE argument) ...
    for c in cases:
        if not is_session(c) and c["kind"] in ("chain", "special", "exotic"):
            r = _retag_run(rng, c, 0.45, 0.25)
            c["base"], c["chain"] = r["base"], r["chain"]
    # ... and a stream that holds every (route of the modifier API, type) cell once
    cases.extend(_numtype_cases(rng, tier, full=big))
    # custom gates with singular / nilpotent / defective / non-normal matrices on every modifier route
    cases.extend(_defective_cases(rng, tier, 60 if big else 6))
    # malformed stream
    for _ in range(120 if big else 24):
        base = _random_base(rng, 2)
        r = rng.random()
        if r < 0.35:
            chain = _random_chain(rng, base, rng.randrange(0, 3), 3, False) + [["controlled", rng.choice([0, -1, -2])]] \
                + _random_chain(rng, base, rng.randrange(0, 2), 3, False)
        elif r < 0.6:
            chain = [["controlled", rng.randrange(2, 4)], ["controlled", rng.choice([-1, -1, -3])], ["dagger"]]
        elif r < 0.8 and "gate" in base and circ.BUILTIN_PARAMS[base["gate"]] > 0 and base["gate"] != "Delay":
            wrong = _params_for(rng, base) + ([circ.rat_angle(rng)] if rng.random() < 0.5 else [])
            wrong = wrong if len(wrong) != circ.BUILTIN_PARAMS[base["gate"]] else wrong[:-1]
            chain = [rng.choice([["dagger"], ["controlled", 1]]), ["replace", wrong], ["power", 2]]
        else:
            _counter[0] += 1
            base = {"custom": f"sing{_counter[0]}", "rows": rng.choice([
                [[[1, 0], [1, 0]], [[1, 0], [1, 0]]], [[[0, 0], [1, 0]], [[0, 0], [0, 0]]], [[[1, 1], [2, 2]], [[1, 0], [2, 0]]]]),
                "nsyms": 0, "params": []}
            chain = rng.choice([[["power", -1]], [["controlled", 1], ["power", -2]], [["dagger"], ["power", -1]], [["power", 0], ["power", -1]]])
        add("malformed", base, chain)
    return cases


def nontrivial(case):
    if is_session(case):
        return len(case["runs"]) >= 3 and all(len(r["chain"]) >= 1 for r in case["runs"])
    return case["kind"] in ("chain", "special", "exotic", "syntax", "numtype", "defective") and len(case["chain"]) >= 2


_TAG_NAME = {"i": "int", "b": "bool", "f": "float", "F": "fractions.Fraction", "sI": "sympy.Integer", "sR": "sympy.Rational",
             "sF": "sympy.Float", "c": "complex", "n64": "numpy.int64", "n32": "numpy.int32", "n16": "numpy.int16", "n8": "numpy.int8",
             "nu8": "numpy.uint8"}


def _param_type_name(bspec, p):
    if "gate" in bspec:
        if isinstance(p, dict):
            if "pi" in p:
                return "builtin: sympy multiple of pi"
            if "a" in p:
                return "builtin: " + _TAG_NAME[p["ty"]] + " (float value)"
            return "builtin: " + _TAG_NAME[p["ty"]] + " (angle p/q)"
        return "builtin: float"
    if "x" in p:
        return "custom: sympy number expression"
    t = eff_custom_tag(p)
    return "custom: " + (_TAG_NAME[t] if t else "sympy Rational + I*Rational")


def distribution(cases, outs):
    kinds, depth, nqh = {}, {}, {}
    orders, shares = {}, {}
    exp_types, ctl_types, par_types, routes, nest = {}, {}, {}, {}, {}

    def bump(d, k):
        d[k] = d.get(k, 0) + 1

    nu_fam, nu_route, nu_neg = {}, {}, {}
    for c, o in zip(cases, outs):
        if c.get("kind") != "defective":
            continue
        bump(nu_fam, f"{c.get('family')} {len(c['base']['rows'])}x{len(c['base']['rows'])}")
        bump(nu_route, c.get("route", "?").split(":")[0])
        if c.get("family") in NO_INVERSE and isinstance(o, dict):
            # what the library did with the negative powers of a matrix that has no inverse (and with the gates built on them)
            import numpy as np
            undefined = False
            sts = o.get("steps", [])
            for j, (m, st) in enumerate(zip(c["chain"], sts[1:])):
                neg = m[0] == "power" and unrat(m[1]).denominator == 1 and unrat(m[1]) < 0
                if neg and not undefined:  # counted only where the ARGUMENT of the negative power has no inverse
                    pm = sts[j].get("m") if isinstance(sts[j], dict) else None
                    if not _is_mat(pm) or not np.all(np.isfinite(_np(pm))):
                        continue
                    sv = np.linalg.svd(_np(pm), compute_uv=False)
                    if sv[-1] > 1e-12 * max(1.0, sv[0]):
                        continue
                elif undefined and not (m[0] in ("dagger", "controlled") or (m[0] == "power" and unrat(m[1]).denominator == 1 and unrat(m[1]) != 0)):
                    break
                if neg or undefined:
                    mm = st.get("m") if isinstance(st, dict) else None
                    bump(nu_neg, "refused (NonInvertibleMatrixError)" if isinstance(mm, dict) and mm.get("err") == "err:noninv"
                         else "returned a matrix" if isinstance(mm, list) else "other (external failure / timeout)")
                    undefined = True
    for c in cases:
        if c.get("kind") == "numtype":
            bump(routes, c.get("route", "?"))
        for run in case_runs(c):
            for p in run["base"]["params"]:
                bump(par_types, _param_type_name(run["base"], p) + " @base")
            for j, m in enumerate(run["chain"]):
                if m[0] == "power":
                    f = unrat(m[1])
                    cls = "unit fraction" if f.denominator != 1 else ("negative" if f < 0 else "zero" if f == 0 else "positive")
                    bump(exp_types, f"{_TAG_NAME[mod_tag(m)]}: {cls}")
                    if mod_tag(m) not in ("i",) and not (mod_tag(m) == "f" and f.denominator != 1):
                        # where the typed exponent sits: what it is applied to / what is applied to it next
                        bump(nest, f"typed power after {run['chain'][j - 1][0] if j else 'base'}, before "
                                   f"{run['chain'][j + 1][0] if j + 1 < len(run['chain']) else 'end'}")
                elif m[0] == "controlled":
                    bump(ctl_types, _TAG_NAME[mod_tag(m)] if m[1] >= 1 else "int (count < 1, malformed)")
                elif m[0] == "replace":
                    for p in m[1]:
                        bump(par_types, _param_type_name(run["base"], p) + " @replace_params")
    timeouts = exterr = mats = rereads = runs_total = 0
    for c, o in zip(cases, outs):
        runs = case_runs(c)
        routs = (o.get("runs", []) if is_session(c) else [o]) if isinstance(o, dict) else []
        for run in runs:
            runs_total += 1
            depth[len(run["chain"])] = depth.get(len(run["chain"]), 0) + 1
            if is_session(c):
                orders[run.get("order", "fwd")] = orders.get(run.get("order", "fwd"), 0) + 1
                shares[run.get("share", "none")] = shares.get(run.get("share", "none"), 0) + 1
            for m in run["chain"]:
                k = m[0] if m[0] != "power" else ("power-int" if unrat(m[1]).denominator == 1 else "power-frac")
                if m[0] == "power" and unrat(m[1]).denominator == 1 and mod_tag(m) == "f":
                    k += "-as-float"
                kinds[k] = kinds.get(k, 0) + 1
        for ro in routs:
            for st in (ro.get("steps", []) if isinstance(ro, dict) else []):
                m = st.get("m")
                if isinstance(m, list):
                    mats += 1
                    nqh[st["nq"]] = nqh.get(st["nq"], 0) + 1
                elif isinstance(m, dict) and m.get("timeout"):
                    timeouts += 1
                elif isinstance(m, dict) and "exterr" in m:
                    exterr += 1
                if isinstance(st.get("m2"), list):
                    rereads += 1
    return {"exponent_number_types": exp_types, "control_count_number_types": ctl_types, "parameter_number_types": par_types,
            "typed_exponent_positions": nest, "numtype_routes": routes,
            "nonunitary_custom_families": nu_fam, "nonunitary_custom_route_groups": nu_route,
            "negative_power_of_matrix_without_inverse_and_gates_above": nu_neg,
            "modifier_kinds": kinds, "chain_depth": depth, "matrices_by_num_qubits": nqh, "matrices_evaluated": mats,
            "runs_total": runs_total, "session_run_order": orders, "session_object_sharing": shares,
            "matrices_read_twice_after_editing_first_answer": rereads, "oracle_only_cases_value_outside_Q_zeta8": _ORACLE_ONLY[0], "matrix_property_calls": _EVALS[0],
            "sympy_timeouts": timeouts, "sympy_external_failures": exterr,
            "branch_ambiguous_matrix_comparisons_skipped": _SUPPRESSED[0],
            "branch_ambiguous_cases": sum(1 for f in _FLAGS.values() if f.get("ambiguous")),
            "external_unresolved_cases": sum(1 for f in _FLAGS.values() if f.get("unresolved")),
            "per_matrix_time_limit_s": _LIMIT[0]}
