"""C07 — gate modifiers (dagger, controlled, power, exp) mean what they say.

A case is a base gate plus a chain of modifier METHOD calls applied one after the other:
  {"kind": "chain"|"malformed", "base": <base spec>, "chain": [["dagger"], ["controlled", n], ["power", "p/q"], ["exp"],
                                                      ["replace", [params]] ...]}
base spec:  {"gate": NAME, "params": [[ch, sh], ...]}                       built-in at rational half-angle points
            {"custom": name, "rows": [[entry]], "nsyms": k, "params": [{"v": [re, im]}, ...]}
                                                                            entry = [re, im] constant | {"sym": i}
The implementation is run step by step (real objects of /repo); after every step the object structure, num_qubits, params and
the numeric matrix are recorded.  The Lean model (`C07 chain`) does the same; sympy's `exp` / non-integer `**` are EXTERNALS of
the model, supplied to it as a table computed with scipy on the exact argument matrix the model asks for.
"""
import math
import signal
import time
from fractions import Fraction

from .. import common
from ..common import rat, unrat
from .. import circ

PROP = "C07"
RULE = ("random modifier chains (depth 0..4: dagger / controlled(1..3) / integer power -3..3 / power 1/q, q<=4 / exp / "
        "replace_params) over the 27 built-ins at rational half-angle points and over custom gates (Gaussian-integer matrices, "
        "optionally with symbols); exp and non-integer powers only while the total is <= 2 qubits; plus a malformed stream "
        "(control counts <= 0, wrong parameter arity, negative powers of singular matrices). non-trivial: chain of >= 2 "
        "modifiers; distinct = distinct canonical JSON of the case")
TRUSTED = [
    "sympy Matrix.inv: M * inv(M) = 1 (hypothesis `ExtLaws.inv_*`; the model's own inverse is exact Gauss-Jordan over Q(zeta8) and is compared with sympy on every negative power)",
    "sympy M ** (1/q): its q-th power is M (hypothesis `ExtLaws.root`; checked numerically by the oracle on every generated fractional power)",
    "sympy Matrix.exp is the matrix exponential (hypothesis `ExtLaws.exp`; compared with scipy.linalg.expm on every generated exp)",
    "sympy Matrix.adjoint / Matrix.diag / integer ** are conjugate transpose / block diagonal / repeated product (compared entrywise with the exact model)",
    "scipy.linalg.expm / fractional_matrix_power (principal branch) are used only to fill the model's external table; float tolerance 1e-8 relative",
]
ASSUMPTIONS = [
    "parameters are numbers (no free symbols): Power/Exponential reject symbolic gates in __post_init__, bind is property C06",
    "a gate 'obtained by nesting modifiers' is built by the modifier METHODS (.dagger/.controlled/.power/.exp), not by calling the wrapper class constructors directly",
    "exponents are Python ints or floats p/q; only integers and unit fractions are in the property's domain",
]

TOL = 1e-8
LIMITS = {"quick": 1.0, "thorough": 3.0}
_LIMIT = [2.0]
_SUPPRESSED = [0]
_FLAGS = {}  # canon(case) -> {"ambiguous": bool, "unresolved": bool}


# ------------------------------------------------------------------ per-evaluation wall-clock limit
class CaseTimeout(Exception):
    pass


class time_limit:
    """wall-clock limit for one sympy evaluation; preserves the runner's own SIGALRM deadline"""

    def __init__(self, sec):
        self.sec = sec

    def __enter__(self):
        self.t0 = time.time()
        self.remaining = signal.alarm(0)
        self.old = signal.signal(signal.SIGALRM, self._fire)
        signal.setitimer(signal.ITIMER_REAL, self.sec)

    def _fire(self, signum, frame):
        raise CaseTimeout()

    def __exit__(self, *exc):
        signal.setitimer(signal.ITIMER_REAL, 0)
        signal.signal(signal.SIGALRM, self.old)
        if self.remaining:
            signal.alarm(max(1, self.remaining - int(time.time() - self.t0)))
        return False


# ------------------------------------------------------------------ specs -> real objects
def _lib():
    common.use_repo()
    import orquestra.quantum.circuits as oqc
    from orquestra.quantum.circuits import _gates
    return oqc, _gates


def py_params(bspec, params):
    """python values handed to the library for a list of parameter specs"""
    import sympy
    if "gate" in bspec:
        if bspec["gate"] == "Delay":
            return tuple(float(unrat(a[0])) for a in params)
        return tuple(circ.theta_of(a) for a in params)
    return tuple(sympy.Rational(str(unrat(p["v"][0]))) + sympy.I * sympy.Rational(str(unrat(p["v"][1]))) for p in params)


_DEFS = {}


def custom_definition(bspec):
    import sympy
    oqc, _ = _lib()
    key = common.canon([bspec["custom"], bspec["rows"], bspec["nsyms"]])
    if key not in _DEFS:
        syms = tuple(sympy.Symbol(f"p{i}") for i in range(bspec["nsyms"]))
        rows = [[syms[e["sym"]] if isinstance(e, dict) else
                 sympy.Rational(str(unrat(e[0]))) + sympy.I * sympy.Rational(str(unrat(e[1]))) for e in row]
                for row in bspec["rows"]]
        _DEFS[key] = oqc.CustomGateDefinition(bspec["custom"], sympy.Matrix(rows), syms)
    return _DEFS[key]


def build_base(bspec, params=None):
    oqc, _ = _lib()
    params = bspec["params"] if params is None else params
    vals = py_params(bspec, params)
    if "gate" in bspec:
        ref = getattr(oqc, bspec["gate"])
        if circ.BUILTIN_PARAMS[bspec["gate"]] == 0 and not vals:
            return ref
        if circ.BUILTIN_PARAMS[bspec["gate"]] == 0:
            return ref.replace_params(vals)
        return ref(*vals)
    return custom_definition(bspec)(*vals)


def py_exponent(e):
    f = unrat(e)
    return int(f) if f.denominator == 1 else float(f)


def apply_mod(g, mod, bspec):
    t = mod[0]
    if t == "dagger":
        return g.dagger
    if t == "exp":
        return g.exp
    if t == "controlled":
        return g.controlled(mod[1])
    if t == "power":
        return g.power(py_exponent(mod[1]))
    if t == "replace":
        return g.replace_params(py_params(bspec, mod[1]))
    raise ValueError(mod)


# ------------------------------------------------------------------ canonical description of a real gate object
def _exp_str(x):
    if isinstance(x, int) and not isinstance(x, bool):
        return str(x)
    f = Fraction(x).limit_denominator(64)
    if float(f) == x:
        return str(f.numerator) if f.denominator == 1 else f"{f.numerator}/{f.denominator}"
    return repr(x)


def _match_params(actual, bspec, candidates):
    actual = tuple(actual)
    for cand in candidates:
        try:
            if len(cand) == len(actual) and all(a == b for a, b in zip(py_params(bspec, cand), actual)):
                return cand
        except Exception:
            pass
    return {"unmatched": repr(actual)[:120]}


def struct(g, bspec, candidates):
    _, G = _lib()
    if type(g) is G.MatrixFactoryGate:
        return {"t": "base", "name": g.name, "params": _match_params(g.params, bspec, candidates),
                "nq": int(g.num_qubits), "herm": bool(g.is_hermitian)}
    if type(g) is G.ControlledGate:
        return {"t": "ctl", "k": int(g.num_control_qubits), "g": struct(g.wrapped_gate, bspec, candidates)}
    if type(g) is G.Dagger:
        return {"t": "dag", "g": struct(g.wrapped_gate, bspec, candidates)}
    if type(g) is G.Power:
        return {"t": "pow", "e": _exp_str(g.exponent), "g": struct(g.wrapped_gate, bspec, candidates)}
    if type(g) is G.Exponential:
        return {"t": "exp", "g": struct(g.wrapped_gate, bspec, candidates)}
    return {"t": "unknown:" + type(g).__name__}


def has_external(s):
    while isinstance(s, dict) and "g" in s:
        if s["t"] == "exp" or (s["t"] == "pow" and "/" in s["e"]):
            return True
        s = s["g"]
    return False


def has_fraction(s):
    while isinstance(s, dict) and "g" in s:
        if s["t"] == "pow" and "/" in s["e"]:
            return True
        s = s["g"]
    return False


def eval_matrix(g, external):
    """numeric matrix of a real gate (JSON [[ [re, im], …], …]) or an error / timeout marker"""
    import sympy
    from sympy.matrices.common import MatrixError, NonInvertibleMatrixError
    try:
        with time_limit(_LIMIT[0]):
            m = circ.impl_matrix_to_numpy(g.matrix)
    except CaseTimeout:
        return {"timeout": True}
    except NonInvertibleMatrixError:
        return {"err": "err:noninv"}
    except TypeError:
        if external:
            return {"exterr": "TypeError"}
        return {"err": "err:type"}
    except (NotImplementedError, MatrixError, ValueError, ZeroDivisionError, AttributeError, RecursionError) as e:
        if external:  # failure inside sympy's exp / fractional power routine
            return {"exterr": type(e).__name__}
        raise
    return [[[float(x.real), float(x.imag)] for x in row] for row in m.tolist()]


def describe(g, bspec, candidates, skip=False):
    s = struct(g, bspec, candidates)
    return {"struct": s, "nq": int(g.num_qubits), "params": _match_params(g.params, bspec, candidates),
            "m": {"timeout": True, "skipped": True} if skip else eval_matrix(g, has_external(s))}


def run_impl(case):
    _LIMIT[0] = LIMITS.get(case.get("tier", "quick"), 2.0)
    bspec = case["base"]
    candidates = [bspec["params"]] + [m[1] for m in case["chain"] if m[0] == "replace"]
    g = build_base(bspec)
    steps = [describe(g, bspec, candidates)]
    applied = []
    for mod in case["chain"]:
        try:
            g2 = apply_mod(g, mod, bspec)
        except ValueError as e:
            steps.append({"err": "err:value", "msg": str(e)[:80]})
            break
        # once sympy ran out of time on a prefix, every longer chain contains the same computation: not retried
        timed_out = isinstance(steps[-1].get("m"), dict) and steps[-1]["m"].get("timeout") and mod[0] != "replace"
        d = describe(g2, bspec, candidates, skip=bool(timed_out))
        if mod[0] == "replace":
            # the other side of the last sentence: the same modifiers applied to the base built with the new parameters
            h = build_base(bspec, mod[1])
            for m2 in applied:
                h = apply_mod(h, m2, bspec)
            d["rebuilt_equal"] = bool(g2 == h)
            d["rebuilt"] = describe(h, bspec, candidates, skip=isinstance(d["m"], dict) and bool(d["m"].get("timeout")))
        else:
            applied.append(mod)
        steps.append(d)
        g = g2
    return {"steps": steps}


# ------------------------------------------------------------------ numeric helpers
def _np(m):
    import numpy as np
    return np.array([[complex(e[0], e[1]) for e in row] for row in m], dtype=complex)


def _is_mat(m):
    return isinstance(m, list)


def _close(a, b, tol=TOL):
    import numpy as np
    if a.shape != b.shape:
        return False
    if not (np.all(np.isfinite(a)) and np.all(np.isfinite(b))):
        return False
    scale = max(1.0, float(np.abs(a).max()), float(np.abs(b).max()))
    return bool(np.abs(a - b).max() <= tol * scale)


def _arity(bspec):
    return circ.BUILTIN_PARAMS[bspec["gate"]] if "gate" in bspec else bspec["nsyms"]


# ------------------------------------------------------------------ oracle: the property's sentences on the implementation only
def oracle(case, out):
    import numpy as np
    import scipy.linalg as sl
    if "steps" not in out:
        return ("impl-raise", f"implementation raised {out}")
    steps = out["steps"]
    bspec = case["base"]
    cur_params = bspec["params"]
    arity_ok = len(cur_params) == _arity(bspec) or bspec.get("gate") == "Delay"
    if _is_mat(steps[0].get("m")):
        d = len(steps[0]["m"])
        if d != 2 ** steps[0]["nq"]:
            return ("base-dimension", f"base gate reports {steps[0]['nq']} qubits but its matrix is {d}x{d}")
    for i, mod in enumerate(case["chain"]):
        if i + 1 >= len(steps):
            return ("steps-missing", "implementation output has fewer steps than modifiers")
        prev, cur = steps[i], steps[i + 1]
        t = mod[0]
        if "struct" not in cur:  # the modifier call itself raised
            if t == "controlled" and mod[1] >= 1:
                return ("controlled-raise", f"controlled({mod[1]}) raised {cur}")
            if t != "controlled":
                return ("modifier-raise", f"{mod} raised {cur}")
            return None  # control count < 1: outside the quantifier, nothing more is reachable
        if t == "controlled" and mod[1] < 1:
            return None  # accepted only because counts add up (ControlledGate.controlled); outside the quantifier
        # ---- number of qubits and parameters
        want_nq = prev["nq"] + (mod[1] if t == "controlled" else 0)
        if cur["nq"] != want_nq:
            return (t + "-num-qubits", f"step {i} {mod}: num_qubits {cur['nq']}, implied {want_nq}")
        if t == "replace":
            cur_params = mod[1]
            arity_ok = len(cur_params) == _arity(bspec) or bspec.get("gate") == "Delay"
        if cur["params"] != cur_params:
            return (t + "-params", f"step {i} {mod}: params {cur['params']}, expected {cur_params}")
        # ---- matrices
        A, B = prev.get("m"), cur.get("m")
        if t == "replace":
            if not cur.get("rebuilt_equal"):
                return ("replace-not-equal", f"step {i}: replace_params result != modifiers applied to the re-parameterised base: "
                                             f"{cur['struct']} vs {cur['rebuilt']['struct']}")
            rb = cur["rebuilt"]
            if rb["nq"] != cur["nq"] or rb["params"] != cur["params"]:
                return ("replace-not-equal", f"step {i}: rebuilt gate differs in num_qubits/params")
            if _is_mat(B) and _is_mat(rb["m"]) and not _close(_np(B), _np(rb["m"])):
                return ("replace-matrix", f"step {i}: matrix after replace_params differs from the rebuilt gate's matrix")
            if arity_ok and isinstance(B, dict) and B.get("err") == "err:type":
                return ("matrix-raise", f"step {i}: matrix raised TypeError with the right number of parameters")
            continue
        if not (_is_mat(A) and _is_mat(B)):
            if _is_mat(A) and isinstance(B, dict) and B.get("err") == "err:type" and arity_ok:
                return ("matrix-raise", f"step {i} {mod}: matrix raised TypeError")
            if _is_mat(A) and isinstance(B, dict) and B.get("err") == "err:noninv":
                if abs(np.linalg.det(_np(A))) > 1e-6:
                    return ("matrix-raise", f"step {i} {mod}: NonInvertibleMatrixError on an invertible matrix")
            continue  # timeouts / failures inside sympy's routines are counted, not judged
        A, B = _np(A), _np(B)
        if B.shape != (2 ** cur["nq"], 2 ** cur["nq"]):
            return (t + "-dimension", f"step {i} {mod}: matrix shape {B.shape} for {cur['nq']} qubits")
        if not (np.all(np.isfinite(A)) and np.all(np.isfinite(B))) or max(np.abs(A).max(), np.abs(B).max()) > 1e12:
            continue  # float overflow / total loss of precision (e.g. exp of a matrix with entries ~1e4): not judged
        if t == "dagger":
            if not _close(B, A.conj().T):
                sig = "power-fraction-dagger" if has_fraction(prev["struct"]) else "dagger-adjoint"
                return (sig, f"step {i}: matrix of {_show(cur['struct'])} is not the conjugate transpose of the matrix of "
                             f"{_show(prev['struct'])}")
        elif t == "controlled":
            k, n = mod[1], prev["nq"]
            d0 = 2 ** n * (2 ** k - 1)
            want = np.zeros((d0 + 2 ** n, d0 + 2 ** n), dtype=complex)
            want[:d0, :d0] = np.eye(d0)
            want[d0:, d0:] = A
            if not _close(B, want):
                return ("controlled-block", f"step {i}: controlled({k}) matrix is not identity on the first {d0} states followed by the original")
        elif t == "power":
            e = unrat(mod[1])
            if e.denominator == 1:
                n = int(e)
                if n >= 0:
                    if not _close(B, np.linalg.matrix_power(A, n)):
                        return ("power-integer", f"step {i}: power({n}) is not the {n}-fold product")
                else:
                    P = np.linalg.matrix_power(A, -n)
                    eye = np.eye(A.shape[0])
                    if np.linalg.cond(A) < 1e6 and not (_close(B @ P, eye, 1e-7) and _close(P @ B, eye, 1e-7)):
                        return ("power-negative", f"step {i}: power({n}) is not the inverse of the {-n}-fold product")
            elif e.numerator == 1 and e.denominator >= 2:
                if not _close(np.linalg.matrix_power(B, e.denominator), A, 1e-7):
                    return ("power-root", f"step {i}: the {e.denominator}-th power of power(1/{e.denominator}) is not the original matrix")
        elif t == "exp":
            # judge only where floating-point exp is meaningful: a generator of moderate norm and finite results
            # (exp of a matrix with entries ~1e4 overflows / loses all digits in BOTH implementations)
            if np.all(np.isfinite(A)) and np.linalg.norm(A, 2) <= 20:
                E = sl.expm(A)
                if np.all(np.isfinite(E)) and np.all(np.isfinite(B)) and not _close(B, E, 1e-7):
                    return ("exp-matrix", f"step {i}: exp matrix is not the matrix exponential of the original")
    return None


def _show(s):
    if not isinstance(s, dict):
        return str(s)
    t = s.get("t")
    if t == "base":
        return s["name"]
    if t == "ctl":
        return f"C{s['k']}[{_show(s['g'])}]"
    if t == "dag":
        return f"Dagger[{_show(s['g'])}]"
    if t == "pow":
        return f"Power[{_show(s['g'])},{s['e']}]"
    if t == "exp":
        return f"Exp[{_show(s['g'])}]"
    return str(t)


# ------------------------------------------------------------------ model requests (externals resolved through a table)
def _cyc_of_rat(x):
    return [rat(unrat(x)), 0, 0, 0]


def _model_params(params):
    return [p if isinstance(p, dict) else [rat(unrat(p[0])), rat(unrat(p[1]))] for p in params]


def _payload(case, table):
    b = dict(case["base"])
    b["params"] = _model_params(b["params"])
    chain = []
    for m in case["chain"]:
        if m[0] == "replace":
            chain.append(["replace", _model_params(m[1])])
        elif m[0] == "power":
            chain.append(["power", rat(unrat(m[1]))])
        else:
            chain.append(list(m))
    return {"base": b, "chain": chain, "table": table}


def _dyadic(x):
    return rat(Fraction(round(x * 2 ** 44), 2 ** 44))


def _to_cyc_matrix(a):
    return [[[_dyadic(float(z.real)), 0, _dyadic(float(z.imag)), 0] for z in row] for row in a.tolist()]


def _resolve(need, flags):
    """value of an external on the exact argument the model asks for (scipy, principal branch)"""
    import numpy as np
    import scipy.linalg as sl
    A = circ.model_matrix_to_numpy(need["arg"])
    entry = {"fn": need["fn"], "arg": need["arg"], "e": need["e"]}
    try:
        with np.errstate(all="ignore"):
            if need["fn"] == "exp":
                V = sl.expm(A)
            else:
                e = unrat(need["e"])
                ev = np.linalg.eigvals(A)
                if np.any((ev.real < 0) & (np.abs(ev.imag) <= 1e-6 * np.maximum(np.abs(ev), 1e-300))):
                    flags["ambiguous"] = True  # eigenvalue on the branch cut: float noise decides the branch
                if np.any(np.abs(ev) < 1e-9):
                    raise ValueError("singular")
                V = sl.fractional_matrix_power(A, float(e))
        V = np.asarray(V, dtype=complex)
        if not np.all(np.isfinite(V)) or np.abs(V).max() > 1e9:
            raise ValueError("non-finite")
        entry["val"] = _to_cyc_matrix(V)
    except Exception as ex:  # the external could not be evaluated: the model reports it as an external failure
        entry["err"] = type(ex).__name__
        flags["unresolved"] = True
    return entry


def requests(case, out):
    flags = {"ambiguous": False, "unresolved": False}
    _FLAGS[common.canon(case)] = flags
    table = []
    if any(m[0] == "exp" or (m[0] == "power" and unrat(m[1]).denominator != 1) for m in case["chain"]):
        drv = common.Driver(PROP)
        seen = set()
        for _ in range(8):
            resp = drv.run([("chain", _payload(case, table))])[0]
            if not isinstance(resp, list):
                break
            new = []
            for st in resp:
                nd = st.get("m", {}).get("need") if isinstance(st.get("m"), dict) else None
                if nd is not None:
                    key = common.canon(nd)
                    if key not in seen:
                        seen.add(key)
                        new.append(nd)
            if not new:
                break
            table.extend(_resolve(nd, flags) for nd in new)
    return [("chain", _payload(case, table))]


def _norm_model_params(ps):
    out = []
    for p in ps:
        if isinstance(p, dict):
            a, b, c, d = p["v"]
            out.append({"v": [a, c]} if (unrat(b) == 0 and unrat(d) == 0) else {"v": p["v"]})
        else:
            out.append([p[0][0], p[1][0]] if all(unrat(x) == 0 for x in p[0][1:] + p[1][1:]) else p)
    return out


def _norm_params(ps):
    if isinstance(ps, dict):
        return ps
    return [({"v": [rat(unrat(p["v"][0])), rat(unrat(p["v"][1]))]} if isinstance(p, dict)
             else [rat(unrat(p[0])), rat(unrat(p[1]))]) for p in ps]


def _norm_struct(s, model):
    if not isinstance(s, dict):
        return s
    s = dict(s)
    if s.get("t") == "base":
        s["params"] = _norm_model_params(s["params"]) if model else _norm_params(s["params"])
        if model:
            s["params"] = _norm_params(s["params"])
    if "g" in s:
        s["g"] = _norm_struct(s["g"], model)
    return s


def compare(case, out, resp):
    r = resp[0]
    if isinstance(r, dict) and "driver_error" in r:
        return "driver error: " + r["driver_error"]
    if "steps" not in out:
        return None  # the oracle already fails this case
    flags = _FLAGS.get(common.canon(case), {})
    isteps = out["steps"]
    if len(isteps) != len(r):
        return f"implementation produced {len(isteps)} steps, model {len(r)}: impl {isteps[-1] if isteps else None} model {r[-1] if r else None}"
    for i, (a, b) in enumerate(zip(isteps, r)):
        what = "base" if i == 0 else f"step {i - 1} {case['chain'][i - 1]}"
        if "struct" not in a or "struct" not in b:
            if a.get("err") != b.get("err"):
                return f"{what}: impl {a} model {b}"
            continue
        sa, sb = _norm_struct(a["struct"], False), _norm_struct(b["struct"], True)
        if sa != sb:
            return f"{what}: object structure differs: impl {common.canon(sa)} model {common.canon(sb)}"
        if a["nq"] != b["nq"]:
            return f"{what}: num_qubits impl {a['nq']} model {b['nq']}"
        pa, pb = _norm_params(a["params"]), _norm_params(_norm_model_params(b["params"]))
        if pa != pb:
            return f"{what}: params impl {pa} model {pb}"
        ma, mb = a["m"], b["m"]
        if _is_mat(ma) and _is_mat(mb):
            A, B = _np(ma), circ.model_matrix_to_numpy(mb)
            if not _close(A, B):
                if flags.get("ambiguous") and has_fraction(a["struct"]):
                    _SUPPRESSED[0] += 1
                    continue  # eigenvalue on the branch cut of the root; the oracle still checks the q-th power
                return f"{what}: matrix differs: impl {ma} model {B.round(9).tolist()}"
        elif isinstance(ma, dict) and isinstance(mb, dict):
            if "err" in ma or "err" in mb:
                if ma.get("err") != mb.get("err") and not ("timeout" in ma or "exterr" in ma or "exterr" in mb or "need" in mb):
                    return f"{what}: matrix error impl {ma} model {mb}"
        else:
            d = ma if isinstance(ma, dict) else mb
            if "err" in d:
                return f"{what}: one side raised {d}, the other returned a matrix"
            # timeout / external failure on one side only: counted in the evidence, not comparable
    return None


# ------------------------------------------------------------------ generators
HERMITIAN = ["X", "Y", "Z", "H", "I", "GPi", "CNOT", "CZ", "SWAP", "Delay"]
_counter = [0]


def _gauss_rows(rng, k, syms=0, lo=-2, hi=2):
    d = 2 ** k
    rows = [[[rng.randrange(lo, hi + 1), rng.randrange(lo, hi + 1)] for _ in range(d)] for _ in range(d)]
    for s in range(syms):
        rows[rng.randrange(d)][rng.randrange(d)] = {"sym": s}
    if syms:  # every symbol must occur
        present = {e["sym"] for row in rows for e in row if isinstance(e, dict)}
        for s in range(syms):
            if s not in present:
                rows[s % d][(s + 1) % d] = {"sym": s}
    return rows


def _val(rng):
    return {"v": [rat(Fraction(rng.randrange(-6, 7), rng.choice([1, 2, 4]))), rat(Fraction(rng.randrange(-6, 7), rng.choice([1, 2, 4])))]}


def _params_for(rng, bspec, axis_prob=0.1):
    if "gate" in bspec:
        n = circ.BUILTIN_PARAMS[bspec["gate"]]
        if bspec["gate"] == "Delay":
            return [[rat(Fraction(rng.randrange(0, 16), 4)), 0]]
        return [circ.rat_angle(rng, axis_prob) for _ in range(n)]
    return [_val(rng) for _ in range(bspec["nsyms"])]


def _random_base(rng, max_q, axis_prob=0.1, custom_prob=0.3, small_custom=False):
    if rng.random() < custom_prob:
        k = 1 if (small_custom or max_q < 2) else rng.choice([1, 1, 2])
        syms = rng.choice([0, 0, 1, 2])
        _counter[0] += 1
        b = {"custom": f"cg{_counter[0]}", "rows": _gauss_rows(rng, k, syms), "nsyms": syms}
    else:
        names = [n for n in circ.BUILTIN_PARAMS if circ.BUILTIN_QUBITS[n] <= max_q]
        b = {"gate": rng.choice(names)}
    b["params"] = _params_for(rng, b, axis_prob)
    return b


def _base_nq(b):
    return circ.BUILTIN_QUBITS[b["gate"]] if "gate" in b else int(math.log2(len(b["rows"])))


def _random_chain(rng, base, depth, max_total, externals):
    """modifier chain keeping the total number of qubits <= max_total; exp / fractional powers only on <= 2 qubits"""
    nq = _base_nq(base)
    chain = []
    ext_used = 0
    for _ in range(depth):
        kinds = ["dagger", "dagger", "power", "power", "controlled", "replace"]
        if nq < max_total:
            kinds.append("controlled")
        if externals and nq <= 2 and ext_used < 2:
            kinds += ["exp", "exp", "frac", "frac"]
        t = rng.choice(kinds)
        if t == "controlled":
            if nq >= max_total:
                t = "dagger"
            else:
                n = rng.randrange(1, min(3, max_total - nq) + 1)
                chain.append(["controlled", n])
                nq += n
                continue
        if t == "dagger":
            chain.append(["dagger"])
        elif t == "power":
            chain.append(["power", rng.choice([-3, -2, -1, 0, 1, 2, 3, 2, -1])])
        elif t == "frac":
            chain.append(["power", f"1/{rng.choice([2, 2, 3, 4])}"])
            ext_used += 1
        elif t == "exp":
            chain.append(["exp"])
            ext_used += 1
        elif t == "replace":
            chain.append(["replace", _params_for(rng, base)])
    return chain


def corpus():
    x = {"gate": "X", "params": []}
    s = {"gate": "S", "params": []}
    t = {"gate": "T", "params": []}
    rx = {"gate": "RX", "params": [["4/5", "3/5"]]}
    u3 = {"gate": "U3", "params": [["4/5", "3/5"], ["12/13", "5/13"], ["3/5", "-4/5"]]}
    cg = {"custom": "corpus_v", "rows": [[[1, 2], [3, 0]], [{"sym": 0}, [2, -1]]], "nsyms": 1, "params": [{"v": [1, "1/2"]}]}
    return [
        {"kind": "chain", "base": x, "chain": [["power", "1/2"], ["dagger"]]},                       # F16
        {"kind": "chain", "base": x, "chain": [["controlled", 2], ["power", "1/2"], ["dagger"]]},    # F16 under controls
        {"kind": "chain", "base": s, "chain": [["power", "1/2"], ["dagger"]]},                       # holds: Dagger(S)^(1/2)
        {"kind": "chain", "base": t, "chain": [["controlled", 1], ["dagger"], ["exp"]]},
        {"kind": "chain", "base": t, "chain": [["dagger"], ["controlled", 2], ["power", 3]]},
        {"kind": "chain", "base": rx, "chain": [["power", -2], ["dagger"], ["controlled", 1], ["replace", [["3/5", "4/5"]]]]},
        {"kind": "chain", "base": rx, "chain": [["exp"], ["dagger"], ["controlled", 1]]},
        {"kind": "chain", "base": u3, "chain": [["controlled", 1], ["controlled", 2], ["dagger"], ["power", 2]]},
        {"kind": "chain", "base": cg, "chain": [["dagger"], ["power", -1], ["replace", [{"v": ["-3/2", 2]}]], ["controlled", 1]]},
        {"kind": "malformed", "base": x, "chain": [["controlled", 0]]},
        {"kind": "malformed", "base": x, "chain": [["controlled", 2], ["controlled", -1], ["dagger"]]},
        {"kind": "malformed", "base": rx, "chain": [["dagger"], ["replace", []], ["controlled", 1]]},
        {"kind": "malformed", "base": {"custom": "corpus_sing", "rows": [[[1, 0], [1, 0]], [[1, 0], [1, 0]]], "nsyms": 0, "params": []},
         "chain": [["controlled", 1], ["power", -1]]},
    ]


def generate(rng, tier):
    big = tier == "thorough"
    cases = []

    def add(kind, base, chain):
        cases.append({"kind": kind, "base": base, "chain": chain, "tier": tier})

    # every built-in once with each single modifier (depth 1) and one two-step chain
    for name in circ.BUILTIN_PARAMS:
        b = {"gate": name}
        b["params"] = _params_for(rng, b)
        for mod in (["dagger"], ["controlled", 1], ["power", -2], ["power", 3]):
            add("chain", b, [mod])
        add("chain", b, [["controlled", rng.randrange(1, 3)], ["dagger"], ["power", rng.choice([-2, 2, 3])]])
        add("chain", b, [["replace", _params_for(rng, b)], ["dagger"]])
    # integer-only chains, up to 4 qubits in total
    for _ in range(700 if big else 100):
        base = _random_base(rng, 2)
        depth = rng.choice([0, 1, 2, 2, 3, 3, 4, 4])
        add("chain", base, _random_chain(rng, base, depth, 5 if big and rng.random() < 0.2 else 4, False))
    # chains with exp / fractional powers, at most 2 qubits when the external is applied; no axis angles
    for _ in range(220 if big else 45):
        base = _random_base(rng, rng.choice([1, 1, 2]), axis_prob=0.0, custom_prob=0.2, small_custom=True)
        depth = rng.choice([1, 2, 2, 3, 3, 4])
        add("chain", base, _random_chain(rng, base, depth, 3, True))
    # fractional power followed (somewhere later) by dagger: the F16 neighbourhood, hermitian-flagged and not
    for _ in range(60 if big else 14):
        name = rng.choice(HERMITIAN + ["S", "T", "SX", "RX", "RZ", "PHASE", "ISWAP", "XX"])
        b = {"gate": name}
        b["params"] = _params_for(rng, b, 0.0)
        pre = rng.choice([[], [["controlled", 1]], [["dagger"]], [["power", 2]]])
        post = rng.choice([[], [["controlled", 1]], [["power", 2]]])
        add("chain", b, pre + [["power", f"1/{rng.choice([2, 3, 4])}"], ["dagger"]] + post)
    # malformed stream
    for _ in range(120 if big else 24):
        base = _random_base(rng, 2)
        r = rng.random()
        if r < 0.35:
            chain = _random_chain(rng, base, rng.randrange(0, 3), 3, False) + [["controlled", rng.choice([0, -1, -2])]] \
                + _random_chain(rng, base, rng.randrange(0, 2), 3, False)
        elif r < 0.6:
            chain = [["controlled", rng.randrange(2, 4)], ["controlled", rng.choice([-1, -1, -3])], ["dagger"]]
        elif r < 0.8 and "gate" in base and circ.BUILTIN_PARAMS[base["gate"]] > 0 and base["gate"] != "Delay":
            wrong = _params_for(rng, base) + ([circ.rat_angle(rng)] if rng.random() < 0.5 else [])
            wrong = wrong if len(wrong) != circ.BUILTIN_PARAMS[base["gate"]] else wrong[:-1]
            chain = [rng.choice([["dagger"], ["controlled", 1]]), ["replace", wrong], ["power", 2]]
        else:
            _counter[0] += 1
            base = {"custom": f"sing{_counter[0]}", "rows": rng.choice([
                [[[1, 0], [1, 0]], [[1, 0], [1, 0]]], [[[0, 0], [1, 0]], [[0, 0], [0, 0]]], [[[1, 1], [2, 2]], [[1, 0], [2, 0]]]]),
                "nsyms": 0, "params": []}
            chain = rng.choice([[["power", -1]], [["controlled", 1], ["power", -2]], [["dagger"], ["power", -1]], [["power", 0], ["power", -1]]])
        add("malformed", base, chain)
    return cases


def nontrivial(case):
    return case["kind"] == "chain" and len(case["chain"]) >= 2


def distribution(cases, outs):
    kinds, depth, nqh = {}, {}, {}
    timeouts = exterr = mats = 0
    for c, o in zip(cases, outs):
        depth[len(c["chain"])] = depth.get(len(c["chain"]), 0) + 1
        for m in c["chain"]:
            k = m[0] if m[0] != "power" else ("power-int" if unrat(m[1]).denominator == 1 else "power-frac")
            kinds[k] = kinds.get(k, 0) + 1
        for st in (o.get("steps", []) if isinstance(o, dict) else []):
            m = st.get("m")
            if isinstance(m, list):
                mats += 1
                nqh[st["nq"]] = nqh.get(st["nq"], 0) + 1
            elif isinstance(m, dict) and m.get("timeout"):
                timeouts += 1
            elif isinstance(m, dict) and "exterr" in m:
                exterr += 1
    return {"modifier_kinds": kinds, "chain_depth": depth, "matrices_by_num_qubits": nqh, "matrices_evaluated": mats,
            "sympy_timeouts": timeouts, "sympy_external_failures": exterr,
            "branch_ambiguous_matrix_comparisons_skipped": _SUPPRESSED[0],
            "branch_ambiguous_cases": sum(1 for f in _FLAGS.values() if f.get("ambiguous")),
            "external_unresolved_cases": sum(1 for f in _FLAGS.values() if f.get("unresolved")),
            "per_matrix_time_limit_s": _LIMIT[0]}
