"""C16 — time-evolution circuits implement exp(-i t H) term by term, and its derivative.

Cases (all JSON):
  term  {"ops": [[q,"X"],…] (dict insertion order), "coeff": [re, im], "ctype": "float"|"complex"|"int",
         "t": m, "base": [ch, sh] | None, "n": register width}
  sum   {"terms": [{"ops","coeff","ctype"},…], "t": m, "steps": k, "base", "n"}
  deriv sum + {"obs": Gaussian-integer matrix, "psi": Gaussian-integer vector}
  seq   {"rep": circuit, "diff": circuit, "length", "position"}   (_generate_circuit_sequence)
The time given to the real code is  m·τ  with τ = 2·atan2(sh, ch) for a rational point (ch, sh) of the unit circle
(τ = 1 when base is None): the model computes every gate angle exactly as a·τ + b·π and, when all a are integers,
the circuit's matrix exactly in ℚ(ζ₈).
"""
import math
import warnings
from fractions import Fraction

from .. import common
from ..common import rat, unrat

PROP = "C16"
RULE = ("exhaustive Pauli strings on <=3 qubits + random strings on <=5 (thorough 6) qubits at rational-circle times; "
        "Hamiltonians with 1-4 terms (constant / duplicate / zero / complex coefficients included), steps 1-4; derivative "
        "cases with random Gaussian-integer observables and states; malformed stream: imaginary coefficients, zero "
        "coefficients, position >= length. Non-trivial: a term of weight >= 2 containing X or Y (term cases), and "
        "additionally n_steps >= 2 (sum / derivative cases); distinct = distinct canonical JSON of the case")
TRUSTED = [
    "gate angles: the ring-level theorems take the interpretation `ang : T -> Ang R` of an angle as its half-angle point as a "
    "PARAMETER whose only assumed law is ang(np.pi/2) = (1/sqrt2, 1/sqrt2); the statements over C (exp form, HasDerivAt) "
    "instantiate it with Mathlib's Real.cos / Real.sin, so no trigonometric law is assumed there",
    "float arithmetic of the code (2*time*c, time/n_steps, np.pi/(4 r), (time+shift)/n_steps) agrees with the exact field/module "
    "arithmetic of the model: checked here to 1e-9 on every gate angle (dyadic coefficients, times m*tau)",
    "abs(x) > 1e-9 on doubles is the model's exact rational comparison |x| > 10^-9 (inputs are not placed within one ulp of the threshold)",
    "'gate M on qubits qs of an n-qubit register' is OQ.Spec.lift; the identification of GateOperation.lifted_matrix / "
    "Lift.liftMatrix with Spec.lift is property C01 (here: exact comparison of the model's Lift.toUnitary matrix with the "
    "product of the real lifted matrices)",
    "Dagger(g).matrix is the conjugate transpose of g.matrix (sympy Matrix.adjoint); H and CNOT are flagged hermitian, so "
    "Circuit.inverse() reuses them (model: GateK.dagger)",
    "sorted(set of ints) is ascending; dict lookup term[q] returns the operator stored for q (model: insertion sort, Term.opAt)",
    "scipy.linalg.expm (oracle only) is accurate to 1e-10 on 2^n x 2^n generators of norm <= 150, n <= 6",
]
ASSUMPTIONS = ["PauliTerm._ops has distinct keys and no identity entries (dict invariant established by the constructor)",
               "n_steps >= 1 is a Python int; coefficients are Python int/float/complex (not numpy scalars or sympy expressions)"]

H_FD = 1e-3
PAULIS = "XYZ"


# ------------------------------------------------------------------------------------------------ real objects
def _mods():
    common.use_repo()
    from orquestra.quantum import evolution
    from orquestra.quantum.operators import PauliTerm, PauliSum
    from orquestra.quantum.circuits import Circuit, H, CNOT, RZ
    return evolution, PauliTerm, PauliSum, Circuit, (H, CNOT, RZ)


def _tau(base):
    if base is None:
        return 1.0
    return 2.0 * math.atan2(float(unrat(base[1])), float(unrat(base[0])))


def _coeff(t):
    re, im = unrat(t["coeff"][0]), unrat(t["coeff"][1])
    ct = t.get("ctype", "float")
    if ct == "int":
        return int(re)
    if ct == "complex":
        return complex(float(re), float(im))
    return float(re)


def _term(PauliTerm, t):
    return PauliTerm({int(q): p for q, p in t["ops"]}, _coeff(t))


def _canon_circuit(c):
    out = []
    for op in c.operations:
        ps = op.gate.params
        out.append([op.gate.name, float(ps[0]) if ps else None, [int(q) for q in op.qubit_indices]])
    return out


class _Lifter:
    """matrix of a circuit on n qubits = product of the REAL lifted matrices of its operations (last operation leftmost);
    lifted matrices are cached per distinct operation (to_unitary itself recomputes them each time)"""

    def __init__(self, n):
        self.n, self.cache = n, {}

    def unitary(self, circuit):
        import numpy as np
        u = np.eye(2 ** self.n, dtype=complex)
        for op in circuit.operations:
            key = (op.gate.name, tuple(float(p) for p in op.gate.params), tuple(op.qubit_indices))
            m = self.cache.get(key)
            if m is None:
                m = np.array(op.lifted_matrix(self.n), dtype=complex)
                self.cache[key] = m
            u = m @ u
        return u


def _cm(u):
    return [[[float(x.real), float(x.imag)] for x in row] for row in u]


def _np(m):
    import numpy as np
    return np.array([[complex(e[0], e[1]) for e in row] for row in m])


def _gauss_np(m):
    import numpy as np
    return np.array([[complex(float(unrat(e[0])), float(unrat(e[1]))) for e in row] for row in m])


def _expect(o, u, psi):
    v = u @ psi
    return complex(v.conj() @ (o @ v))


def run_impl(c):
    import numpy as np
    ev, PauliTerm, PauliSum, Circuit, (H, CNOT, RZ) = _mods()
    k = c["kind"]
    with warnings.catch_warnings():
        warnings.simplefilter("ignore")
        if k == "seq":
            def build(spec):
                ops = []
                for name, p, qs in spec:
                    g = {"H": H, "CNOT": CNOT}.get(name) or RZ(float(unrat(p[0])) + float(unrat(p[1])) * math.pi)
                    ops.append(g(*qs))
                return Circuit(ops)
            try:
                r = ev._generate_circuit_sequence(build(c["rep"]), build(c["diff"]), c["length"], c["position"])
            except ValueError:
                return {"err": "err:value"}
            return {"circuit": _canon_circuit(r)}
        time = float(unrat(c["t"])) * _tau(c.get("base"))
        n = c["n"]
        lift = _Lifter(n)
        if k == "term":
            term = _term(PauliTerm, c)
            try:
                circ = ev.time_evolution_for_term(term, time)
            except ValueError:
                return {"err": "err:value"}
            return {"circuit": _canon_circuit(circ), "n_qubits": circ.n_qubits, "U": _cm(lift.unitary(circ)), "time": time}
        terms = [_term(PauliTerm, t) for t in c["terms"]]
        ham = PauliSum(terms)
        steps = c["steps"]
        if k == "sum":
            try:
                circ = ev.time_evolution(ham, time, n_steps=steps)
            except ValueError:
                return {"err": "err:value"}
            # the sentence itself: the circuit is the concatenation, over the steps, of the per-term circuits for t/steps
            concat = []
            for _ in range(steps):
                for t in terms:
                    concat += _canon_circuit(ev.time_evolution_for_term(t, time / steps))
            return {"circuit": _canon_circuit(circ), "n_qubits": circ.n_qubits, "U": _cm(lift.unitary(circ)),
                    "concat_ok": concat == _canon_circuit(circ), "time": time}
        if k == "deriv":
            try:
                circuits, factors = ev.time_evolution_derivatives(ham, time, n_steps=steps)
            except ValueError:
                return {"err": "err:value"}
            except ZeroDivisionError:
                return {"err": "err:zerodiv"}
            obs, psi = _gauss_np(c["obs"]), _gauss_np([c["psi"]])[0]
            exps = [_expect(obs, lift.unitary(ci), psi) for ci in circuits]
            fd = {}
            try:
                for name, d in (("m2", -2), ("m1", -1), ("p1", 1), ("p2", 2)):
                    e = _expect(obs, lift.unitary(ev.time_evolution(ham, time + d * H_FD, n_steps=steps)), psi)
                    fd[name] = [e.real, e.imag]
            except ValueError:
                fd = None   # no evolution circuit exists (a non-real Hamiltonian whose guards the derivative code never evaluated)
            return {"factors": [float(f) for f in factors], "circuits": [_canon_circuit(ci) for ci in circuits],
                    "exps": [[e.real, e.imag] for e in exps], "fd": fd, "time": time}
    raise AssertionError("unknown kind")


# ------------------------------------------------------------------------------------------------ model side
def _mterm(t):
    return {"ops": t["ops"], "coeff": t["coeff"]}


def _evaluable(c):
    return c.get("base") is not None


def requests(c, out):
    k = c["kind"]
    if k == "seq":
        return [("sequence", {"repeated": c["rep"], "different": c["diff"], "length": c["length"], "position": c["position"]})]
    extra = {"n": c["n"], "base": c["base"]} if _evaluable(c) else {}
    if k == "term":
        return [("term", dict(term=_mterm(c), time=[c["t"], 0], **extra))]
    terms = [_mterm(t) for t in c["terms"]]
    if k == "sum":
        return [("evolution", dict(terms=terms, time=[c["t"], 0], steps=c["steps"], **extra))]
    if k == "deriv":
        if _evaluable(c):
            extra.update(obs=c["obs"], psi=c["psi"])
        return [("derivatives", dict(terms=terms, time=[c["t"], 0], steps=c["steps"], **extra))]
    return []


def _cmp_circuit(impl, model, tau, what):
    if len(impl) != len(model):
        return f"{what}: {len(impl)} operations, model has {len(model)}: impl {impl[:12]} model {model[:12]}"
    for i, (a, b) in enumerate(zip(impl, model)):
        if a[0] != b[0] or a[2] != b[2]:
            return f"{what}: operation {i} is {a}, model says {b}"
        if (a[1] is None) != (b[1] is None):
            return f"{what}: operation {i} parameter {a[1]} vs model {b[1]}"
        if a[1] is not None:
            want = float(unrat(b[1][0])) * tau + float(unrat(b[1][1])) * math.pi
            if abs(a[1] - want) > 1e-9 * (1 + abs(want)):
                return f"{what}: operation {i} {a[0]} angle {a[1]!r}, model {b[1]} = {want!r}"
    return None



def _model_unitary(mc, tau, n):
    """numeric matrix of a MODEL circuit (gate list with exact angles a·τ + b·π) by the independent bit-manipulation
    embedding of harness/circ.py and textbook gate formulas; used only when the implementation's circuit differs
    structurally from the model's: then the two must at least be the same operator"""
    import numpy as np
    from .. import circ
    u = np.eye(2 ** n, dtype=complex)
    for name, p, qs in mc:
        th = None if p is None else float(unrat(p[0])) * tau + float(unrat(p[1])) * math.pi
        if name == "H":
            g = np.array([[1, 1], [1, -1]], dtype=complex) / math.sqrt(2)
        elif name == "CNOT":
            g = np.array([[1, 0, 0, 0], [0, 1, 0, 0], [0, 0, 0, 1], [0, 0, 1, 0]], dtype=complex)
        elif name in ("RX", "RX_Dagger"):
            c, s_ = math.cos(th / 2), math.sin(th / 2)
            g = np.array([[c, -1j * s_], [-1j * s_, c]])
        elif name in ("RZ", "RZ_Dagger"):
            g = np.array([[np.exp(-0.5j * th), 0], [0, np.exp(0.5j * th)]])
        else:
            raise ValueError(name)
        if name.endswith("_Dagger"):
            g = g.conj().T
        u = circ.embed_reference(g, list(qs), n) @ u
    return u


def compare(c, out, resp):
    import numpy as np
    r = resp[0]
    if isinstance(r, dict) and "driver_error" in r:
        return "driver error: " + r["driver_error"]
    if "exc" in out:
        return f"implementation raised {out['exc']}: {out.get('msg')}; model {str(r)[:200]}"
    k = c["kind"]
    if isinstance(r, str) or "err" in out:
        if out.get("err") != r:
            return f"{k}: impl {out.get('err') or 'returned a result'}, model {r if isinstance(r, str) else 'returns a result'}"
        return None
    tau = _tau(c.get("base"))
    if k == "seq":
        return _cmp_circuit(out["circuit"], r, 1.0, "_generate_circuit_sequence")
    if k in ("term", "sum"):
        m = _cmp_circuit(out["circuit"], r["circuit"], tau, "circuit")
        if m:
            # a structurally different circuit is tolerated only if it is the same operator as the model's circuit
            dev = float(np.max(np.abs(_np(out["U"]) - _model_unitary(r["circuit"], tau, c["n"]))))
            if dev > 1e-9:
                return m + f" (and the two circuits differ as operators by {dev:.3e})"
        if "unitary" in r:
            from .. import circ
            um = circ.model_matrix_to_numpy(r["unitary"])
            if not circ.close(_np(out["U"]), um, 1e-9):
                return f"matrix of the circuit differs from the model's exact matrix by {float(np.max(np.abs(_np(out['U']) - um))):.3e}"
        return None
    if k == "deriv":
        if len(out["factors"]) != len(r["factors"]) or len(out["circuits"]) != len(r["circuits"]):
            return f"derivatives: {len(out['circuits'])} circuits / {len(out['factors'])} factors, model {len(r['circuits'])} / {len(r['factors'])}"
        for i, (a, b) in enumerate(zip(out["factors"], r["factors"])):
            if abs(a - float(unrat(b))) > 1e-12 * (1 + abs(a)):
                return f"derivatives: factor {i} is {a!r}, model {b}"
        for i, (a, b) in enumerate(zip(out["circuits"], r["circuits"])):
            m = _cmp_circuit(a, b, tau, f"derivative circuit {i}")
            if m:
                # tolerated only if it has the same expectation as the model's circuit on this observable and state
                obs, psi = _gauss_np(c["obs"]), _gauss_np([c["psi"]])[0]
                e = _expect(obs, _model_unitary(b, tau, c["n"]), psi)
                if abs(e - complex(*out["exps"][i])) > 1e-9 * _scale(c):
                    return m + " (and the expectations under the two circuits differ)"
        if "value" in r:
            got = sum(f * complex(*e) for f, e in zip(out["factors"], out["exps"]))
            want = common.cyc_to_complex(r["value"])
            if abs(got - want) > 1e-8 * _scale(c):
                return f"derivatives: factor-weighted sum {got!r}, model's exact value {want!r}"
        return None
    return None


# ------------------------------------------------------------------------------------------------ oracle
def _pauli_matrix(ops, n):
    import numpy as np
    mats = {"I": np.eye(2, dtype=complex), "X": np.array([[0, 1], [1, 0]], dtype=complex),
            "Y": np.array([[0, -1j], [1j, 0]]), "Z": np.array([[1, 0], [0, -1]], dtype=complex)}
    d = {int(q): p for q, p in ops}
    m = np.eye(1, dtype=complex)
    for q in range(n):
        m = np.kron(m, mats[d.get(q, "I")])
    return m


def _scale(c):
    import numpy as np
    o, p = _gauss_np(c["obs"]), _gauss_np([c["psi"]])[0]
    s = sum(abs(float(unrat(t["coeff"][0]))) for t in c["terms"])
    return float(np.linalg.norm(o) * np.linalg.norm(p) ** 2 * (1 + s)) + 1e-300


def _imag_class(ts):
    """'real' (all |im| <= 1e-9), 'reject' (a NON-constant term with |im| >= 1e-6), else 'unspecified'"""
    worst = "real"
    for t in ts:
        im = abs(float(unrat(t["coeff"][1])))
        if im <= 1e-9:
            continue
        if not t["ops"]:
            worst = "unspecified" if worst == "real" else worst  # constant term: the carve-out 'constant ⇒ empty circuit'
        elif im >= 1e-6:
            return "reject"
        else:
            worst = "unspecified"
    return worst


def oracle(c, out):
    """the sentences of the property on the implementation's outputs; shares nothing with the Lean model"""
    import numpy as np
    from scipy.linalg import expm
    if "exc" in out:
        return ("unexpected-exception", f"implementation raised {out['exc']}: {out.get('msg')}")
    k = c["kind"]
    if k == "seq":
        if c["position"] >= c["length"]:
            return None if out.get("err") else ("sequence-accepts-bad-position", "position >= length accepted")
        if "circuit" not in out:
            return ("sequence-raise", "valid _generate_circuit_sequence request rejected")
        want = []
        for i in range(c["length"]):
            want += [[g[0], None if g[1] is None else float(unrat(g[1][0])) + float(unrat(g[1][1])) * math.pi, g[2]]
                     for g in (c["diff"] if i == c["position"] else c["rep"])]
        if want != out["circuit"]:
            return ("sequence-splice", f"sequence {out['circuit']} is not the requested splice {want}")
        return None
    n = c["n"]
    if k == "term":
        cls = _imag_class([c])
        if not c["ops"]:
            if out.get("circuit") != []:
                return ("constant-term-not-empty", f"constant term gave {out.get('err') or out.get('circuit')}, expected the empty circuit")
            return None
        if cls == "reject":
            return None if out.get("err") == "err:value" else (
                "imaginary-coefficient-accepted", f"coefficient {c['coeff']} with a non-negligible imaginary part was not rejected")
        if cls != "real":
            return None
        if "err" in out:
            return ("real-term-rejected", f"term with real coefficient {c['coeff']} raised {out['err']}")
        re = float(unrat(c["coeff"][0]))
        want = expm(-1j * out["time"] * re * _pauli_matrix(c["ops"], n))
        dev = float(np.max(np.abs(_np(out["U"]) - want)))
        if dev > 1e-8:
            w = len(c["ops"])
            return ("term-matrix", f"term {c['ops']} coeff {re} time {out['time']!r}: circuit matrix differs from exp(-i t c P) by {dev:.3e} (weight {w})")
        return None
    cls = _imag_class(c["terms"])
    steps = c["steps"]
    res = [float(unrat(t["coeff"][0])) for t in c["terms"]]
    paulis = [_pauli_matrix(t["ops"], n) for t in c["terms"]]
    nonconst = [bool(t["ops"]) for t in c["terms"]]
    if k == "sum":
        if cls == "reject":
            return None if out.get("err") == "err:value" else (
                "imaginary-coefficient-accepted", "a Hamiltonian term with a non-negligible imaginary part was not rejected")
        if cls != "real":
            return None
        if "err" in out:
            return ("real-hamiltonian-rejected", f"Hamiltonian with real coefficients raised {out['err']}")
        if not out["concat_ok"]:
            return ("sum-not-concatenation", f"steps={steps}: the circuit is not the concatenation over the steps of the per-term "
                    f"circuits for time t/steps in listed order")
        step = np.eye(2 ** n, dtype=complex)
        for re, p, nc in zip(res, paulis, nonconst):
            if nc:
                step = expm(-1j * (out["time"] / steps) * re * p) @ step
        want = np.linalg.matrix_power(step, steps)
        dev = float(np.max(np.abs(_np(out["U"]) - want)))
        if dev > 1e-8:
            return ("sum-matrix", f"{len(res)} terms, steps={steps}: circuit matrix differs from the ordered product of exp(-i t/steps c_k P_k) by {dev:.3e}")
        return None
    if k == "deriv":
        if cls != "real":
            return None      # the derivative sentence speaks about real Hamiltonians; rejection is the term sentence
        if "err" in out:
            if out["err"] == "err:zerodiv" and any(r == 0 for r in res):
                return ("derivative-zero-coefficient", f"time_evolution_derivatives raises ZeroDivisionError when a term has coefficient 0 "
                        f"(terms {[(t['ops'], t['coeff'][0]) for t in c['terms']]}); the derivative exists (that term contributes 0) "
                        f"[regression of the fix 9211baa]")
            return ("derivative-raise", f"time_evolution_derivatives raised {out['err']} on a real Hamiltonian")
        got = sum(f * complex(*e) for f, e in zip(out["factors"], out["exps"]))
        sc = _scale(c)
        if out["fd"] is None:
            return ("derivative-without-evolution", "derivative circuits were returned for a real Hamiltonian whose evolution circuit is rejected")
        fd = {kk: complex(*v) for kk, v in out["fd"].items()}
        d_fd = (fd["m2"] - 8 * fd["m1"] + 8 * fd["p1"] - fd["p2"]) / (12 * H_FD)
        if abs(got - d_fd) > 1e-5 * sc:
            return ("derivative-" + ("multi-step" if steps > 1 else "single-step"),
                    f"steps={steps}: factor-weighted sum {got!r} but d/dt of the expectation under time_evolution is {d_fd!r} (finite difference)")
        # analytic derivative of the ordered product of exponentials (Leibniz over the positions)
        t = out["time"]
        fac = []
        for _ in range(steps):
            for re, p, nc in zip(res, paulis, nonconst):
                if nc:
                    fac.append((expm(-1j * (t / steps) * re * p), (-1j * re / steps) * p))
        obs, psi = _gauss_np(c["obs"]), _gauss_np([c["psi"]])[0]
        w = np.eye(2 ** n, dtype=complex)
        for v, _ in fac:
            w = v @ w
        dw = np.zeros_like(w)
        for i in range(len(fac)):
            m = np.eye(2 ** n, dtype=complex)
            for j, (v, g) in enumerate(fac):
                m = (g @ v if i == j else v) @ m
            dw = dw + m
        v0, v1 = w @ psi, dw @ psi
        d_an = complex(v1.conj() @ obs @ v0 + v0.conj() @ obs @ v1)
        if abs(got - d_an) > 1e-8 * sc:
            return ("derivative-" + ("multi-step" if steps > 1 else "single-step"),
                    f"steps={steps}: factor-weighted sum {got!r} but the derivative of the ordered product of exponentials is {d_an!r}")
        return None
    return None


# ------------------------------------------------------------------------------------------------ generators
def _rat_point(rng):
    while True:
        p, q = rng.randrange(-9, 10), rng.randrange(1, 10)
        if p != 0:
            break
    t = Fraction(p, q)
    return [rat((1 - t * t) / (1 + t * t)), rat(2 * t / (1 + t * t))]


def _rand_ops(rng, n, weight=None, shuffle=True):
    w = weight if weight is not None else rng.randrange(1, n + 1)
    qs = rng.sample(range(n), w)
    if not shuffle or rng.random() < 0.5:
        qs.sort()
    return [[q, rng.choice(PAULIS)] for q in qs]


def _term_case(rng, ops, n, exact=True, coeff=None, ctype=None):
    """exact: the RZ half-angle is an integer multiple of the base point's angle"""
    if exact:
        d = rng.choice([1, 2, 4])
        p = rng.choice([-3, -2, -1, 1, 2, 3]) if coeff is None else None
        co = Fraction(p, d) if coeff is None else Fraction(coeff)
        mp = rng.choice([1, 2, 3])
        # a = 2 * m * c must be an integer: m = mp / (2 c) * … keep it simple: m = mp * d / 2  ->  a = mp * p
        m = Fraction(mp * co.denominator, 2)
        base = _rat_point(rng)
    else:
        co = Fraction(rng.randrange(-64, 65), 16) if coeff is None else Fraction(coeff)
        m = Fraction(rng.randrange(-4000, 4001), 1024)
        base = None
    ct = ctype or rng.choice(["float", "float", "complex", "int" if co.denominator == 1 else "float"])
    return {"kind": "term", "ops": ops, "coeff": [rat(co), 0], "ctype": ct, "t": rat(m), "base": base, "n": n}


def _all_strings(n):
    out = []
    for code in range(4 ** n):
        ops, x = [], code
        for q in range(n):
            x, r = divmod(x, 4)
            if r:
                ops.append([q, PAULIS[r - 1]])
        out.append(ops)
    return out


def _ham(rng, n, nterms, steps, exact=True, special=True):
    d = rng.choice([1, 2, 4])
    terms = []
    for _ in range(nterms):
        r = rng.random()
        if special and r < 0.08:
            ops = []                                  # constant term
        elif special and r < 0.16 and terms:
            ops = [list(o) for o in terms[-1]["ops"]]  # duplicate of the previous term
        else:
            ops = _rand_ops(rng, n)
        p = rng.choice([-3, -2, -1, 1, 2, 3])
        co = Fraction(p, d) if exact else Fraction(rng.randrange(-48, 49), 16)
        if not exact and co == 0:
            co = Fraction(1, 16)
        ct = rng.choice(["float", "float", "complex", "int" if co.denominator == 1 else "float"])
        if special and terms and ops == terms[-1]["ops"] and rng.random() < 0.5:
            # the SAME term listed twice (same operators and the same coefficient)
            terms.append({"ops": [list(o) for o in terms[-1]["ops"]], "coeff": list(terms[-1]["coeff"]),
                          "ctype": terms[-1]["ctype"]})
            continue
        terms.append({"ops": ops, "coeff": [rat(co), 0], "ctype": ct})
    if exact:
        mp = rng.choice([1, 1, 2])
        m = Fraction(mp * steps * d, 2)      # a_k = 2 (m / steps) c_k = mp * p_k
        base = _rat_point(rng)
    else:
        m = Fraction(rng.randrange(-3000, 3001), 1024)
        base = None
    return {"terms": terms, "t": rat(m), "steps": steps, "base": base, "n": n}


def _obs_psi(rng, n):
    d = 2 ** n
    herm = rng.random() < 0.5
    m = [[[rng.randrange(-2, 3), rng.randrange(-2, 3)] for _ in range(d)] for _ in range(d)]
    if herm:
        for i in range(d):
            m[i][i][1] = 0
            for j in range(i):
                m[i][j] = [m[j][i][0], -m[j][i][1]]
    if rng.random() < 0.3:
        psi = [[0, 0] for _ in range(d)]
        psi[rng.randrange(d)] = [1, 0]
    else:
        psi = [[rng.randrange(-2, 3), rng.randrange(-2, 3)] for _ in range(d)]
        if all(x == [0, 0] for x in psi):
            psi[0] = [1, 0]
    return m, psi


def _seq_case(rng):
    def circ(k):
        out = []
        for _ in range(k):
            r = rng.random()
            if r < 0.3:
                out.append(["H", None, [rng.randrange(3)]])
            elif r < 0.6:
                a, b = rng.sample(range(3), 2)
                out.append(["CNOT", None, [a, b]])
            else:
                out.append(["RZ", [rat(Fraction(rng.randrange(-8, 9), 4)), rat(Fraction(rng.randrange(-2, 3), 2))], [rng.randrange(3)]])
        return out
    length = rng.randrange(0, 5)
    position = rng.randrange(0, length + 2)
    return {"kind": "seq", "rep": circ(rng.randrange(0, 4)), "diff": circ(rng.randrange(0, 4)), "length": length, "position": position}


def corpus():
    zx = [[0, "Z"], [1, "X"]]
    return [
        # F10 (fixed ce4fdcc): a negative imaginary part passed the guard `imag > 1e-9`
        {"kind": "term", "ops": [[0, "Z"]], "coeff": [1, -1], "ctype": "complex", "t": 1, "base": None, "n": 1},
        {"kind": "term", "ops": [[0, "Z"]], "coeff": [1, 1], "ctype": "complex", "t": 1, "base": None, "n": 1},
        # threshold of the guard: exactly 1e-9 is accepted, 2e-9 rejected
        {"kind": "term", "ops": [[0, "X"]], "coeff": [1, "1/1000000000"], "ctype": "complex", "t": 1, "base": None, "n": 1},
        {"kind": "term", "ops": [[0, "X"]], "coeff": [1, "-1/500000000"], "ctype": "complex", "t": 1, "base": None, "n": 1},
        # constant term -> empty circuit (also with an imaginary coefficient: returned before the guard)
        {"kind": "term", "ops": [], "coeff": [2, 0], "ctype": "float", "t": 1, "base": ["3/5", "4/5"], "n": 2},
        {"kind": "term", "ops": [], "coeff": [2, 1], "ctype": "complex", "t": 1, "base": None, "n": 1},
        # weight 3 with X and Y, gaps, unsorted dict order, idle qubit
        {"kind": "term", "ops": [[3, "Y"], [0, "X"], [2, "Z"]], "coeff": ["1/2", 0], "ctype": "float", "t": 1, "base": ["3/5", "4/5"], "n": 5},
        # F11 (fixed 5898aa4): repeated step built with the full time for n_steps > 1
        {"kind": "deriv", "terms": [{"ops": zx, "coeff": [1, 0], "ctype": "float"}, {"ops": [[0, "X"]], "coeff": ["1/2", 0], "ctype": "float"}],
         "t": 2, "steps": 2, "base": ["4/5", "3/5"], "n": 2,
         "obs": [[[1, 0], [0, 0], [0, 0], [0, 0]], [[0, 0], [-1, 0], [0, 0], [0, 0]], [[0, 0], [0, 0], [1, 0], [0, 0]], [[0, 0], [0, 0], [0, 0], [-1, 0]]],
         "psi": [[1, 0], [0, 0], [0, 0], [0, 0]]},
        # derivative with a constant term (its two circuits cancel) and a single step
        {"kind": "deriv", "terms": [{"ops": [[0, "Y"]], "coeff": [1, 0], "ctype": "float"}, {"ops": [], "coeff": [2, 0], "ctype": "float"}],
         "t": 1, "steps": 1, "base": ["3/5", "4/5"], "n": 1, "obs": [[[1, 0], [0, 1]], [[0, -1], [-1, 0]]], "psi": [[1, 0], [1, 1]]},
        # zero coefficient (fixed 9211baa: np.pi / (4.0 * r) raised ZeroDivisionError): the term is skipped, the
        # derivative identity must still hold; a regression is reported with signature derivative-zero-coefficient
        {"kind": "deriv", "terms": [{"ops": [[0, "Z"]], "coeff": [0, 0], "ctype": "float"}],
         "t": 1, "steps": 1, "base": None, "n": 1, "obs": [[[1, 0], [0, 0]], [[0, 0], [-1, 0]]], "psi": [[1, 0], [0, 0]]},
        {"kind": "deriv", "terms": [{"ops": [[0, "X"]], "coeff": [1, 0], "ctype": "float"}, {"ops": [[1, "Z"], [0, "Y"]], "coeff": [0, 0], "ctype": "complex"},
                                    {"ops": [[1, "Y"]], "coeff": ["-1/2", 0], "ctype": "float"}],
         "t": 2, "steps": 2, "base": ["3/5", "4/5"], "n": 2,
         "obs": [[[1, 0], [0, 1], [0, 0], [2, 0]], [[0, -1], [-1, 0], [1, 1], [0, 0]], [[0, 0], [1, -1], [1, 0], [0, 0]], [[2, 0], [0, 0], [0, 0], [-1, 0]]],
         "psi": [[1, 0], [0, 1], [1, 1], [0, 0]]},
        {"kind": "deriv", "terms": [{"ops": [], "coeff": [0, 0], "ctype": "float"}, {"ops": [[0, "Y"]], "coeff": [0, 0], "ctype": "int"}],
         "t": 1, "steps": 3, "base": ["3/5", "4/5"], "n": 1, "obs": [[[1, 0], [0, 1]], [[0, -1], [-1, 0]]], "psi": [[1, 0], [1, 1]]},
        # purely imaginary coefficient, one step: the code evaluates no guard and returns no circuits (out of the real domain)
        {"kind": "deriv", "terms": [{"ops": [[0, "Z"]], "coeff": [0, 1], "ctype": "complex"}],
         "t": 1, "steps": 1, "base": None, "n": 1, "obs": [[[1, 0], [0, 0]], [[0, 0], [-1, 0]]], "psi": [[1, 0], [0, 0]]},
        {"kind": "sum", "terms": [{"ops": [[0, "X"]], "coeff": [1, 0], "ctype": "float"}, {"ops": [[0, "Z"]], "coeff": [1, 0], "ctype": "float"}],
         "t": 3, "steps": 3, "base": ["3/5", "4/5"], "n": 1},
        {"kind": "sum", "terms": [], "t": 1, "steps": 2, "base": None, "n": 1},
        {"kind": "seq", "rep": [["H", None, [0]]], "diff": [["CNOT", None, [0, 1]]], "length": 2, "position": 2},
        {"kind": "seq", "rep": [["H", None, [0]]], "diff": [["CNOT", None, [0, 1]]], "length": 3, "position": 0},
    ]


def generate(rng, tier):
    big = tier == "thorough"
    cases = []
    # ---- exhaustive Pauli strings on <= 3 qubits
    for n in ((1, 2, 3) if big else (3,)):
        for ops in _all_strings(n):
            for rep in range(3 if big else 1):
                cases.append(_term_case(rng, [list(o) for o in ops], n, exact=True))
            if big:
                cases.append(_term_case(rng, [list(o) for o in ops], n, exact=False))
    # ---- random strings, wider registers, unsorted insertion order, idle qubits
    for _ in range(150 if big else 24):
        n = rng.choice([2, 3, 4, 4, 5] + ([6] if big else []))
        cases.append(_term_case(rng, _rand_ops(rng, n), n, exact=n <= (5 if big else 4) and rng.random() < (0.7 if n < 5 else 0.25)))
    # ---- arbitrary (non rational-circle) times and coefficients: oracle + structural comparison
    for _ in range(200 if big else 30):
        n = rng.randrange(1, 5)
        cases.append(_term_case(rng, _rand_ops(rng, n), n, exact=False))
    # ---- imaginary parts: accepted (negligible), rejected (both signs), in between
    for _ in range(80 if big else 16):
        n = rng.randrange(1, 4)
        c = _term_case(rng, _rand_ops(rng, n), n, exact=False, ctype="complex")
        im = rng.choice([Fraction(1, 10 ** 12), Fraction(-1, 10 ** 10), Fraction(1, 10 ** 9), Fraction(-1, 10 ** 9),
                         Fraction(1, 10 ** 8), Fraction(-1, 10 ** 8), Fraction(-3, 10 ** 6), Fraction(1, 10 ** 3),
                         Fraction(1, 2), Fraction(-1, 2), Fraction(-1), Fraction(2), Fraction(-5, 4)])
        c["coeff"][1] = rat(im)
        if rng.random() < 0.15:
            c["ops"] = []
        cases.append(c)
    # ---- sums
    for _ in range(160 if big else 26):
        n = rng.choice([1, 2, 2, 3, 3, 4] if big else [1, 2, 2, 3, 3])
        h = _ham(rng, n, rng.randrange(1, 5), rng.randrange(1, 5), exact=rng.random() < (0.6 if n < 4 else 0.2))
        h["kind"] = "sum"
        if rng.random() < 0.12 and h["terms"]:
            t = rng.choice(h["terms"])
            t["coeff"][1] = rat(rng.choice([Fraction(-1, 2), Fraction(1), Fraction(-1, 10 ** 8), Fraction(1, 10 ** 11)]))
            t["ctype"] = "complex"
        cases.append(h)
    for _ in range(6 if big else 2):
        h = _ham(rng, 2, 0, rng.randrange(1, 4), exact=False)
        h["kind"] = "sum"
        cases.append(h)
    # ---- derivatives
    for _ in range(110 if big else 18):
        n = rng.choice([1, 2, 2, 3] if big else [1, 2, 2, 3])
        nterms = rng.randrange(1, 5 if n < 3 else 4)
        steps = rng.randrange(1, 5 if n < 3 else 4)
        # the exact model value costs (2·terms·steps) circuits × (terms·steps) term circuits of exact liftings: keep those small
        small = nterms * steps <= (6 if n == 3 else 9)
        h = _ham(rng, n, nterms, steps, exact=small and rng.random() < (0.6 if n < 3 else 0.4))
        h["kind"] = "deriv"
        h["obs"], h["psi"] = _obs_psi(rng, n)
        cases.append(h)
    # degenerate derivative requests: zero coefficient (skipped term), imaginary part (rejected)
    for _ in range(10 if big else 3):
        n = rng.randrange(1, 3)
        h = _ham(rng, n, rng.randrange(1, 4), rng.randrange(1, 3), exact=False)
        h["kind"] = "deriv"
        h["obs"], h["psi"] = _obs_psi(rng, n)
        t = rng.choice(h["terms"])
        if rng.random() < 0.5:
            t["coeff"] = [0, 0]
        else:
            t["coeff"][1] = rat(rng.choice([Fraction(-1, 2), Fraction(1, 4)]))
            t["ctype"] = "complex"
        cases.append(h)
    # ---- _generate_circuit_sequence
    for _ in range(60 if big else 12):
        cases.append(_seq_case(rng))
    return cases


def _heavy(ops):
    return len(ops) >= 2 and any(p in "XY" for _, p in ops)


def nontrivial(c):
    k = c["kind"]
    if k == "term":
        return _heavy(c["ops"])
    if k in ("sum", "deriv"):
        return c["steps"] >= 2 and any(_heavy(t["ops"]) for t in c["terms"])
    if k == "seq":
        return c["length"] >= 2 and c["position"] < c["length"]
    return False


def distribution(cases, outs):
    rej = sum(1 for o in outs if isinstance(o, dict) and o.get("err"))
    widths, weights, steps, nterms = {}, {}, {}, {}
    for c in cases:
        if "n" in c:
            widths[c["n"]] = widths.get(c["n"], 0) + 1
        if c["kind"] == "term":
            weights[len(c["ops"])] = weights.get(len(c["ops"]), 0) + 1
        if c["kind"] in ("sum", "deriv"):
            steps[c["steps"]] = steps.get(c["steps"], 0) + 1
            nterms[len(c["terms"])] = nterms.get(len(c["terms"]), 0) + 1
    return {"rejected_requests": rej, "register_widths": widths, "term_weights": weights, "n_steps": steps,
            "hamiltonian_sizes": nterms,
            "exact_matrix_comparisons": sum(1 for c in cases if c.get("base") is not None),
            "max_circuits_in_a_derivative": max([len(o.get("circuits", [])) for o in outs if isinstance(o, dict)] + [0])}
