"""C16 — time-evolution circuits implement exp(-i t H) term by term, and its derivative.

Cases (all JSON):
  term  {"ops": [[q,"X"],…] (dict insertion order), "coeff": [re, im], "ctype": "float"|"complex"|"int",
         "t": m, "base": [ch, sh] | None, "n": register width}
  sum   {"terms": [{"ops","coeff","ctype"},…], "t": m, "steps": k, "base", "n"}
  deriv sum + {"obs": Gaussian-integer matrix, "psi": Gaussian-integer vector}
  seq   {"rep": circuit, "diff": circuit, "length", "position", "alias"}   (_generate_circuit_sequence, called twice)
  hist  {"calls": [term | sum | deriv case, …]}: ONE history executed on shared long-lived objects (see below)
The time given to the real code is  m·τ  with τ = 2·atan2(sh, ch) for a rational point (ch, sh) of the unit circle
(τ = 1 when base is None): the model computes every gate angle exactly as a·τ + b·π and, when all a are integers,
the circuit's matrix exactly in ℚ(ζ₈).

Optional components of term / sum / deriv cases (absent = the plain behaviour):
  "ttype"   how the time is handed over: "float" | "int" | "npfloat" | "npint" | "sympy" (sympy.Rational) |
            "symbol" (sympy.Symbol; the circuit is bound to the value afterwards: 'any time t' for a symbolic t)
  "active"  sorted qubit list: matrices are taken on these qubits only (a circuit touching only S acts as the identity
            elsewhere), which makes terms on qubits >= 8 / two-digit indices affordable; "n" is then max index + 1
  "tseq"    "list" | "tuple": the Sequence type handed to PauliSum;   "as_term": the PauliTerm itself is the Hamiltonian
  hist only: a term carries "key" (identity of the PauliTerm object: the same key = the SAME object, whose public
            attribute `coefficient` is reassigned when the listed coefficient changed), a sum / deriv call carries
            "hkey" (identity of the PauliSum object) and "hmut" ("assign": ham.terms = [...], "inplace":
            ham.terms[:] = [...]) when its listing changed, and "mut": how the RETURNED objects are modified by the
            caller after the call (a returned value belongs to the caller; later calls must not be affected).
"""
import math
import warnings
from fractions import Fraction

from .. import common
from ..common import rat, unrat

PROP = "C16"
RULE = ("exhaustive Pauli strings on <=3 qubits + random strings on <=5 (thorough 6) qubits at rational-circle times; "
        "terms on qubits up to 13 (two-digit indices, matrices on the touched qubits); coefficient x time of magnitudes "
        "2^-45 x 2^45; times given as float / int / numpy / sympy numbers and as a sympy Symbol bound afterwards; NUMBER TYPES on "
        "every API (term / sum / derivative / splice): time as Python int / bool / Fraction, sympy Rational / Float / Integer, numpy "
        "float64 / float32 / int64 / int32; coefficients as Python int / bool / complex / Fraction, numpy float64 / float32 / "
        "complex128 / complex64 / int64 / int32 (one type per term or mixed); n_steps as numpy int64 / int32 / uint8 / intp, sympy "
        "Integer, True; length / position as numpy ints / sympy Integers; histories in which only the TYPE of the time / a "
        "coefficient / n_steps changes between calls on the same objects (equal values, equal hashes); "
        "Hamiltonians with 0-14 terms (constant / duplicate (adjacent and non-adjacent) / zero / complex / tiny "
        "coefficients included; list, tuple or a bare PauliTerm), steps 1-9; derivative "
        "cases with random Gaussian-integer observables and states; HISTORIES of 3-7 calls on the same PauliTerm / "
        "PauliSum objects in which consecutive calls differ in one component (time incl. hash-equal -1/-2, steps, a "
        "coefficient nudged by 2^-23 / negated / made complex, order, added / dropped term) and returned circuits / "
        "factor lists are modified by the caller in between; malformed stream: imaginary coefficients (also next to "
        "real parts up to 2^20), zero coefficients, position >= length. Non-trivial: a term of weight >= 2 containing "
        "X or Y (term cases), additionally n_steps >= 2 (sum / derivative cases), >= 2 such calls (histories); "
        "distinct = distinct canonical JSON of the case")
TRUSTED = [
    "gate angles: the ring-level theorems take the interpretation `ang : T -> Ang R` of an angle as its half-angle point as a "
    "PARAMETER whose only assumed law is ang(np.pi/2) = (1/sqrt2, 1/sqrt2); the statements over C (exp form, HasDerivAt) "
    "instantiate it with Mathlib's Real.cos / Real.sin, so no trigonometric law is assumed there",
    "float arithmetic of the code (2*time*c, time/n_steps, np.pi/(4 r), (time+shift)/n_steps) agrees with the exact field/module "
    "arithmetic of the model: checked here to 1e-9 on every gate angle (dyadic coefficients, times m*tau)",
    "abs(x) > 1e-9 on doubles is the model's exact rational comparison |x| > 10^-9 (inputs are not placed within one ulp of the threshold)",
    "'gate M on qubits qs of an n-qubit register' is OQ.Spec.lift; the identification of GateOperation.lifted_matrix / "
    "Lift.liftMatrix with Spec.lift is property C01 (here: exact comparison of the model's Lift.toUnitary matrix with the "
    "product of the real lifted matrices); a circuit that touches only the qubits S is the identity on the others, so "
    "for terms on high qubit indices the matrices are taken on the touched qubits (gate re-applied to their ranks)",
    "Dagger(g).matrix is the conjugate transpose of g.matrix (sympy Matrix.adjoint); H and CNOT are flagged hermitian, so "
    "Circuit.inverse() reuses them (model: GateK.dagger)",
    "sorted(set of ints) is ascending; dict lookup term[q] returns the operator stored for q (model: insertion sort, Term.opAt)",
    "scipy.linalg.expm (oracle only) is accurate to 1e-10 on 2^n x 2^n generators of norm <= 150, n <= 6; the oracle "
    "additionally uses exp(-i a P) = cos(a) 1 - i sin(a) P for a Pauli string P (P^2 = 1; theorem exp_pauli) with the tight "
    "tolerance 1e-11 (1 + |a|): four orders of magnitude above the float noise measured on the unchanged code (2e-15)",
    "Circuit.bind (used to give a symbolic time its value) substitutes the symbol in every gate parameter (property C06)",
    "number types: float(p) of a gate parameter of any number type (Fraction, sympy Rational / Float / Integer, numpy scalar) is the number "
    "it stands for up to double rounding; arithmetic between a numpy float32 and Python numbers stays float32 (NEP 50) and is exact "
    "for the short dyadic values generated with that type",
]
ASSUMPTIONS = ["PauliTerm._ops has distinct keys and no identity entries (dict invariant established by the constructor)",
               "number types (established on the unchanged library): the time is a Python int / float / bool / Fraction, a sympy Rational / "
               "Float / Integer, a numpy real scalar or (term and sum only) a sympy Symbol; a coefficient is a Python int / float / bool / "
               "complex / Fraction or a numpy scalar (sympy numbers as coefficients are refused: AttributeError 'imag' / 'real' - out of "
               "domain); n_steps >= 1 is a Python int / True, a numpy integer or a sympy Integer (float, Fraction, numpy bool: TypeError)",
               "a call that hands over a sympy number AND a numpy scalar is refused by sympy 1.9 under numpy 2 (ValueError), a sympy time "
               "with n_steps=True by sympy (TypeError) - out of domain, "
               "not generated; with a numpy scalar anywhere the gate parameters are numpy scalars and the returned circuit has no matrix "
               "(known finding numpy-scalar-gate-parameter-no-matrix: judged with Python-float copies of the parameters, then reported)",
               "numpy float32 / complex64 (time or coefficient): numpy keeps float32 against Python numbers, so 2 (t / n_steps) c and, in the "
               "derivative, the shift pi / (4 r) are computed in float32.  Generated for term / sum with short dyadic values, no "
               "rational-circle base and 2^k steps (every product exactly representable); NOT generated for the derivative, whose "
               "parameter shift would be rounded to float32 (the identity then holds to 1e-7 only)",
               "PauliTerm.coefficient and PauliSum.terms are public attributes: a caller may reassign them between calls"]

H_FD = 1e-3
PAULIS = "XYZ"
TIGHT = 1e-11


# ------------------------------------------------------------------------------------------------ real objects
def _mods():
    common.use_repo()
    from orquestra.quantum import evolution
    from orquestra.quantum.operators import PauliTerm, PauliSum
    from orquestra.quantum.circuits import Circuit, H, CNOT, RZ
    return evolution, PauliTerm, PauliSum, Circuit, (H, CNOT, RZ)


def _tau(base):
    if base is None:
        return 1.0
    return 2.0 * math.atan2(float(unrat(base[1])), float(unrat(base[0])))


NP_CTYPES = ("npfloat", "npcomplex", "npfloat32", "npcomplex64", "npint64", "npint32")
NP_TTYPES = ("npfloat", "npint", "npfloat32", "npint32")
NP_STYPES = ("npint64", "npint32", "npuint8", "npintp")
PLAIN_CTYPES = ("bool", "Fraction")          # accepted by the unchanged library AND the gate built from them has a matrix
PLAIN_TTYPES = ("bool", "Fraction", "sympyFloat", "sympyInteger")


def _f32_exact(x):
    import numpy as np
    with warnings.catch_warnings():
        warnings.simplefilter("ignore")
        return float(np.float32(x)) == x


def _coeff(t):
    """the coefficient object handed to PauliTerm.  ctype names the NUMBER TYPE; a type that cannot hold the value exactly falls
    back to the Python float / complex (so the case means the same whatever the type)"""
    re, im = unrat(t["coeff"][0]), unrat(t["coeff"][1])
    ct = t.get("ctype", "float")
    if ct == "int":
        return int(re)
    if ct == "complex":
        return complex(float(re), float(im))
    if ct == "npfloat":
        import numpy as np
        return np.float64(float(re))
    if ct == "npcomplex":
        import numpy as np
        return np.complex128(complex(float(re), float(im)))
    if ct == "bool" and im == 0 and re in (0, 1):
        return bool(re)
    if ct == "Fraction" and im == 0:
        return Fraction(float(re))       # the value of the double the float route hands over
    if ct in ("npint64", "npint32") and im == 0 and Fraction(re).denominator == 1 and abs(re) < 2 ** 31:
        import numpy as np
        return (np.int64 if ct == "npint64" else np.int32)(int(re))
    if ct == "npfloat32" and im == 0 and _f32_exact(float(re)):
        import numpy as np
        return np.float32(float(re))
    if ct == "npcomplex64" and _f32_exact(float(re)) and _f32_exact(float(im)):
        import numpy as np
        return np.complex64(complex(float(re), float(im)))
    if im != 0:
        return complex(float(re), float(im))
    return float(re)


def _term(PauliTerm, t):
    return PauliTerm({int(q): p for q, p in t["ops"]}, _coeff(t))


def _time_arg(c):
    """(object handed to the real code as `time`, the real number it stands for, the symbol to bind or None)"""
    import numpy as np
    import sympy
    v = float(unrat(c["t"])) * _tau(c.get("base"))
    tt = c.get("ttype", "float")
    if tt == "float":
        return v, v, None
    f = unrat(c["t"])
    if tt == "npfloat":
        return np.float64(v), v, None
    if tt == "sympyFloat":
        return sympy.Float(v), v, None
    if tt == "npfloat32":
        assert _f32_exact(v), "a float32 time must hold the value exactly"
        return np.float32(v), v, None
    if tt == "symbol":
        # "sym": name of the symbol ("dummy:x" = sympy.Dummy("x")); "sym_form": the time is s, 2*s or s + 1
        name = c.get("sym", "t")
        s = sympy.Dummy(name[6:]) if name.startswith("dummy:") else sympy.Symbol(name)
        form = c.get("sym_form", "s")
        if form == "2*s":
            return 2 * s, v, (s, v / 2)
        if form == "s+1":
            return s + 1, v, (s, v - 1)
        return s, v, (s, v)
    assert c.get("base") is None, "exact number types need tau = 1"
    if tt == "int":
        assert f.denominator == 1
        return int(f), v, None
    if tt == "npint":
        assert f.denominator == 1
        return np.int64(int(f)), v, None
    if tt == "sympy":
        return sympy.Rational(f.numerator, f.denominator), v, None
    if tt == "Fraction":
        return Fraction(f), v, None
    if tt == "bool":
        assert f in (0, 1)
        return bool(f), v, None
    if tt == "sympyInteger":
        assert f.denominator == 1
        return sympy.Integer(int(f)), v, None
    if tt == "npint32":
        assert f.denominator == 1
        return np.int32(int(f)), v, None
    raise AssertionError("unknown ttype " + tt)


def _steps_arg(c):
    """n_steps as the caller hands it over: a Python int, or (c["stype"]) a numpy integer / sympy Integer / True for 1"""
    n = c["steps"]
    st = c.get("stype")
    if not st:
        return n
    import numpy as np
    if st == "bool":
        return True if n == 1 else n
    if st == "sympyInteger":
        import sympy
        return sympy.Integer(n)
    t = {"npint64": np.int64, "npint32": np.int32, "npuint8": np.uint8, "npintp": np.intp}[st]
    return t(n) if n <= np.iinfo(t).max else n


def _bound(circ, sym, v):
    return circ if sym is None else circ.bind({sym[0]: sym[1]})


def _canon_circuit(c):
    out = []
    for op in c.operations:
        ps = op.gate.params
        out.append([op.gate.name, float(ps[0]) if ps else None, [int(q) for q in op.qubit_indices]])
    return out


def _touched(circuits):
    s = set()
    for c in circuits:
        for op in c.operations:
            s.update(int(q) for q in op.qubit_indices)
    return s


def _active(c, circuits=()):
    """the qubits the matrices of this case live on: range(n), or the listed ones, plus whatever a circuit touches"""
    base = list(c["active"]) if c.get("active") is not None else list(range(c["n"]))
    act = sorted(set(base) | _touched(circuits))
    if len(act) > 9:
        raise AssertionError(f"circuits touch {len(act)} qubits: {act}")
    return act


class _Lifter:
    """matrix of a circuit on the active qubits = product of the REAL lifted matrices of its operations (last operation
    leftmost); lifted matrices are cached per distinct operation (to_unitary itself recomputes them each time).
    When the active qubits are 0..k-1 the operations are used as they are, otherwise the gate is applied to the ranks."""

    def __init__(self, active):
        self.rank = {q: i for i, q in enumerate(active)}
        self.k, self.cache = len(active), {}
        self.identity = all(q == i for q, i in self.rank.items())
        self.matrix_error = None

    def unitary(self, circuit):
        import numpy as np
        from .. import circ as _circ
        u = np.eye(2 ** self.k, dtype=complex)
        for op in circuit.operations:
            key = (op.gate.name, tuple(float(p) for p in op.gate.params), tuple(op.qubit_indices))
            m = self.cache.get(key)
            if m is None:
                o = op if self.identity else op.gate(*[self.rank[int(q)] for q in op.qubit_indices])
                try:
                    m = _circ.impl_matrix_to_numpy(o.lifted_matrix(self.k))
                except (ValueError, TypeError) as e:
                    # the gate as built by the code under test has no matrix (seen: numpy-scalar parameters under
                    # numpy 2 / sympy 1.9); recorded, and the same gate with Python-float parameters is used instead
                    self.matrix_error = self.matrix_error or f"{op}.lifted_matrix raised {type(e).__name__}: {str(e)[:120]}"
                    o = o.replace_params(tuple(float(x) for x in o.params))
                    m = _circ.impl_matrix_to_numpy(o.lifted_matrix(self.k))
                self.cache[key] = m
            u = m @ u
        return u


def _cm(u):
    return [[[float(x.real), float(x.imag)] for x in row] for row in u]


def _np(m):
    import numpy as np
    return np.array([[complex(e[0], e[1]) for e in row] for row in m])


def _gauss_np(m):
    import numpy as np
    return np.array([[complex(float(unrat(e[0])), float(unrat(e[1]))) for e in row] for row in m])


def _expect(o, u, psi):
    v = u @ psi
    return complex(v.conj() @ (o @ v))


MAX_OPS = 50000          # the largest circuit a generated case legitimately produces has about 2500 operations


class _CallTimeout(Exception):
    pass


class _guard:
    """around ONE call into the code under test: a change that makes a call explode (a list doubling per step, an endless
    loop) must end as an exception of that call - which the oracle reports with the input - not as a killed check.
    Address space is capped at 4 GiB above the current size (-> MemoryError) and the call's CPU time at 60 s."""

    def __enter__(self):
        import resource
        import signal
        self.res = self.sig = None
        try:
            vm = int(open("/proc/self/statm").read().split()[0]) * resource.getpagesize()
            self.old = resource.getrlimit(resource.RLIMIT_AS)
            cap = vm + 4 * 2 ** 30
            if self.old[1] != resource.RLIM_INFINITY:
                cap = min(cap, self.old[1])
            resource.setrlimit(resource.RLIMIT_AS, (cap, self.old[1]))
            self.res = resource
        except (OSError, ValueError):
            self.res = None
        try:
            def on_timer(signum, frame):
                raise _CallTimeout("one call into the library used more than 60 s of CPU time")
            self.prev = signal.signal(signal.SIGVTALRM, on_timer)
            signal.setitimer(signal.ITIMER_VIRTUAL, 60.0)
            self.sig = signal
        except (OSError, ValueError, AttributeError):
            self.sig = None
        return self

    def __exit__(self, *exc):
        if self.sig is not None:
            self.sig.setitimer(self.sig.ITIMER_VIRTUAL, 0)
            self.sig.signal(self.sig.SIGVTALRM, self.prev)
        if self.res is not None:
            self.res.setrlimit(self.res.RLIMIT_AS, self.old)
        return False


def _sized(circuits):
    for ci in circuits:
        if len(ci.operations) > MAX_OPS:
            raise AssertionError(f"a returned circuit has {len(ci.operations)} operations")


class _Ctx:
    """the long-lived objects of one history: PauliTerm objects by key, PauliSum objects by hkey"""

    def __init__(self, mods):
        self.mods, self.terms, self.hams = mods, {}, {}

    def term(self, t):
        PauliTerm = self.mods[1]
        k = t.get("key")
        if k is None:
            return _term(PauliTerm, t)
        if k not in self.terms:
            self.terms[k] = _term(PauliTerm, t)
            return self.terms[k]
        o, want = self.terms[k], _coeff(t)
        if type(o.coefficient) is not type(want) or o.coefficient != want:
            o.coefficient = want            # public attribute of a long-lived object
        return o

    def ham(self, c, terms):
        PauliSum = self.mods[2]
        seq = tuple(terms) if c.get("tseq") == "tuple" else list(terms)
        k = c.get("hkey")
        if k is None:
            return PauliSum(seq)
        if k not in self.hams:
            self.hams[k] = PauliSum(seq)
            return self.hams[k]
        h = self.hams[k]
        if c.get("hmut") == "assign":
            h.terms = seq
        elif c.get("hmut") == "inplace":
            if isinstance(h.terms, list):
                h.terms[:] = seq
            else:
                h.terms = seq
        return h


def _mutate_circuit(circ, how, H):
    ops = circ.operations
    if how == "append":
        ops.append(H(0))
    elif how == "clear":
        ops.clear()
    elif how == "reverse":
        ops.reverse()
        if ops:
            ops.pop()
    else:
        raise AssertionError(how)


def _run_one(c, ctx):
    """one call of the API named by c["kind"] on the objects of ctx"""
    ev, PauliTerm, PauliSum, Circuit, (H, CNOT, RZ) = ctx.mods
    k = c["kind"]
    targ, time, sym = _time_arg(c)
    mut = c.get("mut")
    if k == "term":
        term = ctx.term(c)
        try:
            with _guard():
                raw = ev.time_evolution_for_term(term, targ)
        except ValueError:
            return {"err": "err:value"}
        _sized([raw])
        circ = _bound(raw, sym, time)
        act = _active(c, [circ])
        lift = _Lifter(act)
        out = {"circuit": _canon_circuit(circ), "n_qubits": circ.n_qubits, "U": _cm(lift.unitary(circ)), "time": time,
               "active": act, "free": sorted(str(s) for s in raw.free_symbols)}
        if lift.matrix_error:
            out["matrix_error"] = lift.matrix_error
        if mut:
            _mutate_circuit(raw, mut, H)
        return out
    terms = [ctx.term(t) for t in c["terms"]]
    if c.get("as_term"):
        assert len(terms) == 1
        ham = terms[0]
    else:
        ham = ctx.ham(c, terms)
    steps = c["steps"]
    steps_arg = _steps_arg(c)
    if k == "sum":
        try:
            with _guard():
                raw = ev.time_evolution(ham, targ, n_steps=steps_arg)
        except ValueError:
            return {"err": "err:value"}
        _sized([raw])
        circ = _bound(raw, sym, time)
        # the sentence itself: the circuit is the concatenation, over the steps, of the per-term circuits for t/steps
        concat = []
        for _ in range(steps):
            for t in terms:
                concat += _canon_circuit(_bound(ev.time_evolution_for_term(t, targ / steps_arg), sym, time))
        act = _active(c, [circ])
        lift = _Lifter(act)
        out = {"circuit": _canon_circuit(circ), "n_qubits": circ.n_qubits, "U": _cm(lift.unitary(circ)),
               "concat_ok": concat == _canon_circuit(circ), "time": time, "active": act,
               "free": sorted(str(s) for s in raw.free_symbols)}
        if lift.matrix_error:
            out["matrix_error"] = lift.matrix_error
        if mut:
            _mutate_circuit(raw, mut, H)
        return out
    if k == "deriv":
        try:
            with _guard():
                circuits, factors = ev.time_evolution_derivatives(ham, targ, n_steps=steps_arg)
        except ValueError:
            return {"err": "err:value"}
        except ZeroDivisionError:
            return {"err": "err:zerodiv"}
        _sized(circuits)
        act = _active(c, circuits)
        lift = _Lifter(act)
        obs, psi = _gauss_np(c["obs"]), _gauss_np([c["psi"]])[0]
        exps = [_expect(obs, lift.unitary(ci), psi) for ci in circuits]
        fd = {}
        try:
            for name, d in (("m2", -2), ("m1", -1), ("p1", 1), ("p2", 2)):
                with _guard():
                    shifted = ev.time_evolution(ham, time + d * H_FD, n_steps=steps)   # (plain Python numbers: the reference)
                _sized([shifted])
                e = _expect(obs, lift.unitary(shifted), psi)
                fd[name] = [e.real, e.imag]
        except ValueError:
            fd = None   # no evolution circuit exists (a non-real Hamiltonian whose guards the derivative code never evaluated)
        out = {"factors": [float(f) for f in factors], "circuits": [_canon_circuit(ci) for ci in circuits],
               "exps": [[e.real, e.imag] for e in exps], "fd": fd, "time": time, "active": act}
        if lift.matrix_error:
            out["matrix_error"] = lift.matrix_error
        if mut:
            if circuits:
                _mutate_circuit(circuits[0], "clear" if mut == "clear" else "append", H)
                if mut == "reverse":
                    circuits.reverse()
                    circuits.pop()
            if isinstance(factors, list):
                factors.reverse()
                factors.append(7.0)
        return out
    raise AssertionError("unknown kind")


def run_impl(c):
    mods = _mods()
    ev, PauliTerm, PauliSum, Circuit, (H, CNOT, RZ) = mods
    k = c["kind"]
    with warnings.catch_warnings():
        warnings.simplefilter("ignore")
        if k == "seq":
            def build(spec):
                ops = []
                for name, p, qs in spec:
                    g = {"H": H, "CNOT": CNOT}.get(name) or RZ(float(unrat(p[0])) + float(unrat(p[1])) * math.pi)
                    ops.append(g(*qs))
                return Circuit(ops)
            rep = build(c["rep"])
            diff = rep if c.get("alias") else build(c["diff"])
            lt = c.get("ltype")
            if lt:   # length / position as numpy integers / sympy Integers
                import numpy as np
                import sympy
                cast = {"npint64": np.int64, "npint32": np.int32, "npuint8": np.uint8, "sympyInteger": sympy.Integer}[lt]
                c = dict(c, length=cast(c["length"]), position=cast(c["position"]))
            try:
                r = ev._generate_circuit_sequence(rep, diff, c["length"], c["position"])
            except ValueError:
                return {"err": "err:value"}
            out = {"circuit": _canon_circuit(r)}
            # the caller owns the result: modify it, ask again
            r.operations.append(H(0))
            r.operations.reverse()
            out["circuit2"] = _canon_circuit(ev._generate_circuit_sequence(rep, diff, c["length"], c["position"]))
            return out
        if k == "hist":
            ctx = _Ctx(mods)
            outs = []
            for sub in c["calls"]:
                try:
                    outs.append(_run_one(sub, ctx))
                except Exception as e:   # the history goes on: later calls are judged on their own
                    outs.append({"exc": type(e).__name__, "msg": str(e)[:200]})
            return {"calls": outs}
        return _run_one(c, _Ctx(mods))


# ------------------------------------------------------------------------------------------------ model side
def _mterm(t):
    return {"ops": t["ops"], "coeff": t["coeff"]}


def _evaluable(c):
    return c.get("base") is not None and c.get("active") is None


def requests(c, out):
    k = c["kind"]
    if k == "hist":
        rs = []
        for sub in c["calls"]:
            rs += requests(sub, None)
        return rs
    if k == "seq":
        diff = c["rep"] if c.get("alias") else c["diff"]
        return [("sequence", {"repeated": c["rep"], "different": diff, "length": c["length"], "position": c["position"]})]
    extra = {"n": c["n"], "base": c["base"]} if _evaluable(c) else {}
    if k == "term":
        return [("term", dict(term=_mterm(c), time=[c["t"], 0], **extra))]
    terms = [_mterm(t) for t in c["terms"]]
    if k == "sum":
        return [("evolution", dict(terms=terms, time=[c["t"], 0], steps=c["steps"], **extra))]
    if k == "deriv":
        if _evaluable(c):
            extra.update(obs=c["obs"], psi=c["psi"])
        return [("derivatives", dict(terms=terms, time=[c["t"], 0], steps=c["steps"], **extra))]
    return []


def _cmp_circuit(impl, model, tau, what):
    if len(impl) != len(model):
        return f"{what}: {len(impl)} operations, model has {len(model)}: impl {impl[:12]} model {model[:12]}"
    for i, (a, b) in enumerate(zip(impl, model)):
        if a[0] != b[0] or a[2] != b[2]:
            return f"{what}: operation {i} is {a}, model says {b}"
        if (a[1] is None) != (b[1] is None):
            return f"{what}: operation {i} parameter {a[1]} vs model {b[1]}"
        if a[1] is not None:
            want = float(unrat(b[1][0])) * tau + float(unrat(b[1][1])) * math.pi
            if abs(a[1] - want) > 1e-9 * (1 + abs(want)):
                return f"{what}: operation {i} {a[0]} angle {a[1]!r}, model {b[1]} = {want!r}"
    return None


def _model_unitary(mc, tau, active):
    """numeric matrix of a MODEL circuit (gate list with exact angles a·τ + b·π) by the independent bit-manipulation
    embedding of harness/circ.py and textbook gate formulas; used only when the implementation's circuit differs
    structurally from the model's: then the two must at least be the same operator"""
    import numpy as np
    from .. import circ
    rank = {q: i for i, q in enumerate(active)}
    n = len(active)
    u = np.eye(2 ** n, dtype=complex)
    for name, p, qs in mc:
        th = None if p is None else float(unrat(p[0])) * tau + float(unrat(p[1])) * math.pi
        if name == "H":
            g = np.array([[1, 1], [1, -1]], dtype=complex) / math.sqrt(2)
        elif name == "CNOT":
            g = np.array([[1, 0, 0, 0], [0, 1, 0, 0], [0, 0, 0, 1], [0, 0, 1, 0]], dtype=complex)
        elif name in ("RX", "RX_Dagger"):
            c, s_ = math.cos(th / 2), math.sin(th / 2)
            g = np.array([[c, -1j * s_], [-1j * s_, c]])
        elif name in ("RZ", "RZ_Dagger"):
            g = np.array([[np.exp(-0.5j * th), 0], [0, np.exp(0.5j * th)]])
        else:
            raise ValueError(name)
        if name.endswith("_Dagger"):
            g = g.conj().T
        u = circ.embed_reference(g, [rank[q] for q in qs], n) @ u
    return u


def _act(c, out):
    return out.get("active") or (list(c["active"]) if c.get("active") is not None else list(range(c["n"])))


def compare(c, out, resp):
    import numpy as np
    k = c["kind"]
    if k == "hist":
        if "exc" in out:
            return f"implementation raised {out['exc']}: {out.get('msg')}"
        for i, (sub, so) in enumerate(zip(c["calls"], out["calls"])):
            m = compare(sub, so, [resp[i]])
            if m:
                return f"call {i} ({_describe(sub)}) of the history: " + m
        return None
    r = resp[0]
    if isinstance(r, dict) and "driver_error" in r:
        return "driver error: " + r["driver_error"]
    if "exc" in out:
        return f"implementation raised {out['exc']}: {out.get('msg')}; model {str(r)[:200]}"
    if isinstance(r, str) or "err" in out:
        if out.get("err") != r:
            return f"{k}: impl {out.get('err') or 'returned a result'}, model {r if isinstance(r, str) else 'returns a result'}"
        return None
    tau = _tau(c.get("base"))
    if k == "seq":
        return (_cmp_circuit(out["circuit"], r, 1.0, "_generate_circuit_sequence")
                or _cmp_circuit(out["circuit2"], r, 1.0, "_generate_circuit_sequence (second call)"))
    if k in ("term", "sum"):
        m = _cmp_circuit(out["circuit"], r["circuit"], tau, "circuit")
        if m:
            # a structurally different circuit is tolerated only if it is the same operator as the model's circuit
            act = sorted(set(_act(c, out)) | {q for g in r["circuit"] for q in g[2]})
            if act != _act(c, out):
                return m + " (and the model's circuit touches other qubits)"
            dev = float(np.max(np.abs(_np(out["U"]) - _model_unitary(r["circuit"], tau, act))))
            if dev > 1e-9:
                return m + f" (and the two circuits differ as operators by {dev:.3e})"
        if "unitary" in r:
            from .. import circ
            um = circ.model_matrix_to_numpy(r["unitary"])
            if not circ.close(_np(out["U"]), um, 1e-9):
                return f"matrix of the circuit differs from the model's exact matrix by {float(np.max(np.abs(_np(out['U']) - um))):.3e}"
        return None
    if k == "deriv":
        if len(out["factors"]) != len(r["factors"]) or len(out["circuits"]) != len(r["circuits"]):
            return f"derivatives: {len(out['circuits'])} circuits / {len(out['factors'])} factors, model {len(r['circuits'])} / {len(r['factors'])}"
        for i, (a, b) in enumerate(zip(out["factors"], r["factors"])):
            if abs(a - float(unrat(b))) > 1e-12 * (1 + abs(a)):
                return f"derivatives: factor {i} is {a!r}, model {b}"
        for i, (a, b) in enumerate(zip(out["circuits"], r["circuits"])):
            m = _cmp_circuit(a, b, tau, f"derivative circuit {i}")
            if m:
                # tolerated only if it has the same expectation as the model's circuit on this observable and state
                act = _act(c, out)
                if any(q not in act for g in b for q in g[2]):
                    return m + " (and the model's circuit touches other qubits)"
                obs, psi = _gauss_np(c["obs"]), _gauss_np([c["psi"]])[0]
                e = _expect(obs, _model_unitary(b, tau, act), psi)
                if abs(e - complex(*out["exps"][i])) > 1e-9 * _scale(c):
                    return m + " (and the expectations under the two circuits differ)"
        if "value" in r:
            got = sum(f * complex(*e) for f, e in zip(out["factors"], out["exps"]))
            want = common.cyc_to_complex(r["value"])
            if abs(got - want) > 1e-8 * _scale(c):
                return f"derivatives: factor-weighted sum {got!r}, model's exact value {want!r}"
        return None
    return None


# ------------------------------------------------------------------------------------------------ oracle
_P1 = None


def _pauli_matrix(ops, active):
    import numpy as np
    global _P1
    if _P1 is None:
        _P1 = {"I": np.eye(2, dtype=complex), "X": np.array([[0, 1], [1, 0]], dtype=complex),
               "Y": np.array([[0, -1j], [1j, 0]]), "Z": np.array([[1, 0], [0, -1]], dtype=complex)}
    d = {int(q): p for q, p in ops}
    m = np.eye(1, dtype=complex)
    for q in active:
        m = np.kron(m, _P1[d.get(q, "I")])
    return m


def _exp_pauli(a, p, literal):
    """(exp(-i a P) by the closed form cos a - i sin a P,  the same by scipy's expm when |a| <= 150 and asked for)"""
    import numpy as np
    from scipy.linalg import expm
    closed = math.cos(a) * np.eye(p.shape[0], dtype=complex) - 1j * math.sin(a) * p
    return closed, (expm(-1j * a * p) if literal and abs(a) <= 150 else None)


def _scale(c):
    import numpy as np
    o, p = _gauss_np(c["obs"]), _gauss_np([c["psi"]])[0]
    s = sum(abs(float(unrat(t["coeff"][0]))) for t in c["terms"])
    return float(np.linalg.norm(o) * np.linalg.norm(p) ** 2 * (1 + s)) + 1e-300


def _imag_class(ts):
    """'real' (all |im| <= 1e-9), 'reject' (a NON-constant term with |im| >= 1e-6), else 'unspecified'"""
    worst = "real"
    for t in ts:
        im = abs(float(unrat(t["coeff"][1])))
        if im <= 1e-9:
            continue
        if not t["ops"]:
            worst = "unspecified" if worst == "real" else worst  # constant term: the carve-out 'constant ⇒ empty circuit'
        elif im >= 1e-6:
            return "reject"
        else:
            worst = "unspecified"
    return worst


def _describe(c):
    k = c["kind"]
    tt = c.get("ttype", "float")
    if k == "term":
        return f"time_evolution_for_term({c['coeff']}*{c['ops']} as {c.get('ctype', 'float')} [object {c.get('key')}], t={c['t']} as {tt})"
    ts = [(t["coeff"], t.get("ctype", "float"), t["ops"], t.get("key")) for t in c["terms"]]
    f = "time_evolution" if k == "sum" else "time_evolution_derivatives"
    return (f"{f}({ts} [object {c.get('hkey')}{', listing changed by ' + c['hmut'] if c.get('hmut') else ''}], t={c['t']} as {tt}, "
            f"n_steps={c['steps']}{' as ' + c['stype'] if c.get('stype') else ''})")


def oracle(c, out):
    """the sentences of the property on the implementation's outputs; shares nothing with the Lean model"""
    res = _oracle(c, out)
    if res is None and isinstance(out, dict) and out.get("matrix_error"):
        # everything else held (with Python-float copies of the gate parameters), but the circuit AS RETURNED has no matrix
        if (c.get("ttype") in NP_TTYPES or c.get("stype") in NP_STYPES
                or any(t.get("ctype") in NP_CTYPES for t in ([c] if c["kind"] == "term" else c["terms"]))):
            return ("numpy-scalar-gate-parameter-no-matrix", f"{_describe(c)}: the circuit is built, but its matrix cannot be taken: {out['matrix_error']}")
        return ("gate-matrix-raises", f"{_describe(c)}: {out['matrix_error']}")
    return res


def _oracle(c, out):
    import numpy as np
    if "exc" in out:
        return ("unexpected-exception", f"implementation raised {out['exc']}: {out.get('msg')}")
    k = c["kind"]
    if k == "hist":
        known = None
        for i, (sub, so) in enumerate(zip(c["calls"], out["calls"])):
            res = oracle(sub, so)
            if res and res[0] == "numpy-scalar-gate-parameter-no-matrix":
                # the known finding (everything else held on this call): remembered, the later calls are still judged
                known = known or (res[0], f"call {i} of a history on shared objects: {res[1]}")
                continue
            if res:
                prev = "; ".join(_describe(s) + (f" then result modified by the caller ({s['mut']})" if s.get("mut") else "")
                                 for s in c["calls"][max(0, i - 2):i])
                return ("history:" + res[0], f"call {i} of a history on shared objects, {_describe(sub)}, after [{prev}]: {res[1]}")
        return known
    if k == "seq":
        if c["position"] >= c["length"]:
            return None if out.get("err") else ("sequence-accepts-bad-position", "position >= length accepted")
        if "circuit" not in out:
            return ("sequence-raise", "valid _generate_circuit_sequence request rejected")
        want = []
        diff = c["rep"] if c.get("alias") else c["diff"]
        for i in range(c["length"]):
            want += [[g[0], None if g[1] is None else float(unrat(g[1][0])) + float(unrat(g[1][1])) * math.pi, g[2]]
                     for g in (diff if i == c["position"] else c["rep"])]
        if want != out["circuit"]:
            return ("sequence-splice", f"sequence {out['circuit']} is not the requested splice {want}")
        if want != out["circuit2"]:
            return ("sequence-splice-second-call", f"second call (after the caller modified the first result): {out['circuit2']} is not the requested splice {want}")
        return None
    act = _act(c, out)
    if k == "term":
        cls = _imag_class([c])
        if not c["ops"]:
            if out.get("circuit") != []:
                return ("constant-term-not-empty", f"constant term gave {out.get('err') or out.get('circuit')}, expected the empty circuit")
            return None
        if cls == "reject":
            return None if out.get("err") == "err:value" else (
                "imaginary-coefficient-accepted", f"coefficient {c['coeff']} with a non-negligible imaginary part was not rejected")
        if cls != "real":
            return None
        if "err" in out:
            return ("real-term-rejected", f"term with real coefficient {c['coeff']} raised {out['err']}")
        re = float(unrat(c["coeff"][0]))
        a = out["time"] * re
        closed, lit = _exp_pauli(a, _pauli_matrix(c["ops"], act), True)
        u = _np(out["U"])
        w = len(c["ops"])
        if lit is not None:
            dev = float(np.max(np.abs(u - lit)))
            if dev > 1e-8:
                return ("term-matrix", f"term {c['ops']} coeff {re} time {out['time']!r}: circuit matrix differs from exp(-i t c P) by {dev:.3e} (weight {w})")
        dev = float(np.max(np.abs(u - closed)))
        if dev > TIGHT * (1 + abs(a)):
            return ("term-matrix", f"term {c['ops']} coeff {re!r} time {out['time']!r}: circuit matrix differs from exp(-i t c P) "
                    f"= cos(tc) - i sin(tc) P by {dev:.3e} (weight {w}, t*c = {a!r})")
        return None
    cls = _imag_class(c["terms"])
    steps = c["steps"]
    res = [float(unrat(t["coeff"][0])) for t in c["terms"]]
    paulis = [_pauli_matrix(t["ops"], act) for t in c["terms"]]
    nonconst = [bool(t["ops"]) for t in c["terms"]]
    dim = 2 ** len(act)
    if k == "sum":
        if cls == "reject":
            return None if out.get("err") == "err:value" else (
                "imaginary-coefficient-accepted", "a Hamiltonian term with a non-negligible imaginary part was not rejected")
        if cls != "real":
            return None
        if "err" in out:
            return ("real-hamiltonian-rejected", f"Hamiltonian with real coefficients raised {out['err']}")
        if not out["concat_ok"]:
            return ("sum-not-concatenation", f"steps={steps}: the circuit is not the concatenation over the steps of the per-term "
                    f"circuits for time t/steps in listed order")
        step_c, step_l, tot = np.eye(dim, dtype=complex), np.eye(dim, dtype=complex), 0.0
        for re, p, nc in zip(res, paulis, nonconst):
            if nc:
                a = (out["time"] / steps) * re
                closed, lit = _exp_pauli(a, p, step_l is not None)
                step_c = closed @ step_c
                step_l = None if lit is None or step_l is None else lit @ step_l
                tot += abs(a)
        u = _np(out["U"])
        if step_l is not None:
            dev = float(np.max(np.abs(u - np.linalg.matrix_power(step_l, steps))))
            if dev > 1e-8:
                return ("sum-matrix", f"{len(res)} terms, steps={steps}: circuit matrix differs from the ordered product of exp(-i t/steps c_k P_k) by {dev:.3e}")
        dev = float(np.max(np.abs(u - np.linalg.matrix_power(step_c, steps))))
        if dev > TIGHT * (1 + tot * steps):
            return ("sum-matrix", f"{len(res)} terms, steps={steps}: circuit matrix differs from the ordered product of "
                    f"exp(-i t/steps c_k P_k) = cos - i sin P_k by {dev:.3e}")
        return None
    if k == "deriv":
        if cls != "real":
            return None      # the derivative sentence speaks about real Hamiltonians; rejection is the term sentence
        if "err" in out:
            if out["err"] == "err:zerodiv" and any(r == 0 for r in res):
                return ("derivative-zero-coefficient", f"time_evolution_derivatives raises ZeroDivisionError when a term has coefficient 0 "
                        f"(terms {[(t['ops'], t['coeff'][0]) for t in c['terms']]}); the derivative exists (that term contributes 0) "
                        f"[regression of the fix 9211baa]")
            return ("derivative-raise", f"time_evolution_derivatives raised {out['err']} on a real Hamiltonian")
        if len(out["factors"]) != len(out["exps"]):
            return ("derivative-shape", f"{len(out['exps'])} circuits but {len(out['factors'])} factors")
        got = sum(f * complex(*e) for f, e in zip(out["factors"], out["exps"]))
        sc = _scale(c)
        if out["fd"] is None:
            return ("derivative-without-evolution", "derivative circuits were returned for a real Hamiltonian whose evolution circuit is rejected")
        fd = {kk: complex(*v) for kk, v in out["fd"].items()}
        d_fd = (fd["m2"] - 8 * fd["m1"] + 8 * fd["p1"] - fd["p2"]) / (12 * H_FD)
        if abs(got - d_fd) > 1e-5 * sc:
            return ("derivative-" + ("multi-step" if steps > 1 else "single-step"),
                    f"steps={steps}: factor-weighted sum {got!r} but d/dt of the expectation under time_evolution is {d_fd!r} (finite difference)")
        # analytic derivative of the ordered product of exponentials (Leibniz over the positions)
        t = out["time"]
        fac = []
        for _ in range(steps):
            for re, p, nc in zip(res, paulis, nonconst):
                if nc:
                    fac.append((_exp_pauli((t / steps) * re, p, False)[0], (-1j * re / steps) * p))
        obs, psi = _gauss_np(c["obs"]), _gauss_np([c["psi"]])[0]
        # prefix / suffix products: W = V_m … V_1,  dW = Σ_i V_m … V_{i+1} (G_i V_i) V_{i-1} … V_1
        pre = [np.eye(dim, dtype=complex)]
        for v, _ in fac:
            pre.append(v @ pre[-1])
        suf = [np.eye(dim, dtype=complex)]
        for v, _ in reversed(fac):
            suf.append(suf[-1] @ v)
        w = pre[-1]
        dw = np.zeros_like(w)
        m_ = len(fac)
        for i, (v, g) in enumerate(fac):
            dw = dw + suf[m_ - 1 - i] @ (g @ pre[i + 1])
        v0, v1 = w @ psi, dw @ psi
        d_an = complex(v1.conj() @ obs @ v0 + v0.conj() @ obs @ v1)
        # every summand f_i e_i carries a coefficient c_k / steps: the float noise of both sides is proportional to
        # Σ|c_k| |O| |ψ|² (measured 2e-15 of it on the unchanged code), and so is the tolerance
        s_abs = sum(abs(r) for r in res)
        tol = TIGHT * float(np.linalg.norm(obs) * np.linalg.norm(psi) ** 2) * s_abs * (1 + abs(t) * 1e-3) + 1e-300
        if abs(got - d_an) > tol:
            return ("derivative-" + ("multi-step" if steps > 1 else "single-step"),
                    f"steps={steps}: factor-weighted sum {got!r} but the derivative of the ordered product of exponentials is {d_an!r}")
        return None
    return None


# ------------------------------------------------------------------------------------------------ generators
def _rat_point(rng):
    while True:
        p, q = rng.randrange(-9, 10), rng.randrange(1, 10)
        if p != 0:
            break
    t = Fraction(p, q)
    return [rat((1 - t * t) / (1 + t * t)), rat(2 * t / (1 + t * t))]


def _rand_ops(rng, n, weight=None, shuffle=True):
    w = weight if weight is not None else rng.randrange(1, n + 1)
    qs = rng.sample(range(n), w)
    if not shuffle or rng.random() < 0.5:
        qs.sort()
    return [[q, rng.choice(PAULIS)] for q in qs]


def _term_case(rng, ops, n, exact=True, coeff=None, ctype=None):
    """exact: the RZ half-angle is an integer multiple of the base point's angle"""
    if exact:
        d = rng.choice([1, 2, 4])
        p = rng.choice([-3, -2, -1, 1, 2, 3]) if coeff is None else None
        co = Fraction(p, d) if coeff is None else Fraction(coeff)
        mp = rng.choice([1, 2, 3])
        # a = 2 * m * c must be an integer: m = mp / (2 c) * … keep it simple: m = mp * d / 2  ->  a = mp * p
        m = Fraction(mp * co.denominator, 2)
        base = _rat_point(rng)
    else:
        co = Fraction(rng.randrange(-64, 65), 16) if coeff is None else Fraction(coeff)
        m = Fraction(rng.randrange(-4000, 4001), 1024)
        base = None
    ct = ctype or rng.choice(["float", "float", "complex", "int" if co.denominator == 1 else "float"])
    return {"kind": "term", "ops": ops, "coeff": [rat(co), 0], "ctype": ct, "t": rat(m), "base": base, "n": n}


def _all_strings(n):
    out = []
    for code in range(4 ** n):
        ops, x = [], code
        for q in range(n):
            x, r = divmod(x, 4)
            if r:
                ops.append([q, PAULIS[r - 1]])
        out.append(ops)
    return out


def _ham(rng, n, nterms, steps, exact=True, special=True, far_dup=0.0):
    d = rng.choice([1, 2, 4])
    terms = []
    for _ in range(nterms):
        r = rng.random()
        if far_dup and len(terms) >= 2 and rng.random() < far_dup:
            # the SAME term as one listed earlier (not the previous one): palindromic / symmetric Trotter orderings
            src = rng.choice(terms[:-1])
            terms.append({"ops": [list(o) for o in src["ops"]], "coeff": list(src["coeff"]), "ctype": src["ctype"]})
            continue
        if special and r < 0.08:
            ops = []                                  # constant term
        elif special and r < 0.16 and terms:
            ops = [list(o) for o in terms[-1]["ops"]]  # duplicate of the previous term
        else:
            ops = _rand_ops(rng, n)
        p = rng.choice([-3, -2, -1, 1, 2, 3])
        co = Fraction(p, d) if exact else Fraction(rng.randrange(-48, 49), 16)
        if not exact and co == 0:
            co = Fraction(1, 16)
        ct = rng.choice(["float", "float", "complex", "int" if co.denominator == 1 else "float"])
        if special and terms and ops == terms[-1]["ops"] and rng.random() < 0.5:
            # the SAME term listed twice (same operators and the same coefficient)
            terms.append({"ops": [list(o) for o in terms[-1]["ops"]], "coeff": list(terms[-1]["coeff"]),
                          "ctype": terms[-1]["ctype"]})
            continue
        terms.append({"ops": ops, "coeff": [rat(co), 0], "ctype": ct})
    if exact:
        mp = rng.choice([1, 1, 2])
        m = Fraction(mp * steps * d, 2)      # a_k = 2 (m / steps) c_k = mp * p_k
        base = _rat_point(rng)
    else:
        m = Fraction(rng.randrange(-3000, 3001), 1024)
        base = None
    return {"terms": terms, "t": rat(m), "steps": steps, "base": base, "n": n}


def _obs_psi(rng, n):
    d = 2 ** n
    herm = rng.random() < 0.5
    m = [[[rng.randrange(-2, 3), rng.randrange(-2, 3)] for _ in range(d)] for _ in range(d)]
    if herm:
        for i in range(d):
            m[i][i][1] = 0
            for j in range(i):
                m[i][j] = [m[j][i][0], -m[j][i][1]]
    if rng.random() < 0.3:
        psi = [[0, 0] for _ in range(d)]
        psi[rng.randrange(d)] = [1, 0]
    else:
        psi = [[rng.randrange(-2, 3), rng.randrange(-2, 3)] for _ in range(d)]
        if all(x == [0, 0] for x in psi):
            psi[0] = [1, 0]
    return m, psi


def _seq_case(rng):
    def circ(k):
        out = []
        for _ in range(k):
            r = rng.random()
            if r < 0.3:
                out.append(["H", None, [rng.randrange(3)]])
            elif r < 0.6:
                a, b = rng.sample(range(3), 2)
                out.append(["CNOT", None, [a, b]])
            else:
                out.append(["RZ", [rat(Fraction(rng.randrange(-8, 9), 4)), rat(Fraction(rng.randrange(-2, 3), 2))], [rng.randrange(3)]])
        return out
    length = rng.randrange(0, 5)
    position = rng.randrange(0, length + 2)
    return {"kind": "seq", "rep": circ(rng.randrange(0, 4)), "diff": circ(rng.randrange(0, 4)), "length": length, "position": position}


# ---- new streams ---------------------------------------------------------------------------------
def _dyadic(rng, lo=-4, hi=4, den=16):
    while True:
        x = Fraction(rng.randrange(lo * den, hi * den + 1), den)
        if x != 0:
            return x


def _magnitude_term(rng):
    """|coefficient| and |time| of opposite extreme magnitudes, t·c of ordinary size (all products exact in doubles)"""
    n = rng.randrange(1, 4)
    k = rng.randrange(20, 46)
    small, big = _dyadic(rng) / 2 ** k, _dyadic(rng) * 2 ** k
    co, m = (small, big) if rng.random() < 0.6 else (big, small)
    return {"kind": "term", "ops": _rand_ops(rng, n), "coeff": [rat(co), 0], "ctype": rng.choice(["float", "complex"]),
            "t": rat(m), "base": None, "n": n}


def _high_ops(rng, weight=None, lo=8):
    """operators on qubits up to 13, at least one index >= lo, insertion order shuffled"""
    w = weight or rng.randrange(2, 5)
    while True:
        qs = rng.sample(range(14), w)
        if max(qs) >= lo and (w < 2 or sorted(qs) != qs or rng.random() < 0.3):
            break
    return [[q, rng.choice(PAULIS)] for q in qs]


def _high_index_term(rng):
    ops = _high_ops(rng, lo=rng.choice([8, 8, 10]))
    act = sorted(q for q, _ in ops)
    idle = [q for q in range(14) if q not in act]
    if rng.random() < 0.4:
        act = sorted(act + [rng.choice(idle)])
    c = _term_case(rng, ops, max(act) + 1, exact=False)
    c["active"] = act
    return c


def _typed_time(rng, c, allow_symbol=True):
    """hand the time over as another numeric type (the value is unchanged where the type can hold it)"""
    tt = rng.choice(["int", "npfloat", "npint", "sympy"] + (["symbol", "symbol"] if allow_symbol else []))
    if tt in ("int", "npint"):
        c["base"] = None
        c["t"] = rng.choice([-3, -2, -1, 1, 2, 3, 5, 7])
    elif tt == "sympy":
        c["base"] = None
        c["t"] = rat(Fraction(rng.choice([-7, -3, -1, 1, 2, 3, 5]), rng.choice([1, 2, 3, 4])))
    c["ttype"] = tt
    if tt == "symbol":
        c["sym"] = rng.choice(["t", "t", "theta_1", "pi", "I", "gamma", "lambda", "E", "dummy:t", "dummy:t"])
        c["sym_form"] = rng.choice(["s", "s", "2*s", "s+1"])
    return c


def _typed_coeff(rng, c):
    """numpy scalars as coefficients (what one gets when coefficients come out of an array)"""
    for t in (c["terms"] if "terms" in c else [c]):
        if rng.random() < 0.7:
            t["ctype"] = "npcomplex" if t["ctype"] == "complex" else "npfloat"
    return c


def _big_real_imag_term(rng):
    n = rng.randrange(1, 3)
    re = rng.choice([100, 1000, 5000, 2 ** 17, 2 ** 20]) * rng.choice([1, -1])
    im = rng.choice([Fraction(1, 10 ** 3), Fraction(1, 50), Fraction(-1, 4), Fraction(3, 10 ** 6), Fraction(-1, 10 ** 4),
                     Fraction(1, 10 ** 5), Fraction(0), Fraction(1, 10 ** 12)])
    if rng.random() < 0.5:
        # small RELATIVE to the real part, but not small
        rel = abs(re) * rng.choice([Fraction(3, 10 ** 10), Fraction(1, 10 ** 8), Fraction(2, 10 ** 6)]) * rng.choice([1, -1])
        if abs(rel) >= Fraction(2, 10 ** 6):
            im = rel
    return {"kind": "term", "ops": _rand_ops(rng, n), "coeff": [re, rat(im)], "ctype": "complex",
            "t": rat(Fraction(rng.randrange(1, 64), 2 ** 20)), "base": None, "n": n}


def _z_only_ham(rng, n, steps):
    """every term a single Z (Ising field): several on the SAME qubit, different coefficients"""
    terms = []
    for _ in range(rng.randrange(2, 5)):
        terms.append({"ops": [[rng.randrange(n), "Z"]], "coeff": [rat(_dyadic(rng, -3, 3, 4)), 0], "ctype": "float"})
    return {"terms": terms, "t": rat(_dyadic(rng, -3, 3, 256)), "steps": steps, "base": None, "n": n}


def _tiny_ham(rng, n, nterms, steps, mixed):
    """coefficients around 2^-27 .. 2^-40 (all of them, or next to ordinary ones), ordinary time"""
    h = _ham(rng, n, nterms, steps, exact=False, special=False)
    idx = list(range(nterms))
    rng.shuffle(idx)
    for j, i in enumerate(idx):
        if not mixed or j == 0 or rng.random() < 0.3:
            k = rng.choice([27, 28, 30, 34, 40])
            h["terms"][i]["coeff"] = [rat(_dyadic(rng, -3, 3, 4) / 2 ** k), 0]
            h["terms"][i]["ctype"] = rng.choice(["float", "complex"])
    return h


SUM_SHAPES = ["many_steps", "int_time", "symbol", "as_term", "tuple", "z_only", "far_dup", "many_terms", "high_index",
              "tiny", "sympy_time", "very_many_steps", "npint_time", "symbol", "zero_time", "huge", "np_coeff", "very_many_steps",
              "some_terms"]
DERIV_SHAPES = ["tiny_all", "far_dup", "tiny_mixed", "empty", "constant_only", "as_term", "tuple", "int_time", "far_dup", "z_only",
                "tiny_all", "npint_time", "zero_time", "many_terms", "np_coeff", "many_steps"]


def _variant_sum(rng, i, big):
    """sum cases of special shapes, cycling through the shapes so that every run contains each of them"""
    shape = SUM_SHAPES[i % len(SUM_SHAPES)]
    n = rng.choice([1, 2, 2, 3])
    if shape == "many_steps":
        h = _ham(rng, n, rng.randrange(1, 4), rng.randrange(5, 10), exact=rng.random() < 0.4)
    elif shape == "very_many_steps":
        # alternately an odd and an even count
        h = _ham(rng, rng.choice([1, 2]), rng.randrange(1, 3), rng.choice([12, 16, 32, 64, 70]) + (i // len(SUM_SHAPES) + (i % len(SUM_SHAPES) > 12)) % 2, exact=False)
    elif shape == "zero_time":
        h = _ham(rng, n, rng.randrange(1, 4), rng.randrange(1, 4), exact=False)
        h["t"] = 0
        h["ttype"] = rng.choice(["float", "int", "sympy"])
    elif shape == "huge":
        # huge coefficients, a very short time
        h = _ham(rng, n, rng.randrange(1, 4), rng.randrange(1, 4), exact=False, special=False)
        for t in h["terms"]:
            t["coeff"] = [rat(_dyadic(rng, -3, 3, 4) * 2 ** 30), 0]
        h["t"] = rat(_dyadic(rng, -3, 3, 4) / 2 ** 30)
    elif shape == "np_coeff":
        h = _typed_coeff(rng, _ham(rng, n, rng.randrange(1, 4), rng.randrange(1, 4), exact=False))
    elif shape in ("int_time", "npint_time", "sympy_time", "symbol"):
        h = _ham(rng, n, rng.randrange(1, 4), rng.randrange(2, 5), exact=False)
        h["ttype"] = {"int_time": "int", "npint_time": "npint", "sympy_time": "sympy", "symbol": "symbol"}[shape]
        if shape in ("int_time", "npint_time"):
            # an integer time that the step count does not divide
            h["t"] = h["steps"] * rng.randrange(-2, 3) + rng.randrange(1, h["steps"])
        elif shape == "sympy_time":
            h["t"] = rat(Fraction(rng.choice([-5, -1, 1, 3, 7]), rng.choice([1, 2, 3])))
        else:
            h["sym"] = rng.choice(["t", "theta_1", "pi", "I", "gamma", "dummy:t"])
            h["sym_form"] = rng.choice(["s", "s", "2*s", "s+1"])
    elif shape == "as_term":
        h = _ham(rng, n, 1, rng.randrange(2, 5), exact=rng.random() < 0.5, special=False)
        h["as_term"] = True
    elif shape == "tuple":
        h = _ham(rng, n, rng.randrange(1, 4), rng.randrange(1, 4), exact=rng.random() < 0.5)
        h["tseq"] = "tuple"
    elif shape == "z_only":
        h = _z_only_ham(rng, n, rng.randrange(1, 4))
    elif shape == "far_dup":
        h = _ham(rng, max(n, 2), rng.randrange(3, 6), rng.randrange(1, 4), exact=False, far_dup=0.5)
    elif shape == "many_terms":
        h = _ham(rng, rng.choice([2, 3]), rng.randrange(64, 80), rng.randrange(1, 3), exact=False, far_dup=0.1)
    elif shape == "some_terms":
        h = _ham(rng, rng.choice([2, 3]), rng.randrange(12, 40), rng.randrange(1, 3), exact=False, far_dup=0.1)
    elif shape == "high_index":
        terms = [{"ops": _high_ops(rng, weight=rng.randrange(1, 4)), "coeff": [rat(_dyadic(rng, -3, 3, 4)), 0], "ctype": "float"}
                 for _ in range(rng.randrange(1, 3))]
        act = sorted({q for t in terms for q, _ in t["ops"]})
        h = {"terms": terms, "t": rat(_dyadic(rng, -3, 3, 256)), "steps": rng.randrange(1, 4), "base": None,
             "n": max(act) + 1, "active": act}
    else:  # tiny
        h = _tiny_ham(rng, n, rng.randrange(1, 4), rng.randrange(1, 4), mixed=rng.random() < 0.5)
        # a long time makes the tiny terms visible in the matrix: t · c of ordinary size for the tiny ones
        h["t"] = rat(_dyadic(rng, -3, 3, 4) * 2 ** 27) if all(abs(unrat(t["coeff"][0])) < 1e-6 for t in h["terms"]) else h["t"]
    h["kind"] = "sum"
    return h


def _variant_deriv(rng, i):
    shape = DERIV_SHAPES[i % len(DERIV_SHAPES)]
    n = rng.choice([1, 2, 2])
    steps = rng.randrange(1, 4)
    if shape == "tiny_all":
        h = _tiny_ham(rng, n, rng.randrange(1, 4), steps, mixed=False)
    elif shape == "tiny_mixed":
        h = _tiny_ham(rng, max(n, 2), rng.randrange(2, 4), steps, mixed=True)
    elif shape == "far_dup":
        # A, B, A with B (very likely) not commuting with A
        n = 2
        h = _ham(rng, n, 3, steps, exact=False, special=False)
        h["terms"][2] = {"ops": [list(o) for o in h["terms"][0]["ops"]], "coeff": list(h["terms"][0]["coeff"]), "ctype": h["terms"][0]["ctype"]}
        if rng.random() < 0.5:
            h["terms"].append({"ops": _rand_ops(rng, n), "coeff": [rat(_dyadic(rng, -3, 3, 4)), 0], "ctype": "float"})
    elif shape == "empty":
        h = _ham(rng, n, 0, steps, exact=False)
    elif shape == "constant_only":
        h = _ham(rng, n, 0, steps, exact=False)
        h["terms"] = [{"ops": [], "coeff": [rat(_dyadic(rng, -3, 3, 4)), 0], "ctype": "float"} for _ in range(rng.randrange(1, 3))]
    elif shape == "as_term":
        h = _ham(rng, n, 1, rng.randrange(1, 4), exact=False, special=False)
        h["as_term"] = True
    elif shape == "tuple":
        h = _ham(rng, n, rng.randrange(1, 4), steps, exact=False)
        h["tseq"] = "tuple"
    elif shape in ("int_time", "npint_time"):
        h = _ham(rng, n, rng.randrange(1, 3), rng.randrange(2, 4), exact=False)
        h["ttype"] = "int" if shape == "int_time" else rng.choice(["npint", "npfloat"])
        if h["ttype"] != "npfloat":
            h["t"] = h["steps"] * rng.randrange(-1, 2) + rng.randrange(1, h["steps"])
    elif shape == "zero_time":
        h = _ham(rng, n, rng.randrange(1, 4), steps, exact=False)
        h["t"] = 0
        h["ttype"] = rng.choice(["float", "int"])
    elif shape == "many_terms":
        h = _ham(rng, 2, rng.randrange(64, 72), 1, exact=False, far_dup=0.1)
    elif shape == "many_steps":
        h = _ham(rng, rng.choice([1, 2]), rng.randrange(1, 3), rng.choice([5, 7, 8, 12, 16]), exact=False)
    elif shape == "np_coeff":
        h = _typed_coeff(rng, _ham(rng, n, rng.randrange(1, 4), steps, exact=False))
    else:
        h = _z_only_ham(rng, n, steps)
    h["kind"] = "deriv"
    h["obs"], h["psi"] = _obs_psi(rng, h["n"])
    return h


# ---- histories -----------------------------------------------------------------------------------
SCENARIOS = ["time_hash", "coeff_nudge_same", "coeff_nudge_fresh", "coeff_imag_same", "steps", "order", "deriv_time",
             "deriv_coeff", "result_mut_term", "result_mut_sum", "result_mut_deriv", "add_drop", "coeff_hash", "mixed",
             "pauli_swap", "ising_flag", "type_twins"]
NUDGE = Fraction(1, 2 ** 23)


class _Hist:
    """generator state of one history: a pool of keyed terms, the listing of one Hamiltonian, a time, a step count"""

    def __init__(self, rng, n, nterms):
        self.rng, self.n = rng, n
        self.next_key = 0
        self.pool = {}
        self.listing = []
        for _ in range(nterms):
            k = self.new_term(_rand_ops(rng, n, weight=rng.randrange(1, n + 1)), _dyadic(rng, -3, 3, 4), rng.choice(["float", "float", "complex"]))
            self.listing.append(k)
        self.t = _dyadic(rng, -3, 3, 64)
        self.steps = rng.randrange(1, 4)
        self.hkey = 0
        self.hmut = None
        self.ttype = self.stype = None     # number types of the time / of n_steps (None: Python float / int)
        self.calls = []
        self.obs, self.psi = _obs_psi(rng, n)

    def new_term(self, ops, co, ct):
        k = self.next_key
        self.next_key += 1
        self.pool[k] = {"ops": [list(o) for o in ops], "coeff": [rat(co), 0], "ctype": ct, "key": k}
        return k

    def _t(self, k):
        t = self.pool[k]
        return {"ops": [list(o) for o in t["ops"]], "coeff": list(t["coeff"]), "ctype": t["ctype"], "key": t["key"]}

    def relisted(self):
        self.hmut = self.rng.choice(["assign", "inplace"])

    def call(self, kind, key=None, mut=None):
        if kind == "term":
            c = dict(self._t(key if key is not None else self.rng.choice(self.listing or list(self.pool))))
            c.update(kind="term", t=rat(self.t), base=None, n=self.n)
        else:
            c = {"kind": kind, "terms": [self._t(k) for k in self.listing], "t": rat(self.t), "steps": self.steps,
                 "base": None, "n": self.n, "hkey": self.hkey}
            if self.hmut:
                c["hmut"] = self.hmut
                self.hmut = None
            if kind == "deriv":
                c["obs"], c["psi"] = self.obs, self.psi
            if self.stype and (self.stype != "bool" or self.steps == 1):
                c["stype"] = self.stype
        if self.ttype:
            c["ttype"] = self.ttype
        if mut:
            c["mut"] = mut
        self.calls.append(c)

    # ---- one-component changes
    def change_time(self, hashy=False):
        r = self.rng
        if hashy:
            self.t = Fraction(-2) if self.t == -1 else Fraction(-1)
        else:
            self.t = r.choice([self.t + Fraction(1, 2 ** 20), -self.t, self.t * 2, self.t + 1])
            if self.t == 0:
                self.t = Fraction(1, 2)

    def change_coeff(self, key, how, fresh=False):
        t = self.pool[key]
        co = unrat(t["coeff"][0])
        new = dict(t)
        if how == "nudge":
            new["coeff"] = [rat(co + self.rng.choice([1, -1, 2]) * NUDGE), 0]
        elif how == "negate":
            new["coeff"] = [rat(-co), 0]
        elif how == "hash":
            new["coeff"] = [-2 if co == -1 else -1, 0]
        elif how == "imag":
            new["coeff"] = [rat(co), rat(self.rng.choice([Fraction(1, 2), Fraction(-1, 4), Fraction(1, 10 ** 3)]))]
            new["ctype"] = "complex"
        elif how == "real":
            new["coeff"] = [rat(co), 0]
        elif how == "zero":
            new["coeff"] = [0, 0]
        if new["ctype"] == "int" and unrat(new["coeff"][0]).denominator != 1:
            new["ctype"] = "float"
        if fresh:
            k = self.new_term(new["ops"], 0, new["ctype"])
            self.pool[k]["coeff"] = new["coeff"]
            self.listing = [k if x == key else x for x in self.listing]
            self.relisted()
            return k
        self.pool[key] = new
        return key

    def change_order(self):
        if len(self.listing) >= 2:
            i, j = self.rng.sample(range(len(self.listing)), 2)
            self.listing[i], self.listing[j] = self.listing[j], self.listing[i]
            self.relisted()

    def add_term(self):
        r = self.rng
        if self.listing and r.random() < 0.4:
            k = r.choice(self.listing)            # the same OBJECT listed once more
        else:
            k = self.new_term(_rand_ops(r, self.n), _dyadic(r, -3, 3, 4), "float")
        self.listing.insert(r.randrange(len(self.listing) + 1), k)
        self.relisted()

    def drop_term(self):
        if len(self.listing) >= 2:
            self.listing.pop(self.rng.randrange(len(self.listing)))
            self.relisted()

    def random_change(self):
        r = self.rng
        x = r.random()
        if x < 0.2:
            self.change_time(hashy=self.t in (-1, -2) and r.random() < 0.5)
        elif x < 0.3:
            self.steps = max(1, self.steps + r.choice([-1, 1, 1]))
        elif x < 0.6 and self.listing:
            self.change_coeff(r.choice(self.listing), r.choice(["nudge", "nudge", "negate", "real", "zero"]), fresh=r.random() < 0.3)
        elif x < 0.75:
            self.change_order()
        elif x < 0.85:
            self.add_term()
        elif x < 0.9:
            self.drop_term()
        # else: the identical call once more


def _history(rng, scenario, big):
    r = rng
    n = r.choice([1, 2, 2, 3])
    h = _Hist(r, n, r.randrange(2, 4))
    anykey = lambda: r.choice(h.listing)
    if scenario == "time_hash":
        h.t = Fraction(r.choice([-1, -2]))
        h.steps = r.choice([1, 1, 2])
        k = anykey()
        h.call("term", key=k)
        h.call("sum")
        h.change_time(hashy=True)
        h.call("term", key=k)
        h.call("sum")
    elif scenario in ("coeff_nudge_same", "coeff_nudge_fresh"):
        h.t = _dyadic(r, 1, 3, 4) * r.choice([1, -1, 8])
        k = anykey()
        h.call("term", key=k)
        h.call("sum")
        k = h.change_coeff(k, "nudge", fresh=scenario.endswith("fresh"))
        h.call("term", key=k)
        h.call("sum")
    elif scenario == "coeff_imag_same":
        k = anykey()
        h.call("term", key=k)
        h.call("sum")
        h.change_coeff(k, "imag")
        h.call("term", key=k)
        h.call("sum")
        h.change_coeff(k, "real")
        h.call(r.choice(["term", "sum"]), key=k)
    elif scenario == "steps":
        h.call("sum")
        h.steps += 1
        h.call("sum")
        h.call("deriv")
        h.steps = max(1, h.steps - 1)
        h.call("deriv")
    elif scenario == "order":
        h.steps = r.randrange(1, 3)
        h.call("sum")
        h.change_order()
        h.call("sum")
        h.change_order()
        h.call(r.choice(["sum", "deriv"]))
    elif scenario == "deriv_time":
        h.steps = r.randrange(2, 4)
        h.call("deriv")
        h.change_time()
        h.call("deriv")
    elif scenario == "deriv_coeff":
        h.steps = r.randrange(2, 4)
        h.call("deriv")
        h.change_coeff(anykey(), r.choice(["negate", "nudge", "negate"]))
        h.call("deriv")
        # the single step of the same (now changed) Hamiltonian, as the derivative code asks for it
        h.t, h.steps = h.t / h.steps, 1
        h.call("sum")
    elif scenario == "result_mut_term":
        k = anykey()
        h.call("term", key=k, mut=r.choice(["append", "clear", "reverse"]))
        h.call("term", key=k)
        h.call("sum", mut=r.choice(["append", "clear"]))
        h.call("term", key=k)
    elif scenario == "result_mut_sum":
        h.call("sum", mut=r.choice(["append", "clear", "reverse"]))
        h.call("sum")
        h.call("term", key=anykey())
    elif scenario == "result_mut_deriv":
        h.steps = r.randrange(1, 3)
        h.call("deriv", mut=r.choice(["append", "clear", "reverse"]))
        h.call("deriv")
        h.call("sum")
    elif scenario == "add_drop":
        h.call("sum")
        h.add_term()
        h.call("sum")
        h.drop_term()
        h.call(r.choice(["sum", "deriv"]))
    elif scenario == "coeff_hash":
        k = anykey()
        h.pool[k]["coeff"] = [r.choice([-1, -2]), 0]
        h.pool[k]["ctype"] = r.choice(["int", "float"])
        h.call("term", key=k)
        h.call("sum")
        k = h.change_coeff(k, "hash", fresh=r.random() < 0.5)
        h.call("term", key=k)
        h.call("sum")
    elif scenario == "pauli_swap":
        # same qubits, same coefficient, same time: only the Pauli letters differ (necessarily another object)
        k = anykey()
        h.call("term", key=k)
        h.call("sum")
        src = h.pool[k]
        while True:
            ops = [[q, r.choice(PAULIS)] for q, _ in src["ops"]]
            if ops != src["ops"]:
                break
        k2 = h.new_term(ops, unrat(src["coeff"][0]), src["ctype"])
        h.listing = [k2 if x == k else x for x in h.listing]
        h.relisted()
        h.call("term", key=k2)
        h.call("sum")
    elif scenario == "ising_flag":
        # an all-Z Hamiltonian (PauliSum.is_ising is remembered on the object) that then receives an X / Y term
        for k in h.listing:
            h.pool[k]["ops"] = [[q, "Z"] for q, _ in h.pool[k]["ops"]]
        h.steps = r.randrange(2, 4)
        h.call("sum")
        h.call("deriv")
        q = r.randrange(n)
        k2 = h.new_term([[q, r.choice("XY")]] + ([[(q + 1) % n, "Z"]] if n > 1 and r.random() < 0.5 else []), _dyadic(r, -3, 3, 4), "float")
        h.listing.insert(r.randrange(len(h.listing) + 1), k2)
        h.relisted()
        h.call("sum")
        h.call("deriv")
    elif scenario == "type_twins":
        # the same objects and the same VALUES from call to call: only the NUMBER TYPE of the time, of one coefficient (reassigned on
        # the same PauliTerm object) or of n_steps changes - 1, 1.0, True, Fraction(1), numpy.int64(1), numpy.float32(1) are equal
        # and hash alike
        h.t = Fraction(r.choice([1, 1, 2, -1, 3]))
        h.steps = r.choice([1, 2, 4])
        k = anykey()
        h.pool[k]["coeff"] = [r.choice([1, 1, 2, -1]), 0]
        h.call("term", key=k)
        h.call("sum")
        for _ in range(r.randrange(3, 5)):
            which = r.choice(["time", "coeff", "steps", "all"])
            if which in ("time", "all"):
                h.ttype = r.choice(["int", "npint", "sympy", "Fraction", "sympyFloat", "sympyInteger", "npfloat", "npfloat32", "npint32", None]
                                   + (["bool"] if h.t == 1 else []))
            if which in ("coeff", "all"):
                h.pool[k]["ctype"] = r.choice(["int", "complex", "npfloat", "npcomplex", "Fraction", "npfloat32", "npcomplex64", "npint64",
                                               "npint32", "float"] + (["bool"] if h.pool[k]["coeff"][0] == 1 else []))
            if which in ("steps", "all"):
                h.stype = r.choice(["npint64", "npint32", "npuint8", "npintp", "sympyInteger", None] + (["bool"] if h.steps == 1 else []))
            f32 = h.ttype == "npfloat32" or any(h.pool[x]["ctype"] in ("npfloat32", "npcomplex64") for x in h.listing)
            if h.ttype in NP_TTYPES or h.stype in NP_STYPES or any(h.pool[x]["ctype"] in NP_CTYPES for x in h.listing):
                # (a sympy number next to a numpy scalar in one call is refused by sympy: see _unmix)
                h.ttype = "Fraction" if h.ttype in SYMPY_TTYPES else h.ttype
                h.stype = "npintp" if h.stype == "sympyInteger" else h.stype
            if h.ttype in SYMPY_TTYPES and h.stype == "bool":
                h.stype = None
            h.call("term", key=k)
            h.call("sum")
            if not f32 and n < 3 and r.random() < 0.5:
                h.call("deriv")
        h.ttype = h.stype = None
        h.pool[k]["ctype"] = "float"
        h.call("term", key=k)
        h.call("sum")
        return {"kind": "hist", "calls": h.calls}
    else:  # mixed: the terms on their own, then inside the sum, then the derivative
        for k in h.listing[:2]:
            h.call("term", key=k)
        h.call("sum")
        h.call("deriv")
    # ---- a random tail: each call differs from the previous one in (at most) one component
    for _ in range(r.randrange(1, 4)):
        h.random_change()
        kind = r.choice(["term", "sum", "sum", "deriv"] if n < 3 else ["term", "sum", "sum"])
        h.call(kind, mut=r.choice([None, None, None, "append", "clear"]))
    return {"kind": "hist", "calls": h.calls}


T_TYPES = ["int", "npfloat", "npint", "sympy", "Fraction", "bool", "sympyFloat", "sympyInteger", "npfloat32", "npint32"]
C_TYPES = ["int", "complex", "npfloat", "npcomplex", "bool", "Fraction", "npfloat32", "npcomplex64", "npint64", "npint32"]
S_TYPES = ["npint64", "npint32", "npuint8", "npintp", "bool", "sympyInteger"]
F32 = ("npfloat32", "npcomplex64")


def _set_time_type(rng, c, tt):
    """give the case a time the type can hold exactly"""
    if tt in ("int", "npint", "sympyInteger", "npint32"):
        c["base"], c["t"] = None, rng.choice([-3, -2, -1, 1, 2, 3, 5, 7])
    elif tt == "bool":
        c["base"], c["t"] = None, rng.choice([1, 1, 1, 0])
    elif tt in ("sympy", "Fraction"):
        c["base"], c["t"] = None, rat(Fraction(rng.choice([-7, -3, -1, 1, 2, 3, 5]), rng.choice([1, 2, 3, 4, 8])))
    elif tt == "npfloat32":
        c["base"], c["t"] = None, rat(Fraction(rng.choice([-1, 1]) * rng.randrange(1, 4001), 1024))
    c["ttype"] = tt
    return c


def _set_coeff_type(rng, t, ct):
    """give the term a coefficient the type can hold exactly"""
    if ct == "bool":
        t["coeff"] = [1, 0]
    elif ct in ("int", "npint64", "npint32"):
        t["coeff"] = [rng.choice([-3, -2, -1, 1, 2, 3]), 0]
    t["ctype"] = ct
    return t


def _f32_shape(rng, h):
    """numpy keeps float32 against Python numbers: 2 * (time / n_steps) * coefficient is computed in float32 as soon as the time or
    the coefficient is one.  Short dyadic values, no rational-circle base and 2^k steps keep every product exactly representable,
    so that the circuit is the one the double computation gives"""
    h["base"] = None
    t = Fraction(unrat(h["t"]))
    if t.denominator & (t.denominator - 1) or t.denominator > 1024 or abs(t.numerator) > 4096:
        h["t"] = rat(Fraction(rng.choice([-1, 1]) * rng.randrange(1, 4001), 1024))
    if "steps" in h:
        h["steps"] = rng.choice([1, 2, 4, 8])
    for t_ in (h["terms"] if "terms" in h else [h]):
        co = Fraction(unrat(t_["coeff"][0]))
        if co.denominator & (co.denominator - 1) or co.denominator > 16 or abs(co.numerator) > 64:
            t_["coeff"] = [rat(Fraction(rng.randrange(-48, 49) or 1, 16)), t_["coeff"][1]]
    return h


SYMPY_TTYPES = ("sympy", "sympyFloat", "sympyInteger", "symbol")


def _unmix(c):
    """sympy 1.9 cannot take a numpy scalar (numpy 2): a call that hands over a sympy number AND a numpy scalar (sympy time with a
    numpy coefficient / numpy n_steps, sympy n_steps with a numpy time / coefficient) is refused with ValueError - out of domain.
    The sympy side of such a case is handed over as the equal Fraction / Python int instead."""
    terms = c["terms"] if "terms" in c else [c]
    has_np = c.get("ttype") in NP_TTYPES or c.get("stype") in NP_STYPES or any(t.get("ctype") in NP_CTYPES for t in terms)
    if has_np:
        if c.get("ttype") in SYMPY_TTYPES:
            c["ttype"] = "Fraction" if c.get("base") is None else "float"
            c.pop("sym", None)
            c.pop("sym_form", None)
        if c.get("stype") == "sympyInteger":
            c["stype"] = "npintp"
    if c.get("ttype") in SYMPY_TTYPES and c.get("stype") == "bool":   # (sympy number / True: TypeError of sympy's - out of domain)
        c.pop("stype")
    return c


def _number_types(rng, big):
    """the NUMBER TYPE of every number the caller hands over, on every API: the time (Python int / bool / Fraction, sympy Rational /
    Float / Integer, numpy float64 / float32 / int64 / int32), the coefficients (Python int / bool / complex / Fraction, numpy
    float64 / float32 / complex128 / complex64 / int64 / int32; sympy numbers are refused by the unchanged library with
    AttributeError), n_steps (numpy int64 / int32 / uint8 / intp, sympy Integer, True) and length / position of the splice.
    The values are ordinary and exactly representable, so every sentence is judged as for Python floats.  (With a numpy scalar
    anywhere the gate parameters are numpy scalars and the circuit AS RETURNED has no matrix under numpy 2 / sympy 1.9: the known
    finding numpy-scalar-gate-parameter-no-matrix, reported once everything else held.)"""
    cases = []
    for rep in range(3 if big else 1):
        for tt in T_TYPES:
            n = rng.randrange(1, 4)
            c = _set_time_type(rng, _term_case(rng, _rand_ops(rng, n), n, exact=False), tt)
            cases.append(_f32_shape(rng, c) if tt in F32 else c)
            h = _set_time_type(rng, _ham(rng, n, rng.randrange(1, 4), rng.randrange(1, 5), exact=False), tt)
            h["kind"] = "sum"
            cases.append(_f32_shape(rng, h) if tt in F32 else h)
            if tt not in F32:
                n = rng.choice([1, 2, 2])
                h = _set_time_type(rng, _ham(rng, n, rng.randrange(1, 4), rng.randrange(1, 4), exact=False), tt)
                h["kind"] = "deriv"
                h["obs"], h["psi"] = _obs_psi(rng, n)
                cases.append(h)
        for ct in C_TYPES:
            n = rng.randrange(1, 4)
            exact = ct not in F32 and rng.random() < 0.4
            c = _set_coeff_type(rng, _term_case(rng, _rand_ops(rng, n), n, exact=exact), ct)
            if exact and ct in ("bool", "int", "npint64", "npint32"):   # keep 2 m c an integer
                c["t"] = rat(Fraction(rng.choice([1, 2, 3]), 2))
            cases.append(_f32_shape(rng, c) if ct in F32 else c)
            for kind in ("sum", "deriv"):
                if kind == "deriv" and ct in F32:
                    continue
                n = rng.choice([1, 2, 2]) if kind == "deriv" else rng.randrange(1, 4)
                h = _ham(rng, n, rng.randrange(1, 4), rng.randrange(1, 4), exact=False)
                for t in h["terms"]:
                    if rng.random() < 0.75:
                        _set_coeff_type(rng, t, ct)
                h["kind"] = kind
                if kind == "deriv":
                    h["obs"], h["psi"] = _obs_psi(rng, n)
                cases.append(_f32_shape(rng, h) if ct in F32 else h)
        # imaginary parts in numpy complex coefficients (complex64 is no subclass of Python's complex): rejected / negligible / constant
        for ct in ("npcomplex64", "npcomplex", "npcomplex64"):
            for im in rng.sample([Fraction(1, 2), Fraction(-1, 2), Fraction(-1), Fraction(2), Fraction(-5, 4), Fraction(1, 1024), Fraction(-3, 2 ** 16),
                                  Fraction(1, 2 ** 40), Fraction(-1, 2 ** 45)], 4):
                n = rng.randrange(1, 4)
                c = _f32_shape(rng, _term_case(rng, _rand_ops(rng, n), n, exact=False, ctype=ct))
                c["coeff"][1] = rat(im)
                if rng.random() < 0.15:
                    c["ops"] = []
                cases.append(c)
            h = _f32_shape(rng, _ham(rng, 2, rng.randrange(2, 4), rng.randrange(1, 4), exact=False))
            h["kind"] = "sum"
            t = rng.choice(h["terms"])
            t["ctype"], t["coeff"] = ct, [t["coeff"][0], rat(rng.choice([Fraction(-1, 2), Fraction(1), Fraction(1, 2 ** 40)]))]
            cases.append(h)
        for st in S_TYPES:
            for kind in ("sum", "deriv"):
                n = rng.choice([1, 2, 2])
                steps = 1 if st == "bool" else rng.randrange(1, 6)
                h = _ham(rng, n, rng.randrange(1, 4), steps, exact=kind == "sum" and rng.random() < 0.4)
                h["kind"], h["stype"] = kind, st
                if kind == "deriv":
                    h["obs"], h["psi"] = _obs_psi(rng, n)
                cases.append(h)
        # every number of one call in another type
        for _ in range(12):
            kind = rng.choice(["term", "sum", "sum", "deriv"])
            n = rng.choice([1, 2, 2])
            tt = rng.choice([x for x in T_TYPES if kind != "deriv" or x not in F32])
            if kind == "term":
                h = _term_case(rng, _rand_ops(rng, n), n, exact=False)
            else:
                h = _ham(rng, n, rng.randrange(1, 4), rng.randrange(1, 5), exact=False)
                h["kind"] = kind
                h["stype"] = rng.choice(S_TYPES)
                if h["stype"] == "bool":
                    h["steps"] = 1
                if kind == "deriv":
                    h["obs"], h["psi"] = _obs_psi(rng, n)
            _set_time_type(rng, h, tt)
            f32 = tt in F32
            for t in (h["terms"] if kind != "term" else [h]):
                ct = rng.choice([x for x in C_TYPES if kind != "deriv" or x not in F32])
                _set_coeff_type(rng, t, ct)
                f32 = f32 or ct in F32
            cases.append(_f32_shape(rng, h) if f32 else h)
        for lt in ["npint64", "npint32", "npuint8", "sympyInteger"]:
            for _ in range(2):
                sq = _seq_case(rng)
                sq["ltype"] = lt
                cases.append(sq)
    return [_unmix(c) if c["kind"] != "seq" else c for c in cases]


def corpus():
    zx = [[0, "Z"], [1, "X"]]
    z0 = {"ops": [[0, "Z"]], "coeff": [1, 0], "ctype": "float", "key": 0}
    x0 = {"ops": [[0, "X"]], "coeff": ["1/2", 0], "ctype": "float", "key": 1}
    obs1, psi1 = [[[1, 0], [0, 1]], [[0, -1], [-1, 0]]], [[1, 0], [1, 1]]
    return [
        # F10 (fixed ce4fdcc): a negative imaginary part passed the guard `imag > 1e-9`
        {"kind": "term", "ops": [[0, "Z"]], "coeff": [1, -1], "ctype": "complex", "t": 1, "base": None, "n": 1},
        {"kind": "term", "ops": [[0, "Z"]], "coeff": [1, 1], "ctype": "complex", "t": 1, "base": None, "n": 1},
        # threshold of the guard: exactly 1e-9 is accepted, 2e-9 rejected
        {"kind": "term", "ops": [[0, "X"]], "coeff": [1, "1/1000000000"], "ctype": "complex", "t": 1, "base": None, "n": 1},
        {"kind": "term", "ops": [[0, "X"]], "coeff": [1, "-1/500000000"], "ctype": "complex", "t": 1, "base": None, "n": 1},
        # constant term -> empty circuit (also with an imaginary coefficient: returned before the guard)
        {"kind": "term", "ops": [], "coeff": [2, 0], "ctype": "float", "t": 1, "base": ["3/5", "4/5"], "n": 2},
        {"kind": "term", "ops": [], "coeff": [2, 1], "ctype": "complex", "t": 1, "base": None, "n": 1},
        # weight 3 with X and Y, gaps, unsorted dict order, idle qubit
        {"kind": "term", "ops": [[3, "Y"], [0, "X"], [2, "Z"]], "coeff": ["1/2", 0], "ctype": "float", "t": 1, "base": ["3/5", "4/5"], "n": 5},
        # F11 (fixed 5898aa4): repeated step built with the full time for n_steps > 1
        {"kind": "deriv", "terms": [{"ops": zx, "coeff": [1, 0], "ctype": "float"}, {"ops": [[0, "X"]], "coeff": ["1/2", 0], "ctype": "float"}],
         "t": 2, "steps": 2, "base": ["4/5", "3/5"], "n": 2,
         "obs": [[[1, 0], [0, 0], [0, 0], [0, 0]], [[0, 0], [-1, 0], [0, 0], [0, 0]], [[0, 0], [0, 0], [1, 0], [0, 0]], [[0, 0], [0, 0], [0, 0], [-1, 0]]],
         "psi": [[1, 0], [0, 0], [0, 0], [0, 0]]},
        # derivative with a constant term (its two circuits cancel) and a single step
        {"kind": "deriv", "terms": [{"ops": [[0, "Y"]], "coeff": [1, 0], "ctype": "float"}, {"ops": [], "coeff": [2, 0], "ctype": "float"}],
         "t": 1, "steps": 1, "base": ["3/5", "4/5"], "n": 1, "obs": obs1, "psi": psi1},
        # zero coefficient (fixed 9211baa: np.pi / (4.0 * r) raised ZeroDivisionError): the term is skipped, the
        # derivative identity must still hold; a regression is reported with signature derivative-zero-coefficient
        {"kind": "deriv", "terms": [{"ops": [[0, "Z"]], "coeff": [0, 0], "ctype": "float"}],
         "t": 1, "steps": 1, "base": None, "n": 1, "obs": [[[1, 0], [0, 0]], [[0, 0], [-1, 0]]], "psi": [[1, 0], [0, 0]]},
        {"kind": "deriv", "terms": [{"ops": [[0, "X"]], "coeff": [1, 0], "ctype": "float"}, {"ops": [[1, "Z"], [0, "Y"]], "coeff": [0, 0], "ctype": "complex"},
                                    {"ops": [[1, "Y"]], "coeff": ["-1/2", 0], "ctype": "float"}],
         "t": 2, "steps": 2, "base": ["3/5", "4/5"], "n": 2,
         "obs": [[[1, 0], [0, 1], [0, 0], [2, 0]], [[0, -1], [-1, 0], [1, 1], [0, 0]], [[0, 0], [1, -1], [1, 0], [0, 0]], [[2, 0], [0, 0], [0, 0], [-1, 0]]],
         "psi": [[1, 0], [0, 1], [1, 1], [0, 0]]},
        {"kind": "deriv", "terms": [{"ops": [], "coeff": [0, 0], "ctype": "float"}, {"ops": [[0, "Y"]], "coeff": [0, 0], "ctype": "int"}],
         "t": 1, "steps": 3, "base": ["3/5", "4/5"], "n": 1, "obs": obs1, "psi": psi1},
        # purely imaginary coefficient, one step: the code evaluates no guard and returns no circuits (out of the real domain)
        {"kind": "deriv", "terms": [{"ops": [[0, "Z"]], "coeff": [0, 1], "ctype": "complex"}],
         "t": 1, "steps": 1, "base": None, "n": 1, "obs": [[[1, 0], [0, 0]], [[0, 0], [-1, 0]]], "psi": [[1, 0], [0, 0]]},
        {"kind": "sum", "terms": [{"ops": [[0, "X"]], "coeff": [1, 0], "ctype": "float"}, {"ops": [[0, "Z"]], "coeff": [1, 0], "ctype": "float"}],
         "t": 3, "steps": 3, "base": ["3/5", "4/5"], "n": 1},
        {"kind": "sum", "terms": [], "t": 1, "steps": 2, "base": None, "n": 1},
        {"kind": "seq", "rep": [["H", None, [0]]], "diff": [["CNOT", None, [0, 1]]], "length": 2, "position": 2},
        {"kind": "seq", "rep": [["H", None, [0]]], "diff": [["CNOT", None, [0, 1]]], "length": 3, "position": 0},
        # ---- shapes that a shortcut, a cache or a tolerance could treat differently
        # times -1 and -2 have the same hash; so have coefficients -1 and -2
        {"kind": "hist", "calls": [dict(z0, kind="term", t=-1, base=None, n=1), dict(z0, kind="term", t=-2, base=None, n=1),
                                   dict(z0, kind="term", t=-2, base=None, n=1, coeff=[-1, 0]), dict(z0, kind="term", t=-2, base=None, n=1, coeff=[-2, 0])]},
        # a coefficient changed by 2^-23 on the same object / an imaginary part given to an object that was accepted before
        {"kind": "hist", "calls": [dict(x0, kind="term", t=8, base=None, n=1), dict(x0, kind="term", t=8, base=None, n=1, coeff=["4194305/8388608", 0]),
                                   dict(x0, kind="term", t=8, base=None, n=1, coeff=["1/2", "1/2"], ctype="complex"),
                                   dict(x0, kind="term", t=8, base=None, n=1)]},
        # the same PauliSum: other time, other step count, terms swapped in place, result modified by the caller
        {"kind": "hist", "calls": [
            {"kind": "deriv", "terms": [z0, x0], "t": "1/2", "steps": 2, "base": None, "n": 1, "hkey": 0, "obs": obs1, "psi": psi1, "mut": "clear"},
            {"kind": "deriv", "terms": [z0, x0], "t": "3/4", "steps": 2, "base": None, "n": 1, "hkey": 0, "obs": obs1, "psi": psi1},
            {"kind": "sum", "terms": [z0, x0], "t": "3/4", "steps": 3, "base": None, "n": 1, "hkey": 0, "mut": "append"},
            {"kind": "sum", "terms": [x0, z0], "t": "3/4", "steps": 3, "base": None, "n": 1, "hkey": 0, "hmut": "inplace"},
            {"kind": "deriv", "terms": [x0, dict(z0, coeff=[-1, 0])], "t": "3/4", "steps": 2, "base": None, "n": 1, "hkey": 0, "obs": obs1, "psi": psi1},
            {"kind": "sum", "terms": [x0, dict(z0, coeff=[-1, 0])], "t": "3/8", "steps": 1, "base": None, "n": 1, "hkey": 0}]},
        # two-digit qubit indices, insertion order 12, 2, 10 (as strings: "10" < "12" < "2"; as a set: 2, 10, 12 or not)
        {"kind": "term", "ops": [[12, "X"], [2, "Y"], [10, "Z"]], "coeff": ["3/4", 0], "ctype": "float", "t": "5/8", "base": None, "n": 13, "active": [2, 10, 12]},
        {"kind": "term", "ops": [[8, "Y"], [1, "X"]], "coeff": ["-1/2", 0], "ctype": "float", "t": "5/8", "base": None, "n": 9, "active": [1, 8]},
        # a large real part next to an imaginary part that is small only relative to it
        {"kind": "term", "ops": [[0, "X"]], "coeff": [1048576, "1/10000"], "ctype": "complex", "t": "1/1048576", "base": None, "n": 1},
        {"kind": "term", "ops": [[0, "Z"], [1, "Y"]], "coeff": [5000, "1/50"], "ctype": "complex", "t": "1/1024", "base": None, "n": 2},
        # tiny coefficient, long time (t·c = 3/4); huge coefficient, short time
        {"kind": "term", "ops": [[0, "X"], [1, "Z"]], "coeff": ["3/4294967296", 0], "ctype": "float", "t": 1073741824, "base": None, "n": 2},
        {"kind": "term", "ops": [[0, "Y"]], "coeff": [3221225472, 0], "ctype": "float", "t": "1/4294967296", "base": None, "n": 1},
        # integer / symbolic time that the step count does not divide; a bare PauliTerm as the Hamiltonian; nine steps
        {"kind": "sum", "terms": [{"ops": [[0, "X"]], "coeff": [1, 0], "ctype": "float"}, {"ops": [[0, "Z"]], "coeff": ["1/2", 0], "ctype": "float"}],
         "t": 3, "steps": 2, "base": None, "n": 1, "ttype": "int"},
        {"kind": "sum", "terms": [{"ops": [[0, "X"]], "coeff": [1, 0], "ctype": "float"}, {"ops": [[0, "Z"]], "coeff": ["1/2", 0], "ctype": "float"}],
         "t": "3/4", "steps": 3, "base": None, "n": 1, "ttype": "symbol"},
        {"kind": "sum", "terms": [{"ops": zx, "coeff": ["1/2", 0], "ctype": "float"}], "t": 3, "steps": 3, "base": ["3/5", "4/5"], "n": 2, "as_term": True},
        {"kind": "sum", "terms": [{"ops": [[0, "X"]], "coeff": [1, 0], "ctype": "float"}, {"ops": [[0, "Z"]], "coeff": ["1/2", 0], "ctype": "float"}],
         "t": "9/8", "steps": 9, "base": None, "n": 1},
        # the derivative at t = 0 (a falsy time) is not zero
        {"kind": "deriv", "terms": [{"ops": [[0, "X"]], "coeff": [1, 0], "ctype": "float"}, {"ops": [[0, "Z"]], "coeff": ["1/2", 0], "ctype": "float"}],
         "t": 0, "steps": 2, "base": None, "n": 1, "obs": obs1, "psi": psi1, "ttype": "int"},
        # A, B, A with B not commuting with A; all coefficients tiny
        {"kind": "deriv", "terms": [{"ops": [[0, "X"]], "coeff": [1, 0], "ctype": "float"}, {"ops": [[0, "Z"]], "coeff": ["1/2", 0], "ctype": "float"},
                                    {"ops": [[0, "X"]], "coeff": [1, 0], "ctype": "float"}],
         "t": "3/4", "steps": 2, "base": None, "n": 1, "obs": obs1, "psi": psi1},
        {"kind": "deriv", "terms": [{"ops": [[0, "X"]], "coeff": ["3/536870912", 0], "ctype": "float"}, {"ops": [[0, "Z"]], "coeff": ["-1/268435456", 0], "ctype": "float"}],
         "t": "3/4", "steps": 2, "base": None, "n": 1, "obs": obs1, "psi": psi1},
        # ---- number types: a Fraction time with Fraction / bool coefficients and a sympy Integer step count; float32 time and
        #      complex64 coefficient with a numpy step count (known finding: the returned circuit has no matrix); a bool time
        {"kind": "sum", "terms": [{"ops": zx, "coeff": ["3/4", 0], "ctype": "Fraction"}, {"ops": [[1, "Y"]], "coeff": [1, 0], "ctype": "bool"}],
         "t": "5/3", "steps": 3, "base": None, "n": 2, "ttype": "Fraction", "stype": "sympyInteger"},
        {"kind": "sum", "terms": [{"ops": zx, "coeff": ["-5/16", 0], "ctype": "npcomplex64"}, {"ops": [[0, "Y"]], "coeff": [2, 0], "ctype": "npint32"}],
         "t": "37/64", "steps": 4, "base": None, "n": 2, "ttype": "npfloat32", "stype": "npuint8"},
        {"kind": "deriv", "terms": [{"ops": [[0, "X"]], "coeff": ["1/2", 0], "ctype": "Fraction"}, {"ops": [[0, "Z"]], "coeff": [1, 0], "ctype": "bool"}],
         "t": 1, "steps": 2, "base": None, "n": 1, "obs": obs1, "psi": psi1, "ttype": "bool", "stype": "npint64"},
    ]


def generate(rng, tier):
    big = tier == "thorough"
    cases = []
    # ---- exhaustive Pauli strings on <= 3 qubits
    for n in ((1, 2, 3) if big else (3,)):
        for ops in _all_strings(n):
            for rep in range(3 if big else 1):
                cases.append(_term_case(rng, [list(o) for o in ops], n, exact=True))
            if big:
                cases.append(_term_case(rng, [list(o) for o in ops], n, exact=False))
    # ---- random strings, wider registers, unsorted insertion order, idle qubits
    for _ in range(150 if big else 24):
        n = rng.choice([2, 3, 4, 4, 5] + ([6] if big else []))
        cases.append(_term_case(rng, _rand_ops(rng, n), n, exact=n <= (5 if big else 4) and rng.random() < (0.7 if n < 5 else 0.25)))
    # ---- arbitrary (non rational-circle) times and coefficients: oracle + structural comparison
    for _ in range(200 if big else 30):
        n = rng.randrange(1, 5)
        cases.append(_term_case(rng, _rand_ops(rng, n), n, exact=False))
    # ---- imaginary parts: accepted (negligible), rejected (both signs), in between
    for _ in range(80 if big else 16):
        n = rng.randrange(1, 4)
        c = _term_case(rng, _rand_ops(rng, n), n, exact=False, ctype="complex")
        im = rng.choice([Fraction(1, 10 ** 12), Fraction(-1, 10 ** 10), Fraction(1, 10 ** 9), Fraction(-1, 10 ** 9),
                         Fraction(1, 10 ** 8), Fraction(-1, 10 ** 8), Fraction(-3, 10 ** 6), Fraction(1, 10 ** 3),
                         Fraction(1, 2), Fraction(-1, 2), Fraction(-1), Fraction(2), Fraction(-5, 4)])
        c["coeff"][1] = rat(im)
        if rng.random() < 0.15:
            c["ops"] = []
        cases.append(c)
    # ---- sums
    for _ in range(160 if big else 26):
        n = rng.choice([1, 2, 2, 3, 3, 4] if big else [1, 2, 2, 3, 3])
        h = _ham(rng, n, rng.randrange(1, 5), rng.randrange(1, 5), exact=rng.random() < (0.6 if n < 4 else 0.2))
        h["kind"] = "sum"
        if rng.random() < 0.12 and h["terms"]:
            t = rng.choice(h["terms"])
            t["coeff"][1] = rat(rng.choice([Fraction(-1, 2), Fraction(1), Fraction(-1, 10 ** 8), Fraction(1, 10 ** 11)]))
            t["ctype"] = "complex"
        cases.append(h)
    for _ in range(6 if big else 2):
        h = _ham(rng, 2, 0, rng.randrange(1, 4), exact=False)
        h["kind"] = "sum"
        cases.append(h)
    # ---- derivatives
    for _ in range(110 if big else 18):
        n = rng.choice([1, 2, 2, 3] if big else [1, 2, 2, 3])
        nterms = rng.randrange(1, 5 if n < 3 else 4)
        steps = rng.randrange(1, 5 if n < 3 else 4)
        # the exact model value costs (2·terms·steps) circuits × (terms·steps) term circuits of exact liftings: keep those small
        small = nterms * steps <= (6 if n == 3 else 9)
        h = _ham(rng, n, nterms, steps, exact=small and rng.random() < (0.6 if n < 3 else 0.4))
        h["kind"] = "deriv"
        h["obs"], h["psi"] = _obs_psi(rng, n)
        cases.append(h)
    # degenerate derivative requests: zero coefficient (skipped term), imaginary part (rejected)
    for _ in range(10 if big else 3):
        n = rng.randrange(1, 3)
        h = _ham(rng, n, rng.randrange(1, 4), rng.randrange(1, 3), exact=False)
        h["kind"] = "deriv"
        h["obs"], h["psi"] = _obs_psi(rng, n)
        t = rng.choice(h["terms"])
        if rng.random() < 0.5:
            t["coeff"] = [0, 0]
        else:
            t["coeff"][1] = rat(rng.choice([Fraction(-1, 2), Fraction(1, 4)]))
            t["ctype"] = "complex"
        cases.append(h)
    # ---- _generate_circuit_sequence
    for i in range(60 if big else 12):
        s = _seq_case(rng)
        if i % 4 == 3:
            s["alias"] = True                       # the SAME Circuit object as repeated and as different circuit
        if i % 6 == 5:
            s["length"], s["position"] = 64 + rng.randrange(0, 8), rng.randrange(0, 70)
        cases.append(s)
    # ==== streams for shapes that shortcuts, caches and tolerances treat differently ====
    # ---- extreme magnitudes; high / two-digit qubit indices; the time as int / numpy / sympy number / Symbol
    for _ in range(40 if big else 6):
        cases.append(_magnitude_term(rng))
    for _ in range(40 if big else 8):
        cases.append(_high_index_term(rng))
    for _ in range(50 if big else 8):
        n = rng.randrange(1, 4)
        cases.append(_typed_time(rng, _term_case(rng, _rand_ops(rng, n), n, exact=rng.random() < 0.3)))
    for _ in range(16 if big else 3):
        n = rng.randrange(1, 4)
        cases.append(_typed_coeff(rng, _term_case(rng, _rand_ops(rng, n), n, exact=False)))
    for _ in range(30 if big else 8):
        cases.append(_big_real_imag_term(rng))
    # ---- special Hamiltonian shapes (each shape occurs in every run)
    for i in range(4 * len(SUM_SHAPES) if big else len(SUM_SHAPES)):
        cases.append(_variant_sum(rng, i, big))
    for i in range(3 * len(DERIV_SHAPES) if big else len(DERIV_SHAPES)):
        cases.append(_variant_deriv(rng, i))
    # ---- histories on shared objects (each scenario occurs in every run)
    for i in range(6 * len(SCENARIOS) if big else 2 * len(SCENARIOS)):
        cases.append(_history(rng, SCENARIOS[i % len(SCENARIOS)], big))
    # ---- number types of time / coefficients / n_steps on every API (a fresh generator: the streams above stay as they were)
    import random as _random
    cases += _number_types(_random.Random(rng.getrandbits(64)), big)
    return cases


def _heavy(ops):
    return len(ops) >= 2 and any(p in "XY" for _, p in ops)


def nontrivial(c):
    k = c["kind"]
    if k == "term":
        return _heavy(c["ops"])
    if k in ("sum", "deriv"):
        return c["steps"] >= 2 and any(_heavy(t["ops"]) for t in c["terms"])
    if k == "seq":
        return c["length"] >= 2 and c["position"] < c["length"]
    if k == "hist":
        def sub(s):
            return _heavy(s["ops"]) if s["kind"] == "term" else any(_heavy(t["ops"]) for t in s["terms"])
        return sum(1 for s in c["calls"] if sub(s)) >= 2
    return False


def distribution(cases, outs):
    rej = 0
    widths, weights, steps, nterms, ttypes, hist_calls = {}, {}, {}, {}, {}, 0
    flat, flat_outs = [], []
    for c, o in zip(cases, outs):
        if c["kind"] == "hist":
            hist_calls += len(c["calls"])
            flat += c["calls"]
            flat_outs += o.get("calls", []) if isinstance(o, dict) else []
        else:
            flat.append(c)
            flat_outs.append(o)
    for o in flat_outs:
        if isinstance(o, dict) and o.get("err"):
            rej += 1
    for c in flat:
        if "n" in c:
            widths[c["n"]] = widths.get(c["n"], 0) + 1
        if c["kind"] == "term":
            weights[len(c["ops"])] = weights.get(len(c["ops"]), 0) + 1
        if c["kind"] in ("sum", "deriv"):
            steps[c["steps"]] = steps.get(c["steps"], 0) + 1
            nterms[len(c["terms"])] = nterms.get(len(c["terms"]), 0) + 1
        if c["kind"] != "seq":
            tt = c.get("ttype", "float")
            ttypes[tt] = ttypes.get(tt, 0) + 1
    ctypes, stypes = {}, {}
    for c in flat:
        for t in (c.get("terms", []) if c["kind"] in ("sum", "deriv") else [c] if c["kind"] == "term" else []):
            ctypes[t.get("ctype", "float")] = ctypes.get(t.get("ctype", "float"), 0) + 1
        if c["kind"] in ("sum", "deriv"):
            stypes[c.get("stype", "int")] = stypes.get(c.get("stype", "int"), 0) + 1
        if c["kind"] == "seq" and c.get("ltype"):
            stypes["splice:" + c["ltype"]] = stypes.get("splice:" + c["ltype"], 0) + 1
    return {"rejected_requests": rej, "register_widths": widths, "term_weights": weights, "n_steps": steps,
            "hamiltonian_sizes": nterms, "time_types": ttypes, "coefficient_types": ctypes, "n_steps_types": stypes,
            "calls_whose_circuit_has_no_matrix_as_returned": sum(1 for o in flat_outs if isinstance(o, dict) and o.get("matrix_error")),
            "calls_inside_histories": hist_calls,
            "calls_followed_by_caller_modifying_the_result": sum(1 for c in flat if c.get("mut")),
            "exact_matrix_comparisons": sum(1 for c in flat if c.get("base") is not None and c.get("active") is None),
            "max_circuits_in_a_derivative": max([len(o.get("circuits", [])) for o in flat_outs if isinstance(o, dict)] + [0])}
