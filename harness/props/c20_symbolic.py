"""C20, kind `symbolic` (oracle only): READERS of objects that hold sympy expressions must not REWRITE those expressions.

The value snapshots of the histories compare values (or simplified forms), so an operation that replaces a stored expression by
an EQUIVALENT one (Matrix.simplify() in place, expand, doit, trigsimp, nsimplify, a re-bound `params` tuple ...) is invisible to
them, and most of their symbolic objects are fixed points of such rewrites anyway.  Here every object holds expressions that are
NOT in simplified / expanded / evaluated form (x + 0*y, cos(a)**2 + sin(a)**2 - 1 + z, (x+1)**2 - x**2 - 2*x - 1 + y, products
of trigonometric terms, a - a + b unevaluated, the symbolic simulator's output for consecutive rotations), and the snapshot is
STRUCTURAL: sympy.srepr of every entry / parameter, free_symbols, type and shape of every container (not its identity: a
private container replaced by a structurally identical one cannot be observed), read from the
objects' fields WITHOUT running library code (vars() / dataclass fields), so that taking the snapshot cannot itself trigger the
rewrite.  Every reader / value-returning operation of the family is called twice on the same objects, the first one once more
at the end; required: identical structure of the receiver and of every argument after every call, equal answers.

Families: wf (hand-built symbolic wavefunctions, every constructor route), sim (wavefunctions the symbolic simulator returns,
and the circuit it was given), circ (circuits / gate operations / gates - plain, controlled, daggered - with unsimplified expression
parameters), custom (custom gate definitions with unsimplified matrices, their gates and circuits).
"""
import dataclasses
import importlib

from .. import common

SYMNAMES = ["a", "b", "theta", "phi", "x", "y", "z", "gamma"]

# (template over {0} {1} {2}, evaluate?)  - none of these is a fixed point of sympy.simplify; the unevaluated ones are not even
# fixed points of re-evaluation (subs / doit / arithmetic)
UNSIMPLIFIED = [
    ("cos({0}/2)*cos({1}/2) - sin({0}/2)*sin({1}/2)", True),
    ("-I*sin({0}/2)*cos({1}/2) - I*sin({1}/2)*cos({0}/2)", True),
    ("1.0*cos({0}/2)*cos({1}/2) - 1.0*sin({0}/2)*sin({1}/2)", True),
    ("{0} + 0*{1}", False),
    ("{0} - {0} + {1}", False),
    ("cos({0})**2 + sin({0})**2 - 1 + {1}", True),
    ("({0}+1)**2 - {0}**2 - 2*{0} - 1 + {1}", True),
    ("(sin({0})**2 + cos({0})**2)/sqrt(2)", True),
    ("(sin({0})**2 + cos({0})**2)*{1}/2", True),
    ("2*sin({0})*cos({0})", True),
    ("sin({0})/cos({0})", True),
    ("({0}**2 - 1)/({0} - 1)", True),
    ("({0} + {1})*({0} - {1})", True),
    ("{0}*{1} + {0}*{2}", True),
    ("exp(I*{0})*exp(I*{1})/2", False),
    ("cos({0})*cos({1})*sin({2}) + sin({0})*sin({1})*sin({2})", True),
    ("sin({0}/2)**2*cos({1}/2) + cos({0}/2)**2*cos({1}/2)", True),
]
# fixed points, mixed in so that an object is only PARTLY rewritable
PLAIN = [("cos({0}/2)", True), ("-I*sin({0}/2)", True), ("{0}", True), ("{0}/2", True), ("0", True), ("1/2", True), ("I/2", True)]

# gate parameters are REAL angles that contain a symbol (a complex "angle" makes the gate non-unitary and the simulated state
# unnormalised; a numeric angle leaves numeric amplitudes whose float norm may exceed 1 by an ulp - the constructor rejects both)
UNSIMPLIFIED_REAL = [t for t in UNSIMPLIFIED if "I" not in t[0]]
PLAIN_REAL = [("cos({0}/2)", True), ("{0}", True), ("{0}/2", True), ("2*{0}", True), ("{0} + {1}", True)]

PGATES = ["RX", "RY", "RZ", "PHASE", "U3", "CPHASE", "XX", "YY", "ZZ", "XY"]
GATE_SHAPE = {"RX": (1, 1), "RY": (1, 1), "RZ": (1, 1), "PHASE": (1, 1), "U3": (1, 3), "CPHASE": (2, 1), "XX": (2, 1), "YY": (2, 1),
              "ZZ": (2, 1), "XY": (2, 1), "H": (1, 0), "X": (1, 0), "CNOT": (2, 0), "T": (1, 0)}
WRAPS = ["plain", "plain", "plain", "controlled", "dagger"]
CTORS = ["matrix", "list", "tuple", "immutable", "objarr", "column"]


def _H():
    return importlib.import_module("harness.props.c20")


# ------------------------------------------------------------------ expressions
def expr(sp, e):
    s, ev = e
    loc = {n: sp.Symbol(n) for n in SYMNAMES}
    r = sp.parse_expr(s, local_dict=loc, evaluate=bool(ev))
    return sp.sympify(r) if ev else r


def _gen_expr(rng, unsimplified=True, syms=None, real=False):
    syms = syms or SYMNAMES
    if real:
        tpl, ev = rng.choice(UNSIMPLIFIED_REAL if unsimplified else PLAIN_REAL)
    else:
        tpl, ev = rng.choice(UNSIMPLIFIED if unsimplified else PLAIN)
    ss = rng.sample(syms, min(3, len(syms)))
    while len(ss) < 3:
        ss.append(rng.choice(syms))
    return [tpl.format(*ss), ev]


def _gen_value(rng):
    return rng.choice(["1/2", "-3/4", "0", "1", "0.25", "5/4", "-2"])


def _gen_bind(rng, syms, full):
    syms = sorted(syms)
    if not syms:
        return []
    chosen = syms if full else rng.sample(syms, rng.randint(1, max(1, len(syms) - 1)))
    return [[s, _gen_value(rng)] for s in chosen]


def _bind_py(sp, pairs):
    return {sp.Symbol(s): sp.Rational(v) if "." not in v else float(v) for s, v in pairs}


def _syms_of(entries):
    import re
    out = set()
    for s, _ev in entries:
        out |= {w for w in re.findall(r"[A-Za-z_]+", s) if w in SYMNAMES}
    return out


# ------------------------------------------------------------------ the structural snapshot
_SR = {}   # id(expression) -> (expression, srepr, free symbols): sympy expressions are immutable, a stored one is the same object
           # until somebody replaces it (cleared per case)


def _sr(sp, e):
    hit = _SR.get(id(e))
    if hit is None or hit[0] is not e:
        e2 = e if isinstance(e, sp.Basic) else sp.sympify(e)
        hit = _SR[id(e)] = (e, type(e).__name__ + ":" + sp.srepr(e), sorted(map(str, getattr(e2, "free_symbols", ()))))
    return hit


def ssnap(L, o, keep, ids=False, depth=0, cheap=False):
    """(cheap: expressions by their structural hash instead of srepr - for comparing two answers)
    structure of `o`, read without running library code: srepr of every sympy expression, type / shape / identity of every
    container, the fields (vars() / dataclass fields) of library objects"""
    sp, np = L.sympy, L.np
    if depth > 14:
        return ["deep", type(o).__name__]
    if o is None or isinstance(o, (bool, str)):
        return o
    if isinstance(o, (int, float, complex)):
        return [type(o).__name__, repr(o)]
    if isinstance(o, np.generic):
        return ["npscalar", o.dtype.str, o.tobytes().hex()]
    if cheap and isinstance(o, sp.MatrixBase):
        return ["matrix", 0, type(o).__name__, list(o.shape), hash(tuple(o.flat()))]
    if cheap and isinstance(o, sp.Basic):
        return ["expr", hash(o)]
    if isinstance(o, sp.MatrixBase):
        keep.append(o)
        hits = [_sr(sp, e) for e in o.flat()]
        return ["matrix", id(o) if ids else 0, type(o).__name__, list(o.shape), [h[1] for h in hits],
                sorted(set().union(*[h[2] for h in hits]))]
    if isinstance(o, sp.Basic):
        h = _sr(sp, o)
        return ["expr", h[1], h[2]]
    if isinstance(o, np.ndarray):
        keep.append(o)
        head = ["ndarray", id(o) if ids else 0, o.dtype.str, list(o.shape)]
        if o.dtype == object:
            return head + [[ssnap(L, e, keep, ids, depth + 1, cheap) for e in o.ravel().tolist()]]
        return head + [np.ascontiguousarray(o).tobytes().hex()]
    if isinstance(o, (list, tuple)):
        keep.append(o)
        return [type(o).__name__, id(o) if (ids and isinstance(o, list)) else 0, [ssnap(L, e, keep, ids, depth + 1, cheap) for e in o]]
    if isinstance(o, dict):
        keep.append(o)
        return [type(o).__name__, id(o) if ids else 0,
                [[ssnap(L, k, keep, ids, depth + 1, cheap), ssnap(L, v, keep, ids, depth + 1, cheap)] for k, v in o.items()]]
    if isinstance(o, (set, frozenset)):
        return [type(o).__name__, sorted(common.canon(ssnap(L, e, keep, ids, depth + 1, cheap)) for e in o)]
    if dataclasses.is_dataclass(o) and not isinstance(o, type):
        fields = {f.name: ssnap(L, getattr(o, f.name), keep, ids, depth + 1, cheap) for f in dataclasses.fields(o)}
        extra = {k: ssnap(L, v, keep, ids, depth + 1, cheap) for k, v in getattr(o, "__dict__", {}).items() if k not in fields}
        return ["obj", type(o).__name__, fields, extra]
    if type(o).__module__.startswith("orquestra") and hasattr(o, "__dict__"):
        return ["obj", type(o).__name__, {k: ssnap(L, v, keep, ids, depth + 1, cheap) for k, v in vars(o).items()}, {}]
    if callable(o):
        return ["callable", getattr(o, "__qualname__", type(o).__name__)]
    return ["other", type(o).__name__, repr(o)[:200]]


def _snap_args(L, args, keep):
    return {k: ssnap(L, v, keep) for k, v in args.items()}


def _where(a, b, path=""):
    if type(a) is type(b) and isinstance(a, dict) and a.keys() == b.keys():
        for k in a:
            if a[k] != b[k]:
                return _where(a[k], b[k], f"{path}.{k}" if path else str(k))
    if type(a) is type(b) and isinstance(a, list) and len(a) == len(b):
        for i, (x, y) in enumerate(zip(a, b)):
            if x != y:
                return _where(x, y, f"{path}[{i}]")
    return f"at {path or 'top'}: before {common.canon(a)[:260]} after {common.canon(b)[:260]}"


class Derived:
    def __init__(self, fn):
        self.fn = fn


def _guard(fn, a):
    try:
        return ("ok", fn(a)), None
    except Exception as e:   # noqa: BLE001  (a symbolic object may be rejected by an operation: an answer like any other)
        return ("err", f"err:{type(e).__name__}"), f"{type(e).__name__}: {e}"[:200]


# ------------------------------------------------------------------ families: build(L, v, tmp) -> (args, calls)
def _wf_calls(L, name, twin, other, v, tmp):
    """every reader / value-returning operation on the symbolic wavefunction args[name]"""
    sp = L.sympy
    wfm = L.wfm
    import copy
    import os
    calls = [
        ("get_probabilities", lambda a: a[name].get_probabilities()),
        ("get_outcome_probs", lambda a: a[name].get_outcome_probs()),
        ("amplitudes", lambda a: a[name].amplitudes),
        ("str", lambda a: str(a[name])),
        ("repr", lambda a: repr(a[name]).split(" at 0x")[0]),
        ("==twin", lambda a: a[name] == a[twin]),
        ("twin==", lambda a: a[twin] == a[name]),
        ("==other", lambda a: a[name] == a[other]),
        ("!=other", lambda a: a[name] != a[other]),
        ("len", lambda a: len(a[name])),
        ("iter", lambda a: list(a[name])),
        ("getitem", lambda a: a[name][v.get("idx", 0)]),
        ("getslice", lambda a: a[name][0:2]),
        ("free_symbols", lambda a: a[name].free_symbols),
        ("n_qubits", lambda a: a[name].n_qubits),
        ("bind_partial", lambda a: a[name].bind(_bind_py(sp, v["bind_partial"]))),
        ("bind_full", lambda a: a[name].bind(_bind_py(sp, v["bind_full"]))),
        ("bind_empty", lambda a: a[name].bind({})),
        ("flip_wavefunction", lambda a: wfm.flip_wavefunction(a[name])),
        ("flip_amplitudes", lambda a: wfm.flip_amplitudes(a[name].amplitudes)),
        ("copy", lambda a: copy.copy(a[name])),
        ("deepcopy", lambda a: copy.deepcopy(a[name])),
        ("save_wavefunction", lambda a: wfm.save_wavefunction(a[name], os.path.join(tmp, "wf.json"))),
        ("sample_from_wavefunction", lambda a: wfm.sample_from_wavefunction(a[name], 3, seed=7)),
    ]
    return calls


def _vector_py(L, entries, ctor):
    sp, np = L.sympy, L.np
    es = [expr(sp, e) for e in entries]
    if ctor == "matrix":
        return sp.Matrix(es)
    if ctor == "immutable":
        return sp.ImmutableMatrix(es)
    if ctor == "column":
        return sp.Matrix(len(es), 1, es)
    if ctor == "tuple":
        return tuple(es)
    if ctor == "objarr":
        arr = np.empty(len(es), dtype=object)
        for i, e in enumerate(es):
            arr[i] = e
        return arr
    return list(es)


def _fam_wf():
    def gen(rng):
        n = rng.choice([2, 2, 4, 4, 8])
        entries = []
        k = rng.randint(1, n)   # how many entries are unsimplified
        pos = set(rng.sample(range(n), k))
        syms = rng.sample(SYMNAMES, rng.randint(2, 4))
        for i in range(n):
            entries.append(_gen_expr(rng, i in pos, syms))
        heavy = [i for i, e in enumerate(entries) if e[0] in ("1/2", "I/2")]
        for i in heavy[3:]:   # (numeric entries must not exceed total probability 1: the constructor checks them)
            entries[i] = ["0", True]
        if rng.random() < 0.3:   # symbols that cancel under simplification: free_symbols would shrink
            entries[rng.randrange(n)] = ["(sin({0})**2 + cos({0})**2)/sqrt(2)".format(rng.choice(syms)), True]
        other = list(entries)
        other[rng.randrange(n)] = _gen_expr(rng, rng.random() < 0.5, syms)
        if not _syms_of(other):   # (a vector without symbols has to be normalised)
            other[0] = [syms[0], True]
        ss = _syms_of(entries)
        return {"entries": entries, "other": other, "ctor": rng.choice(CTORS), "idx": rng.randrange(-n, n),
                "bind_partial": _gen_bind(rng, ss, False), "bind_full": _gen_bind(rng, ss, True)}

    def build(L, v, tmp):
        W = L.wfm.Wavefunction
        args = {"vector": _vector_py(L, v["entries"], v["ctor"]), "vector2": _vector_py(L, v["entries"], "matrix"),
                "vector3": _vector_py(L, v["other"], v["ctor"])}
        args["wf"] = Derived(lambda a: W(a["vector"]))
        args["twin"] = Derived(lambda a: W(a["vector2"]))
        args["other"] = Derived(lambda a: W(a["vector3"]))
        return args, _wf_calls(L, "wf", "twin", "other", v, tmp)
    return {"gen": gen, "build": build}


def _param_py(L, p):
    return expr(L.sympy, p) if isinstance(p, list) else float(L.sympy.Rational(p))


def _gate_py(L, g):
    ref = getattr(L.circuits, g["g"])
    gate = ref(*[_param_py(L, p) for p in g["p"]]) if g["p"] else ref
    if g.get("wrap") == "controlled":
        gate = gate.controlled(1)
    elif g.get("wrap") == "dagger":
        gate = gate.dagger
    return gate


def _op_py(L, g):
    return _gate_py(L, g)(*g["q"])


def _gen_gop(rng, nq, syms, symbolic=True, plain_params=False, wraps=True, exact=False):
    names = [n for n in (PGATES if symbolic else ["X", "CNOT"] if exact else ["H", "X", "CNOT", "T"]) if GATE_SHAPE[n][0] <= nq]
    g = rng.choice(names)
    ar, npar = GATE_SHAPE[g]
    wrap = rng.choice(WRAPS) if wraps else "plain"
    if wrap == "controlled" and ar + 1 > nq:
        wrap = "plain"
    params = []
    for j in range(npar):
        r = rng.random()
        if plain_params or r < 0.25 or j >= 1:   # (U3: one unsimplified angle - three make every matrix product slow)
            params.append(_gen_expr(rng, False, syms, real=True) if (exact or rng.random() < 0.85) else _gen_value(rng))
        else:
            params.append(_gen_expr(rng, True, syms, real=True))
    if all(not isinstance(p, list) or not _syms_of([p]) for p in params) and params:
        params[0] = [rng.choice(syms), True]
    return {"g": g, "p": params, "q": rng.sample(range(nq), ar + (1 if wrap == "controlled" else 0)), "wrap": wrap}


def _fam_sim():
    def gen(rng):
        nq = rng.choice([1, 1, 1, 1, 2])
        syms = rng.sample(SYMNAMES, rng.randint(2, 3))
        plain = rng.random() < 0.6   # plain symbols as parameters: the simulator's OUTPUT is what is unsimplified
        ops = []
        for _ in range(2):
            ops.append(_gen_gop(rng, nq, syms, True, plain, wraps=False, exact=True))
            if rng.random() < 0.2:
                ops.append(_gen_gop(rng, nq, syms, False, exact=True))
        # consecutive rotations about one axis on one qubit: cos(a/2)cos(b/2) - sin(a/2)sin(b/2)
        if rng.random() < 0.5:
            g = rng.choice(["RX", "RY", "PHASE"])
            q = rng.randrange(nq)
            ops = [{"g": g, "p": [[s, True]], "q": [q], "wrap": "plain"} for s in syms[:2]] + ops[:1]
        ss = set()
        for o in ops:
            ss |= _syms_of([p for p in o["p"] if isinstance(p, list)])
        return {"nq": nq, "ops": ops, "idx": rng.randrange(2 ** nq), "bind_partial": _gen_bind(rng, ss, False),
                "bind_full": _gen_bind(rng, ss, True)}

    def build(L, v, tmp):
        from orquestra.quantum.runners.symbolic_simulator import SymbolicSimulator
        C = L.circuits.Circuit
        mk = lambda: C([_op_py(L, o) for o in v["ops"]], v["nq"])
        args = {"circuit": mk(), "circuit2": mk()}
        sim = {"simulator": SymbolicSimulator()}   # (its job counters are documented state, not an argument of the property)
        args["wf"] = Derived(lambda a: sim["simulator"].get_wavefunction(a["circuit"]))
        args["twin"] = Derived(lambda a: sim["simulator"].get_wavefunction(a["circuit2"]))
        args["other"] = Derived(lambda a: sim["simulator"].get_wavefunction(C([_op_py(L, o) for o in v["ops"][:1]], v["nq"])))
        calls = [("simulator.get_wavefunction", lambda a: sim["simulator"].get_wavefunction(a["circuit"]))]
        calls += _wf_calls(L, "wf", "twin", "other", v, tmp)
        return args, calls
    return {"gen": gen, "build": build}


def _circuit_calls(L, v, tmp, nq):
    import copy
    import os
    sp = L.sympy
    circ = L.circuits
    from orquestra.quantum.runners.symbolic_simulator import SymbolicSimulator
    calls = [
        ("to_unitary", lambda a: a["circuit"].to_unitary()),
        ("free_symbols", lambda a: a["circuit"].free_symbols),
        ("n_qubits", lambda a: a["circuit"].n_qubits),
        ("operations", lambda a: list(a["circuit"].operations)),
        ("repr", lambda a: repr(a["circuit"])),
        ("==twin", lambda a: a["circuit"] == a["twin"]),
        ("twin==", lambda a: a["twin"] == a["circuit"]),
        ("==other", lambda a: a["circuit"] == a["other"]),
        ("+twin", lambda a: a["circuit"] + a["twin"]),
        ("+op", lambda a: a["circuit"] + a["twin"].operations[0]),
        ("bind_partial", lambda a: a["circuit"].bind(_bind_py(sp, v["bind_partial"]))),
        ("bind_full", lambda a: a["circuit"].bind(_bind_py(sp, v["bind_full"]))),
        ("bind_empty", lambda a: a["circuit"].bind({})),
        ("inverse", lambda a: a["circuit"].inverse()),
        ("controlled", lambda a: a["circuit"].controlled(nq)),
        ("to_dict", lambda a: circ.to_dict(a["circuit"])),
        ("circuit_from_dict(to_dict)", lambda a: circ.circuit_from_dict(circ.to_dict(a["circuit"]))),
        ("save_circuit", lambda a: circ.save_circuit(a["circuit"], os.path.join(tmp, "c.json"))),
        ("save_circuitset", lambda a: circ.save_circuitset([a["circuit"], a["twin"]], os.path.join(tmp, "cs.json"))),
        ("collect_custom_gate_definitions", lambda a: a["circuit"].collect_custom_gate_definitions()),
        ("copy", lambda a: copy.copy(a["circuit"])),
        ("deepcopy", lambda a: copy.deepcopy(a["circuit"])),
        ("simulator.get_wavefunction", lambda a: SymbolicSimulator().get_wavefunction(a["circuit"])),
        ("split_circuit", lambda a: list(circ.split_circuit(a["circuit"], lambda op: bool(op.free_symbols)))),
    ]
    i = v.get("opidx", 0)
    op = lambda a: a["circuit"].operations[i]
    state = [1] + [0] * (2 ** nq - 1)
    calls += [
        ("op.params", lambda a: op(a).params),
        ("op.free_symbols", lambda a: op(a).free_symbols),
        ("op.lifted_matrix", lambda a: op(a).lifted_matrix(nq)),
        ("op.apply", lambda a: op(a).apply(state)),
        ("op.str", lambda a: str(op(a))),
        ("op.repr", lambda a: repr(op(a))),
        ("op.bind", lambda a: op(a).bind(_bind_py(sp, v["bind_partial"]))),
        ("op.replace_params", lambda a: op(a).replace_params(op(a).params)),
        ("op.to_dict", lambda a: circ.to_dict(op(a))),
        ("op==", lambda a: op(a) == a["twin"].operations[i]),
        ("gate.matrix", lambda a: op(a).gate.matrix),
        ("gate.params", lambda a: op(a).gate.params),
        ("gate.name", lambda a: op(a).gate.name),
        ("gate.free_symbols", lambda a: op(a).gate.free_symbols),
        ("gate.dagger", lambda a: op(a).gate.dagger),
        ("gate.dagger.matrix", lambda a: op(a).gate.dagger.matrix),
        ("gate.controlled", lambda a: op(a).gate.controlled(1)),
        ("gate.power", lambda a: op(a).gate.power(2)),
        ("gate.exp", lambda a: op(a).gate.exp),
        ("gate.bind", lambda a: op(a).gate.bind(_bind_py(sp, v["bind_full"]))),
        ("gate.replace_params", lambda a: op(a).gate.replace_params(op(a).gate.params)),
        ("gate==", lambda a: op(a).gate == a["twin"].operations[i].gate),
        ("gate.hash", lambda a: hash(op(a).gate) == hash(a["twin"].operations[i].gate)),
        ("gate.str", lambda a: str(op(a).gate)),
        ("gate()", lambda a: op(a).gate(*op(a).qubit_indices)),
    ]
    return calls


def _fam_circ():
    def gen(rng):
        nq = rng.choice([1, 2, 2])
        syms = rng.sample(SYMNAMES, rng.randint(2, 3))
        ops = []
        for _ in range(rng.randint(1, 2)):
            ops.append(_gen_gop(rng, nq, syms, True))
            if rng.random() < 0.3:
                ops.append(_gen_gop(rng, nq, syms, False))
        other = list(ops)
        other[rng.randrange(len(other))] = _gen_gop(rng, nq, syms, True)
        ss = set()
        for o in ops:
            ss |= _syms_of([p for p in o["p"] if isinstance(p, list)])
        symbolic = [i for i, o in enumerate(ops) if o["p"]]
        return {"nq": nq, "ops": ops, "other": other, "opidx": rng.choice(symbolic), "bind_partial": _gen_bind(rng, ss, False),
                "bind_full": _gen_bind(rng, ss, True)}

    def build(L, v, tmp):
        C = L.circuits.Circuit
        mk = lambda ops: C([_op_py(L, o) for o in ops], v["nq"])
        args = {"circuit": mk(v["ops"]), "twin": mk(v["ops"]), "other": mk(v["other"])}
        return args, _circuit_calls(L, v, tmp, v["nq"])
    return {"gen": gen, "build": build}


def _fam_custom():
    def gen(rng):
        syms = rng.sample(SYMNAMES, 2)
        dim = rng.choice([2, 2, 2, 4])
        mat = []
        k = rng.randint(1, dim * dim)
        pos = set(rng.sample(range(dim * dim), k))
        for i in range(dim * dim):
            mat.append(_gen_expr(rng, i in pos, syms))
        if not _syms_of(mat) >= set(syms):
            mat[0] = ["cos({0})**2 + sin({0})**2 - 1 + {1}".format(*syms), True]
        other_syms = [s for s in SYMNAMES if s not in syms]
        gp = [_gen_expr(rng, rng.random() < 0.7, other_syms, real=True) for _ in syms]
        nq = 1 if dim == 2 else 2
        tot = nq + 1
        ss = _syms_of(gp)
        return {"name": rng.choice(["Foo", "my_gate", "U"]), "matrix": mat, "dim": dim, "order": syms, "gparams": gp,
                "q": rng.sample(range(tot), nq), "nq": tot, "extra": _gen_gop(rng, tot, other_syms, rng.random() < 0.5),
                "opidx": 0, "bind_partial": _gen_bind(rng, ss, False), "bind_full": _gen_bind(rng, ss, True)}

    def build(L, v, tmp):
        sp = L.sympy
        circ = L.circuits
        C = circ.Circuit
        mkm = lambda: sp.Matrix(v["dim"], v["dim"], [expr(sp, e) for e in v["matrix"]])
        order = tuple(sp.Symbol(s) for s in v["order"])
        args = {"matrix": mkm(), "matrix2": mkm()}
        args["definition"] = Derived(lambda a: circ.CustomGateDefinition(v["name"], a["matrix"], order))
        args["definition2"] = Derived(lambda a: circ.CustomGateDefinition(v["name"], a["matrix2"], order))
        gp = lambda: [expr(sp, p) for p in v["gparams"]]
        mk = lambda d: C([d(*gp())(*v["q"]), _op_py(L, v["extra"])], v["nq"])
        args["circuit"] = Derived(lambda a: mk(a["definition"]))
        args["twin"] = Derived(lambda a: mk(a["definition2"]))
        args["other"] = Derived(lambda a: C([a["definition"](*reversed(gp()))(*v["q"])], v["nq"]))
        calls = [
            ("definition()", lambda a: a["definition"](*gp())),
            ("definition().matrix", lambda a: a["definition"](*gp()).matrix),
            ("definition==", lambda a: a["definition"] == a["definition2"]),
            ("definition.repr", lambda a: repr(a["definition"])),
            ("definition.to_dict", lambda a: circ.to_dict(a["definition"])),
            ("matrix_factory==", lambda a: a["circuit"].operations[0].gate.matrix_factory == a["twin"].operations[0].gate.matrix_factory),
            ("matrix_factory.matrix", lambda a: a["circuit"].operations[0].gate.matrix_factory.matrix is a["matrix"]),
        ] + _circuit_calls(L, v, tmp, v["nq"])
        return args, calls
    return {"gen": gen, "build": build}


FAMILIES = {"wf": _fam_wf(), "sim": _fam_sim(), "circ": _fam_circ(), "custom": _fam_custom()}


# ------------------------------------------------------------------ running one case
def run_case(L, case):
    import tempfile
    import warnings
    fam = FAMILIES[case["fam"]]
    out = {"symbolic": True, "calls": []}
    with tempfile.TemporaryDirectory(prefix="c20s_") as tmp, warnings.catch_warnings():
        warnings.simplefilter("ignore")
        keep = []
        _SR.clear()
        args, calls = fam["build"](L, case["v"], tmp)
        for name in [k for k, v in args.items() if isinstance(v, Derived)]:
            raw = {k: v for k, v in args.items() if not isinstance(v, Derived)}
            before = _snap_args(L, raw, keep)
            res, msg = _guard(args[name].fn, args)
            after = _snap_args(L, raw, keep)
            rec = {"label": f"constructing `{name}` from the arguments", "res": res[1] if res[0] != "ok" else "ok"}
            if msg is not None:
                rec["msg"] = msg
            if after != before:
                rec["changed"] = {"on_call": 1, "where": _where(before, after)}
            out["calls"].append(rec)
            if res[0] != "ok":
                out["unbuildable"] = True
                return out
            if "changed" in rec:
                return out
            args[name] = res[1]
        snap0 = _snap_args(L, args, keep)
        first = None
        plan = [(lb, fn, False) for lb, fn in calls] + [(calls[0][0], calls[0][1], True)]
        for label, fn, at_end in plan:
            rec = {"label": label + (" (asked again at the end)" if at_end else "")}
            outcomes = []
            for nth in (1, 2):
                L.np.random.seed(12345)
                res, msg = _guard(fn, args)
                if msg is not None:
                    rec.setdefault("msg", msg)
                snap = _snap_args(L, args, keep)
                if snap != snap0 and "changed" not in rec:
                    rec["changed"] = {"on_call": nth, "where": _where(snap0, snap)}
                outcomes.append(res)
                if at_end:
                    break
            rsnap = lambda cheap: [ssnap(L, r[1], [], ids=False, cheap=cheap) if r[0] == "ok" else [r[0], r[1]] for r in outcomes]
            rs = rsnap(True)
            if len(rs) == 2 and rs[0] != rs[1]:
                rs = rsnap(False)   # (readable)
            rec["res"] = outcomes[0][1] if outcomes[0][0] != "ok" else "ok"
            if len(rs) == 2 and rs[0] != rs[1]:
                rec["twice"] = _where(rs[0], rs[1])
            if first is None:
                first = rs[0]
            elif at_end and rs[0] != first:
                rec["replay"] = _where(first, rs[0])
            out["calls"].append(rec)
            if "changed" in rec:
                break
    return out


def oracle(case, out):
    fam = case["fam"]
    what = f"family {fam}, input {common.canon(case['v'])[:700]}"
    for rec in out["calls"]:
        lb = rec["label"]
        if "changed" in rec:
            return (f"rewrites-symbolic:{fam}", f"{lb} rewrote a stored expression / container of its receiver or arguments (call "
                    f"#{rec['changed']['on_call']}): {rec['changed']['where']}; {what}")
        if "twice" in rec:
            return (f"unrepeatable-symbolic:{fam}", f"{lb} made twice on the same objects gave different answers: {rec['twice']}; {what}")
        if "replay" in rec:
            return (f"unrepeatable-symbolic:{fam}", f"{lb} gave another answer than the first time, with only value-returning calls on "
                    f"the same objects in between: {rec['replay']}; {what}")
    if out.get("unbuildable"):
        rec = out["calls"][-1]
        return (f"unbuildable-symbolic:{fam}", f"{rec['label']} failed ({rec.get('msg')}): the generator produced an input the library "
                f"rejects; {what}")
    return None


# ------------------------------------------------------------------ generation
def generate(rng, big):
    cases = []
    for fam, n in (("wf", 12), ("sim", 4), ("circ", 5), ("custom", 3)):
        for _ in range(n * (6 if big else 1)):
            cases.append({"kind": "symbolic", "fam": fam, "v": FAMILIES[fam]["gen"](rng)})
    return cases


def corpus():
    t2 = {"bind_partial": [["a", "1/2"]], "bind_full": [["a", "1/2"], ["b", "-3/4"]]}
    return [
        # the state RX(b) RX(a) |0> written out as the product of the two gate matrices
        {"kind": "symbolic", "fam": "wf", "v": {"entries": [["cos(a/2)*cos(b/2) - sin(a/2)*sin(b/2)", True],
                                                               ["-I*sin(a/2)*cos(b/2) - I*sin(b/2)*cos(a/2)", True]],
                                                 "other": [["cos(a/2)", True], ["-I*sin(a/2)", True]], "ctor": "matrix", "idx": 0, **t2}},
        # symbols that cancel under simplification; an unevaluated 0*y
        {"kind": "symbolic", "fam": "wf", "v": {"entries": [["(sin(a)**2 + cos(a)**2)/sqrt(2)", True], ["b + 0*a", False]],
                                                 "other": [["1/2", True], ["b", True]], "ctor": "list", "idx": 1, **t2}},
        # what the simulator returns for two rotations in a row
        {"kind": "symbolic", "fam": "sim", "v": {"nq": 1, "ops": [{"g": "RX", "p": [["a", True]], "q": [0], "wrap": "plain"},
                                                                     {"g": "RX", "p": [["b", True]], "q": [0], "wrap": "plain"}], "idx": 1, **t2}},
        # a circuit whose parameter is cos(a)**2 + sin(a)**2 - 1 + b
        {"kind": "symbolic", "fam": "circ", "v": {"nq": 2, "ops": [{"g": "RX", "p": [["cos(a)**2 + sin(a)**2 - 1 + b", True]], "q": [1], "wrap": "plain"},
                                                                      {"g": "CPHASE", "p": [["(a+1)**2 - a**2 - 2*a - 1 + b", True]], "q": [0, 1], "wrap": "plain"}],
                                                   "other": [{"g": "RX", "p": [["b", True]], "q": [1], "wrap": "plain"}], "opidx": 0, **t2}},
        # a custom gate definition whose matrix is not simplified
        {"kind": "symbolic", "fam": "custom", "v": {"name": "Foo", "dim": 2, "order": ["x", "y"],
                                                     "matrix": [["cos(x)**2 + sin(x)**2 - 1 + y", True], ["2*sin(x)*cos(x)", True], ["x + 0*y", False], ["y", True]],
                                                     "gparams": [["cos(a)*cos(b) - sin(a)*sin(b)", True], ["a", True]], "q": [1], "nq": 2,
                                                     "extra": {"g": "H", "p": [], "q": [0], "wrap": "plain"}, "opidx": 0, **t2}},
    ]


def nontrivial(case):
    return True


def distribution(cases, outs):
    by_fam, calls, rej, labels = {}, 0, {}, set()
    feats = {"symbolic_unevaluated_entries": 0, "symbolic_symbols_cancel": 0, "symbolic_ctor_routes": {}}
    for c, o in zip(cases, outs):
        if c.get("kind") != "symbolic":
            continue
        by_fam[c["fam"]] = by_fam.get(c["fam"], 0) + 1
        txt = common.canon(c["v"])
        feats["symbolic_unevaluated_entries"] += "false" in txt
        feats["symbolic_symbols_cancel"] += "sin(" in txt and "**2 + cos(" in txt
        if "ctor" in c["v"]:
            feats["symbolic_ctor_routes"][c["v"]["ctor"]] = feats["symbolic_ctor_routes"].get(c["v"]["ctor"], 0) + 1
        for rec in (o.get("calls") or []) if isinstance(o, dict) else []:
            calls += 1
            labels.add(c["fam"] + ":" + rec["label"].split(" (")[0])
            if isinstance(rec.get("res"), str) and rec["res"] != "ok":
                key = rec["label"].split(" (")[0] + " " + rec["res"]
                rej[key] = rej.get(key, 0) + 1
    return {"symbolic_cases_by_family": by_fam, "symbolic_calls": calls, "symbolic_distinct_operations": len(labels),
            "symbolic_rejections": dict(sorted(rej.items())), **feats}
